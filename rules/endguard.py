"""END-GUARD: contradiction rule for iterators compared with an end() expression.

For an iterator/pointer X that a branch compares with an end expression E (a call of a member
function named end/cend, possibly through a single-definition local), the fact `X == E` is
generated on the matching branch edge (true edge of ==, false edge of !=; the CFG has already
split && and || into separate blocks) and removed by the opposite edge of any re-test, by any
write to X (assignment, ++/--, passing it or its root object by non-const reference, non-const
member calls on its root, calls of by-reference lambdas).  A dereference of X (*X, X->, X[k])
reached while the fact holds is a violation: on that path the code has itself just established
that X is the past-the-end position.

To stay exact the analysis gives up (reports the site as *undecided*, not as a violation) when
the path crosses a branch whose condition reads a local that was assigned while the fact held
(a correlated flag): it cannot tell whether that path is feasible.
"""
from cfg import graph
from ir import fmt_term

ASSIGN_OPS = {'=', '+=', '-=', '*=', '/=', '%=', '|=', '&=', '^=', '<<=', '>>='}


def _is_end_term(t):
    return isinstance(t, tuple) and t and t[0] == 'call' and isinstance(t[1], str) and t[1].split('::')[-1] in ('end', 'cend') and len(t[2]) == 0


def _trackable(t):
    if not isinstance(t, tuple):
        return False
    if t[0] in ('local', 'param'):
        return True
    if t[0] == 'field':
        return t[2] == ('this',) or _trackable(t[2])
    if t[0] == 'deref':
        return t[1][0] in ('local', 'param')
    return False


def _root(t):
    if t[0] in ('local', 'param'):
        return t
    if t[0] == 'field':
        return ('this',) if t[2] == ('this',) else _root(t[2])
    if t[0] == 'deref':
        return _root(t[1])
    return t


def _cmp_parts(fn, c):
    """(op, lhs node, rhs node, negated) for an (in)equality comparison node, else None"""
    neg = False
    c = fn.strip(c)
    while c and fn.n(c)['c'] == 'UnaryOperator' and fn.n(c)['op'] == '!':
        neg = not neg
        c = fn.strip(fn.n(c)['ch'][0])
    if not c:
        return None
    nd = fn.n(c)
    if nd['c'] == 'BinaryOperator' and nd['op'] in ('==', '!='):
        return nd['op'], nd['ch'][0], nd['ch'][1], neg
    if nd['c'] == 'CXXOperatorCallExpr' and nd.get('op') in ('==', '!=') and len(nd.get('args', [])) == 2:
        return nd['op'], nd['args'][0], nd['args'][1], neg
    # `!(a == b)` written as a call of a user operator!= is a plain != above; nothing else recognised
    return None


def end_comparison(fn, c):
    """(X term, eq_on_true) if condition node c compares a trackable X with an end expression"""
    p = _cmp_parts(fn, c)
    if not p:
        return None
    op, a, b, neg = p
    ta_i, tb_i = fn.term(a, inline=True), fn.term(b, inline=True)
    ta, tb = fn.term(a, inline=False), fn.term(b, inline=False)
    x = None
    if _is_end_term(tb_i) and not _is_end_term(ta_i) and _trackable(ta):
        x = ta
    elif _is_end_term(ta_i) and not _is_end_term(tb_i) and _trackable(tb):
        x = tb
    if x is None:
        return None
    eq_on_true = (op == '==')
    if neg:
        eq_on_true = not eq_on_true
    return x, eq_on_true


def implications(fn, c, label):
    """[(X, is_end)] facts implied by condition node c evaluating to `label`.
    `A && B` true implies both, `A || B` false implies both negations; nothing else is implied."""
    c = fn.strip(c)
    if not c:
        return []
    nd = fn.n(c)
    if nd['c'] == 'DeclRefExpr' and nd.get('dk') in ('local', 'static_local'):
        # a boolean flag with a single definition (`const bool has_item = !(it == end)`) stands for its initialiser, provided the
        # compared iterator is not modified between the definition and the test (checked by the caller's kill sets: the fact is
        # attached to the tested variable, and any later write to it kills the fact)
        init = fn.single_def(nd['d'])
        if init:
            imp = implications(fn, init, label)
            if imp and not _stale_between(fn, init, c, imp):
                return imp
        return []
    if nd['c'] == 'UnaryOperator' and nd['op'] == '!':
        return implications(fn, nd['ch'][0], not label)
    if nd['c'] == 'BinaryOperator' and nd['op'] == '&&':
        if label:
            return implications(fn, nd['ch'][0], True) + implications(fn, nd['ch'][1], True)
        return []
    if nd['c'] == 'BinaryOperator' and nd['op'] == '||':
        if not label:
            return implications(fn, nd['ch'][0], False) + implications(fn, nd['ch'][1], False)
        return []
    ec = end_comparison(fn, c)
    if ec:
        x, eq_on_true = ec
        return [(x, label == eq_on_true)]
    return []


def _stale_between(fn, def_node, test_node, imp):
    """is one of the compared iterators written on a path from the flag's definition to the test of the flag?"""
    import iterinv
    g = graph(fn)
    roots = set()
    for (x, _) in imp:
        r = _root(x)
        if r and r[0] in ('local', 'param') and len(r) >= 2:
            roots.add(r[1])
    for vid, d in fn.defs.items():
        if d.get('name') in roots:
            for w in d.get('writes', []):
                if iterinv._after(fn, g, def_node, w) and iterinv._after(fn, g, w, test_node):
                    return True
    return False


def _has_end_cmp(fn, c):
    return bool(implications(fn, c, True) or implications(fn, c, False))


def _reads_vars(fn, node):
    out = set()
    for i in fn.walk(node):
        nd = fn.n(i)
        if nd['c'] == 'DeclRefExpr' and nd.get('dk') in ('local', 'param'):
            out.add(nd['d'])
    return out


def _element_effects(fn, e):
    """(derefs: [terms], kills: [roots/terms], assigned_locals: {decl ids}, incs: [terms]) of a single CFG element"""
    nd = fn.n(e)
    c = nd['c']
    derefs, kills, assigned, incs = [], [], set(), []
    T = lambda i: fn.term(i, inline=False)
    if c == 'UnaryOperator':
        if nd['op'] == '*':
            derefs.append(T(nd['ch'][0]))
        elif nd['op'] in ('++', '--'):
            kills.append(T(nd['ch'][0]))
            if nd['op'] == '++':
                incs.append(T(nd['ch'][0]))
    elif c == 'MemberExpr' and nd.get('arrow'):
        derefs.append(T(nd['ch'][0]))
    elif c == 'ArraySubscriptExpr':
        derefs.append(T(nd['ch'][0]))
    elif c in ('BinaryOperator', 'CompoundAssignOperator') and nd['op'] in ASSIGN_OPS:
        kills.append(T(nd['ch'][0]))
    elif c == 'CXXOperatorCallExpr':
        op = nd.get('op')
        args = nd.get('args', [])
        if op in ('*', '->', '[]') and args:
            if not (op == '*' and len(args) == 2):
                derefs.append(T(args[0]))
        if (op in ASSIGN_OPS or op in ('++', '--')) and args:
            kills.append(T(args[0]))
            if op == '++':
                incs.append(T(args[0]))
    if c in ('CallExpr', 'CXXMemberCallExpr', 'CXXOperatorCallExpr', 'CXXConstructExpr', 'CXXTemporaryObjectExpr'):
        pm = nd.get('pmodes', [])
        args = nd.get('args', [])
        off = 1 if (c == 'CXXOperatorCallExpr' and nd.get('op_member')) else 0
        for k, a in enumerate(args):
            pk = k - off
            if pk < 0 or pk >= len(pm):
                continue
            if pm[pk] in ('ref', 'ptr'):
                kills.append(T(a))
        if c == 'CXXMemberCallExpr' and not nd.get('cconst') and nd.get('obj'):
            kills.append(T(nd['obj']))
        ct = nd.get('ct', '')
        if '(lambda)' in ct:
            kills.append(('*all*',))
    for k in kills:
        if isinstance(k, tuple) and k[0] == 'local':
            assigned.add(k[2])
    if c == 'DeclStmt':
        for v in nd.get('vars', []):
            kills.append(('local', v['name'], v['id']))
    return derefs, kills, assigned, incs


def _killed(x, k):
    if k == ('*all*',):
        return True
    if k == x:
        return True
    r = _root(x)
    if k == r:
        return True
    # a write to a prefix of the access path of x
    t = x
    while isinstance(t, tuple) and t[0] in ('field', 'deref'):
        t = t[2] if t[0] == 'field' else t[1]
        if t == k:
            return True
    return False


_entry_memo = {}


def entry_use(fn, x):
    """does fn, entered with `x == end()` already established for its own field x, dereference or increment x before
    re-testing or re-assigning it?  returns the offending node or None"""
    key = (id(fn.unit), fn.id, x)
    if key in _entry_memo:
        return _entry_memo[key]
    _entry_memo[key] = None
    r = analyse(fn, initial={x}, interprocedural=False)
    hit = r['violations'][0][0] if r['violations'] else None
    _entry_memo[key] = hit
    return hit


def analyse(fn, initial=None, interprocedural=True):
    """returns dict(violations=[(deref node, X, cmp node)], undecided=[...], comparisons=n, derefs=n)"""
    res = {'violations': [], 'undecided': [], 'comparisons': 0, 'derefs_checked': 0, 'cmp_sites': []}
    if not fn.cfg:
        return res
    g = graph(fn)
    cmps = {}
    for b in g.reach:
        c = g.cond(b)
        if c:
            if _has_end_cmp(fn, c):
                cmps[b] = c
                for (x, _) in implications(fn, c, True) + implications(fn, c, False):
                    res['cmp_sites'].append((c, x))
    res['comparisons'] = len(cmps)
    if not cmps and not initial:
        return res
    # facts: (X, cmp_node, frozenset(tainted locals), weak)
    IN = {b: set() for b in g.reach}
    if initial:
        IN[g.entry] = {(x, 0, frozenset(), False) for x in initial}
    work = [g.entry]
    effects = {}
    seen_viol = set()
    seen_und = set()
    visited = set()
    while work:
        b = work.pop()
        first_visit = b not in visited
        visited.add(b)
        facts = set(IN[b])
        blk = g.blocks[b]
        for e in blk['elems']:
            if e not in effects:
                effects[e] = _element_effects(fn, e)
            derefs, kills, assigned, incs = effects[e]
            if derefs:
                res['derefs_checked'] += 1 if first_visit else 0
            # a call of a member function of the same object while one of its fields is known to be end(): the callee must
            # not dereference or advance that field before re-testing it
            nde = fn.n(e)
            if interprocedural and facts and nde['c'] == 'CXXMemberCallExpr' and nde.get('obj') and fn.term(nde['obj'], inline=False) == ('this',):
                callee = fn.unit.functions.get(nde.get('cd'))
                if callee is not None and callee.record == fn.record:
                    for (x, cn, taint, weak) in list(facts):
                        if x[0] == 'field' and x[2] == ('this',) and not weak:
                            hit = entry_use(callee, x)
                            if hit and (e, x) not in seen_viol:
                                seen_viol.add((e, x))
                                res['violations'].append((e, x, cn))
                                res.setdefault('via', {})[(e, x)] = (callee, hit)
            for d in incs:
                for (x, cn, taint, weak) in facts:
                    if d == x and not weak and (e, x) not in seen_viol:
                        seen_viol.add((e, x))
                        res['violations'].append((e, x, cn))
                        res.setdefault('inc', set()).add((e, x))
            for d in derefs:
                for (x, cn, taint, weak) in facts:
                    if d != x:
                        continue
                    if weak:
                        if (e, x) not in seen_und:
                            seen_und.add((e, x))
                            res['undecided'].append((e, x, cn))
                    elif (e, x) not in seen_viol:
                        seen_viol.add((e, x))
                        res['violations'].append((e, x, cn))
            if kills:
                facts = {f for f in facts if not any(_killed(f[0], k) for k in kills)}
            if assigned and facts:
                facts = {(x, cn, frozenset(t | assigned), w) for (x, cn, t, w) in facts}
        cond = g.cond(b)
        cond_reads = _reads_vars(fn, cond) if cond else set()
        for (s, lab) in g.out_edges(b):
            if s is None or s not in IN:
                continue
            out = set()
            for (x, cn, t, w) in facts:
                if cond and (t & cond_reads) and b not in cmps:
                    w = True   # crossed a branch on a flag assigned while the fact held: feasibility unknown
                out.add((x, cn, t, w))
            if b in cmps and isinstance(lab, bool):
                for (x, is_end) in implications(fn, cond, lab):
                    out = {f for f in out if f[0] != x}
                    if is_end:
                        out.add((x, cond, frozenset(), False))
            if not out <= IN[s]:
                IN[s] |= out
                work.append(s)
            elif s not in visited:
                work.append(s)
    return res


def describe(fn, viol, res=None):
    e, x, cn = viol
    if cn == 0:
        return f"`{fmt_term(x)}` is dereferenced or advanced at line {fn.n(e)['l']} before being re-tested"
    if res and (e, x) in res.get('via', {}):
        callee, hit = res['via'][(e, x)]
        return (f"call of {callee.name}() at line {fn.n(e)['l']} is reachable on the branch of `{fmt_term(fn.term(cn, inline=False))}` (line {fn.n(cn)['l']}) on which "
                f"`{fmt_term(x)}` equals end(), and {callee.name}() advances/dereferences it at line {callee.n(hit)['l']} before any re-test")
    if res and (e, x) in res.get('inc', set()):
        return (f"`{fmt_term(x)}` is incremented at line {fn.n(e)['l']} on the branch of `{fmt_term(fn.term(cn, inline=False))}` (line {fn.n(cn)['l']}) on which it equals end()")
    return (f"dereference of `{fmt_term(x)}` at line {fn.n(e)['l']} is reachable on the branch of "
            f"`{fmt_term(fn.term(cn, inline=False))}` (line {fn.n(cn)['l']}) on which `{fmt_term(x)}` equals end()")
