#!/usr/bin/env python3
"""Freezes the vocabulary of the tree the rules were written against: the template names of all functions and the names of all
local closure variables (per enclosing function) of the analysed units -> rules/known_names.json.  Fn.term() looks *through*
calls of one-return functions and closures that are not in this vocabulary (helpers introduced by a later refactoring), and
leaves the known ones as opaque symbols the rules can match.  Re-run after a fix: commit in /repo that adds a function."""
import json
import os
import sys
sys.path.insert(0, os.path.dirname(os.path.abspath(__file__)))
sys.path.insert(0, os.path.join(os.path.dirname(os.path.abspath(__file__)), '..', 'units'))
import extract  # noqa: E402


def main():
    units, info, cpgm = extract.load_units('thorough', want_repo_tus=False)[:3] if False else (None, None, None)
    r = extract.load_units('thorough')
    us = list(r[0]) + ([r[2]] if len(r) > 2 and r[2] is not None else [])
    fns, closures = set(), set()
    for u in us:
        for f in u.functions.values():
            fns.add(f.tname)
            for vid, d in f.defs.items():
                if d.get('init') and f.n(d['init'])['c'] == 'LambdaExpr' or (d.get('init') and f.n(f.strip(d['init']))['c'] == 'LambdaExpr'):
                    closures.add(f.tname + '|' + d['name'])
    out = {'functions': sorted(fns), 'closures': sorted(closures)}
    json.dump(out, open(os.path.join(os.path.dirname(os.path.abspath(__file__)), 'known_names.json'), 'w'), indent=0)
    print(len(fns), 'functions,', len(closures), 'closure variables')


if __name__ == '__main__':
    main()
