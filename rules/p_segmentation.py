"""piecewise_linear_model.hpp: C03 (NO-DROP, RANK-AGREE, GAP-GUARD, OMP-ORDER, KEY-ARITH, GEOM-GUARDS), C04 (CUT-SITES,
REJECT-ONLY-GEOMETRIC, GEOM-GUARDS) and the CLOSING / SENTINEL clauses used by C02 and C17."""
import itertools

import form
from cfg import graph
from common import Ob, OK, VIOLATED, UNDECIDED, AnalysisBroken
from ir import fmt_term

THIS = ('this',)
MS = 'pgm::internal::make_segmentation'
MSP = 'pgm::internal::make_segmentation_par'
OPLM = 'pgm::internal::OptimalPiecewiseLinearModel'


def subterms(t):
    if isinstance(t, tuple):
        if t and isinstance(t[0], str):
            yield t
        for x in t:
            if isinstance(x, tuple):
                yield from subterms(x)


def strip_cast(t):
    while isinstance(t, tuple) and t and t[0] in ('cast', 'conv'):
        t = t[2]
    return t


def nocast(t):
    if isinstance(t, tuple):
        if t and t[0] == 'cast':
            return nocast(t[2])
        return tuple(nocast(x) for x in t)
    return t


def reachable(fn, node):
    pos = fn.block_of(node)
    return bool(pos) and pos[0] in graph(fn).reach


def conds_of(fn, node, inline=False):
    g = graph(fn)
    pos = fn.block_of(node)
    out = []
    if not pos:
        return out
    for (b, lab) in g.transitive_control_deps(pos[0]):
        c = g.cond(b)
        if c:
            out.append((fn.term(c, inline=inline), lab, c))
    return out


def conds_of_b(fn, node, inline=False):
    """like conds_of, with the branching block"""
    g = graph(fn)
    pos = fn.block_of(node)
    out = []
    if not pos:
        return out
    for (b, lab) in g.transitive_control_deps(pos[0]):
        c = g.cond(b)
        if c:
            out.append((fn.term(c, inline=inline), lab, c, b))
    return out


def conds_iter(fn, node=None, block=None, inline=False):
    """like conds_of_b, but within one iteration: the condition block of a loop is control dependent, through the back edge, on
    the `break`/`continue` tests of the previous iteration; those are facts about the previous value of the loop variable and
    are not followed (the loop model accounts for them separately)."""
    g = graph(fn)
    if block is None:
        pos = fn.block_of(node)
        if not pos:
            return []
        block = pos[0]
    out = []
    seen = set()
    st = [block]
    done = set()
    while st:
        x = st.pop()
        if x in done:
            continue
        done.add(x)
        for (a, lab) in g.control_deps.get(x, ()):
            if (a, lab) in seen:
                continue
            if g.blocks[x].get('term_c') in ('ForStmt', 'WhileStmt', 'DoStmt') and g.cond(x):
                # x is a loop condition block: a dependence on a block inside its own body comes from the back edge
                body = set()
                t_edge = g.succ[x][0]
                if t_edge is not None:
                    body = g.reachable_from(t_edge, blocked={x})
                if a in body:
                    continue
            seen.add((a, lab))
            c = g.cond(a)
            if c:
                out.append((fn.term(c, inline=inline), lab, c, a))
            st.append(a)
    return out


def six(ctx):
    fs = [f for f in ctx.need(MS, ctx.units) if len(f.params) == 6]
    if not fs:
        raise AnalysisBroken('make_segmentation(n, start, end, epsilon, in, out) not found')
    return fs


def inner_lambda(f):
    return [g for g in f.unit.fns(MS + '::(lambda)::operator()') if g.d.get('parent_fn') == f.id]


def feeder_of(f):
    """the closure of make_segmentation that hands a point to the builder (calls OptimalPiecewiseLinearModel::add_point)"""
    cs = [l for l in inner_lambda(f) if l.calls_to(OPLM + '::add_point')]
    return cs[0] if len(cs) == 1 else None


def _subst(t, m):
    if isinstance(t, tuple):
        if t in m:
            return m[t]
        return tuple(_subst(x, m) for x in t)
    return t


def feed_sites(f):
    """every call that feeds a point (x, y) to the builder through the feeding closure: [(node in f, x term, y term, [(cond term,
    label)], helper name or None)].  A call of another local closure that itself calls the feeding closure is expanded with its
    parameters substituted, so hoisting a piece of the driver into a helper closure does not change what the rules see."""
    fd = feeder_of(f)
    if fd is None:
        return None
    out = []
    helpers = [l for l in inner_lambda(f) if l.id != fd.id and any(l.n(c).get('cd') == fd.id for c in l.calls())]
    for c in f.calls():
        nd = f.n(c)
        if not reachable(f, c):
            continue
        if nd.get('cd') == fd.id:
            a = nd['args']
            x = strip_cast(f.term(a[1], inline=False))
            if x[0] == 'local':
                d = f.defs.get(x[2], {})
                ws = [w for w in d.get('writes', []) if f.n(w).get('op') == '=']
                if len(ws) == 1 and not d.get('init'):
                    x = strip_cast(f.term(f.n(ws[0])['ch'][1], inline=False))
                elif f.single_def(x[2]):
                    x = strip_cast(_resolve_key_locals(f, f.term(f.single_def(x[2]), inline=False)))        # auto next = <successor of in(i)>, auto x = in(i)
            out.append((c, x, nocast(f.term(a[2], inline=False)), [(t, lab) for (t, lab, cn) in conds_of(f, c)], None))
            continue
        for h in helpers:
            if nd.get('cd') != h.id:
                continue
            actual = [nocast(f.term(a_, inline=True)) for a_ in nd['args'][1:]]
            m = {('param', p_['name']): actual[k] for k, p_ in enumerate(h.params) if k < len(actual)}
            outer = [(t, lab) for (t, lab, cn) in conds_of(f, c)]
            for hc in h.calls():
                if h.n(hc).get('cd') != fd.id or not reachable(h, hc):
                    continue
                a = h.n(hc)['args']
                x = strip_cast(h.term(a[1], inline=True))
                if x[0] == 'local':
                    d = h.defs.get(x[2], {})
                    ws = [w for w in d.get('writes', []) if h.n(w).get('op') == '=']
                    if len(ws) == 1:
                        x = strip_cast(h.term(h.n(ws[0])['ch'][1], inline=True))
                y = nocast(h.term(a[2], inline=True))
                inner = [(_subst(nocast(h.term(cn, inline=True)), m), lab) for (t, lab, cn) in conds_of(h, hc)]
                out.append((c, _subst(nocast(x), m), _subst(y, m), outer + inner, h.d.get('line')))
    return out


def is_in_call(t, name='in'):
    t = strip_cast(t)
    return t[0] == 'call' and len(t) > 3 and t[3] == ('param', name) and len(t[2]) == 1


def in_arg(t):
    return nocast(strip_cast(strip_cast(t)[2][0]))


def succ_of(t):
    """E if t is in(E) + 1 or nextafter(in(E), +inf) (possibly through the local `next`)"""
    t = strip_cast(t)
    if t[0] == 'op' and len(t) == 4 and t[1] == '+' and t[3] == ('lit', 1) and is_in_call(t[2]):
        return in_arg(t[2])
    if t[0] == 'call' and t[1] in ('std::nextafter', 'nextafter') and len(t[2]) == 2 and is_in_call(t[2][0]):
        inf = strip_cast(t[2][1])
        if inf[0] == 'call' and inf[1].endswith('::infinity'):
            return in_arg(t[2][0])
    if t[0] == 'op' and t[1] == '=' and len(t) == 4:
        return succ_of(t[3])
    return None


# ------------------------------------------------------------------------------------------ NO-DROP, CUT-SITES
def rule_no_drop(ctx):
    obs = []
    for f in six(ctx):
        l = feeder_of(f)
        if l is None:
            obs.append(Ob('NO-DROP', f, 0, 'one helper that feeds the point to the builder', f"{len(inner_lambda(f))} inner lambdas, none or several call the builder", UNDECIDED, arm='helper'))
            continue
        g = graph(l)
        X, Y = ('param', l.params[0]['name']), ('param', l.params[1]['name'])
        adds = [c for c in l.calls_to(OPLM + '::add_point') if reachable(l, c)]
        outs = [c for c in l.calls() if l.n(c).get('op') == '()' and strip_cast(l.term(l.n(c)['args'][0], inline=False))[0:2] in (('local', 'out'), ('param', 'out'))
                or (l.n(c).get('op') == '()' and l.n(l.strip(l.n(c)['args'][0])).get('n') == 'out')]
        outs = [c for c in outs if reachable(l, c)]
        ok = False
        why = f"{len(adds)} add_point call(s), {len(outs)} out call(s)"
        if len(adds) == 2 and len(outs) == 1:
            a1, a2 = sorted(adds, key=lambda c: (l.block_of(c)[0] != g.entry, l.n(c)['l']))
            # a1 is the one whose (negated) result is the branch condition
            first = None
            for a in adds:
                for b in g.reach:
                    c = g.cond(b)
                    if c and a in set(l.walk(c)):
                        first = a
            if first is not None:
                second = [a for a in adds if a != first][0]
                same_args = [nocast(l.term(x, inline=False)) for x in l.n(first)['args']] == [nocast(l.term(x, inline=False)) for x in l.n(second)['args']] == [X, Y]
                # under the false outcome: out(opt.get_segment()) then the re-add, on every path
                cs = conds_of(l, second)
                under_false = any((strip_cast(t)[0] == 'un' and strip_cast(t)[1] == '!' and lab is True) or (strip_cast(t)[0] == 'call' and lab is False) for (t, lab, cn) in cs)
                seg = nocast(l.term(l.n(outs[0])['args'][1], inline=True))
                flush_ok = seg[0] == 'call' and seg[1] == OPLM + '::get_segment'
                order = g.before(outs[0], second) and g.before(first, outs[0])
                ok = same_args and under_false and flush_ok and order
                why = f"rejected point: flush out(opt.get_segment()) = {flush_ok}, then re-add the same (x, y) = {same_args}, in that order = {order}, under the false outcome = {under_false}"
        obs.append(Ob('NO-DROP', l, adds[0] if adds else 0, 'a point the builder rejects is re-added to the fresh segment after the old one was emitted (no point is dropped)', why, OK if ok else VIOLATED, arm='re-add'))
        # final flush post-dominates everything
        gf = graph(f)
        fouts = [c for c in f.calls() if f.n(c).get('op') == '()' and nocast(f.term(f.n(c)['args'][0], inline=False)) == ('param', f.params[5]['name']) and reachable(f, c)]
        okf = False
        whyf = f"{len(fouts)} direct out() call(s) in make_segmentation"
        if len(fouts) == 1:
            b = f.block_of(fouts[0])[0]
            seg = nocast(f.term(f.n(fouts[0])['args'][1], inline=True))
            okf = gf.must_pass(gf.entry, gf.exit, {b}) and seg[0] == 'call' and seg[1] == OPLM + '::get_segment' and not any(s is not None and b in gf.reachable_from(s) for s in gf.succ[b])
            whyf = f"final out(opt.get_segment()) on every path and outside any loop: {okf}"
        obs.append(Ob('NO-DROP', f, fouts[0] if fouts else 0, 'the last segment is emitted on every path', whyf, OK if okf else VIOLATED, arm='final-flush'))
    return obs


def rule_cut_sites(ctx):
    """a segment is closed only when the builder rejected a point, or at the final flush"""
    obs = []
    for f in six(ctx):
        # resets of the builder
        rs = [c for c in f.calls_to(OPLM + '::reset') if reachable(f, c)]
        for l in inner_lambda(f):
            rs += [c for c in l.calls_to(OPLM + '::reset') if reachable(l, c)]
        obs.append(Ob('CUT-SITES', f, rs[0] if rs else 0, 'no extra cut: the builder is never reset by the segmentation driver', f"{len(rs)} reset() call(s)", OK if not rs else VIOLATED, arm='no-reset'))
        for l in inner_lambda(f):
            for c in l.calls():
                nd = l.n(c)
                if nd.get('op') == '()' and l.n(l.strip(nd['args'][0])).get('n') == 'out' and reachable(l, c):
                    cs = conds_of(l, c)
                    # the only condition allowed: the (negated) result of opt.add_point
                    good = True
                    txt = []
                    for (t, lab, cn) in cs:
                        tt = strip_cast(t)
                        core = tt[2] if (tt[0] == 'un' and tt[1] == '!') else tt
                        core = strip_cast(core)
                        txt.append(fmt_term(tt)[:60])
                        if not (core[0] == 'call' and core[1] == OPLM + '::add_point'):
                            good = False
                    if not cs:
                        good = False
                    obs.append(Ob('CUT-SITES', l, c, 'a segment is emitted inside the loop only because add_point returned false (no size- or count-based cut)',
                                  'guarded by ' + (' & '.join(txt) or 'nothing'), OK if good else VIOLATED, arm='cut'))
        # number of calls of the helper that can emit: every call of the inner lambda is one add; nothing else emits
        n_out = len([c for c in f.calls() if f.n(c).get('op') == '()' and nocast(f.term(f.n(c)['args'][0], inline=False)) == ('param', f.params[5]['name']) and reachable(f, c)])
        obs.append(Ob('CUT-SITES', f, 0, 'exactly one unconditional emission (the final flush) in the driver', f"{n_out} direct out() call(s)", OK if n_out == 1 else VIOLATED, arm='final'))
    return obs


# ------------------------------------------------------------------------------------------ RANK-AGREE, GAP-GUARD, CLOSING
def rule_rank_agree(ctx):
    obs = []
    for f in six(ctx):
        sites = feed_sites(f)
        if sites is None:
            obs.append(Ob('RANK-AGREE', f, 0, 'one closure that feeds the points to the builder', 'not found', UNDECIDED, arm='sites'))
            continue
        N = ('param', f.params[0]['name'])
        if len(sites) < 4:
            obs.append(Ob('RANK-AGREE', f, 0, 'points fed to the builder', f"only {len(sites)} add sites", UNDECIDED, arm='sites'))
        def _mismatch(e, yt):
            # the index differs from the key's own by a constant: a wrong rank; by anything else (another variable, the end of a
            # run computed by a loop): a driver organised differently, which this rule cannot relate - undecided
            e_, y_ = _pre(f, e), _pre(f, yt)
            if e_ == y_:
                return OK
            try:
                va, vb = form.value(e_), form.value(y_)
                if len(va) == 1 and len(vb) == 1 and (va[0][1] - vb[0][1]).is_const():
                    return VIOLATED
            except form.Unrecognised:
                pass
            return UNDECIDED
        for (c, x, yt, conds, via) in sites:
            xt = x
            x = strip_cast(_resolve_succ_locals(f, _resolve_key_locals(f, x)))
            if is_in_call(x):
                e = in_arg(x)
                st_ = _mismatch(e, yt)
                obs.append(Ob('RANK-AGREE', f, c, 'a key is added at its own index: add_point(in(e), e)', f"add_point(in({fmt_term(e)}), {fmt_term(yt)})", st_, arm='plain'))
                continue
            e = succ_of(x)
            if e is not None:
                closing = (yt == N and e == ('op', '-', N, ('lit', 1)))
                gap = (e == yt)
                ok = closing or gap
                arm = 'closing' if yt == N else 'gap'
                st_ = OK if ok else (_mismatch(e, yt) if yt != N else VIOLATED)
                obs.append(Ob('RANK-AGREE', f, c, 'successor points: add_point(succ(in(i)), i) after a duplicate run, add_point(succ(in(n-1)), n) at the end',
                              f"add_point(succ(in({fmt_term(e)})), {fmt_term(yt)})", st_, arm=arm))
                if gap and not closing:
                    # GAP-GUARD: only if the successor is still smaller than the next key
                    want = ('op', '<', ('sym', 'S'), ('sym', 'NEXT'))
                    okg = False
                    unrelated = False
                    seen = []
                    e = _resolve_index_locals(f, e)        # `const size_t last = end - 1;`
                    for (t, lab) in conds:
                        if lab is not True:
                            continue
                        tt = nocast(strip_cast(_resolve_index_locals(f, _resolve_succ_locals(f, _resolve_key_locals(f, t)))))
                        seen.append(fmt_term(tt)[:70])
                        # replace the successor term and the next key by symbols, then compare by FORM
                        for s_ in sorted(set(subterms(tt)), key=lambda z: -len(repr(z))):
                            e2 = succ_of(s_) if isinstance(s_, tuple) and s_ and s_[0] in ('op', 'call', 'cast') else None
                            if e2 is not None and _lin_diff_is(e2, e, 0):
                                tt = _replace(tt, s_, ('sym', 'S'))
                        nxt = None
                        for s_ in subterms(tt):
                            if is_in_call(s_) and _lin_diff_is(in_arg(s_), e, 1):
                                nxt = s_
                        if nxt is None:
                            # the successor compared with a key read at an index this rule cannot place relative to e (the end of a
                            # run found by a loop): a driver organised differently - not a verdict
                            for c_ in subterms(tt):
                                if isinstance(c_, tuple) and len(c_) == 4 and c_[0] == 'op' and c_[1] in ('<', '>', '<=', '>='):
                                    for s_ in subterms(c_):
                                        if is_in_call(s_) and not _lin_diff_const(in_arg(s_), e):
                                            unrelated = True
                            continue
                        cur = [s_ for s_ in subterms(tt) if is_in_call(s_) and _lin_diff_is(in_arg(s_), e, 0)]
                        t2 = _replace(tt, nxt, ('sym', 'NEXT'))
                        if tt[0] == 'op' and len(tt) == 4 and succ_of(strip_cast(tt[2])) is not None:
                            t2 = ('op', tt[1], ('sym', 'S'), _replace(tt[3], nxt, ('sym', 'NEXT')))
                        else:
                            for cc in cur:
                                t2 = _replace(t2, cc, ('op', '-', ('sym', 'S'), ('lit', 1)))
                        if _implies(t2, want):
                            okg = True
                    obs.append(Ob('GAP-GUARD', f, c, 'the successor of a duplicated key is added only if it is smaller than the next key (keeps x strictly increasing)',
                                  'guarded by ' + (' & '.join(seen) or 'nothing') + (' - the next key is read at an index this rule cannot relate to the rank of the point' if (unrelated and not okg) else ''),
                                  OK if okg else (UNDECIDED if unrelated else VIOLATED), arm='gap'))
                continue
            obs.append(Ob('RANK-AGREE', f, c, 'add_point(in(e), e) or a successor point', f"add_point({fmt_term(xt)[:60]}, {fmt_term(yt)})", VIOLATED, arm='other'))
    return obs


def _resolve_key_locals(f, t, depth=0):
    """`auto x = in(i);`: a single-definition local initialised with a read of the input stands for that read"""
    if isinstance(t, tuple):
        if t and t[0] == 'local' and len(t) == 3 and depth < 4:
            init = f.single_def(t[2])
            if init:
                it = strip_cast(f.term(init, inline=False))
                if is_in_call(it):
                    return it
            return t
        return tuple(_resolve_key_locals(f, x, depth + 1) for x in t)
    return t


def _resolve_succ_locals(f, t):
    """`auto next = successor(in(i)); if (next < in(i + 1))`: a single-definition local that holds a successor term is replaced by it"""
    if isinstance(t, tuple):
        if t and t[0] == 'local' and len(t) == 3:
            init = f.single_def(t[2])
            if init:
                it = strip_cast(_resolve_key_locals(f, f.term(init, inline=False)))
                if succ_of(it) is not None:
                    return it
            return t
        return tuple(_resolve_succ_locals(f, x) for x in t)
    return t


def _lin_diff_const(a, b):
    """a - b is a compile-time constant (the two index terms are related)"""
    try:
        va, vb = form.value(nocast(strip_cast(a))), form.value(nocast(strip_cast(b)))
        return len(va) == 1 and len(vb) == 1 and (va[0][1] - vb[0][1]).is_const()
    except Exception:
        return False


def _lin_diff_is(a, b, k):
    """a - b == k as integer linear forms"""
    try:
        va, vb = form.value(a), form.value(b)
    except form.Unrecognised:
        return False
    if len(va) != 1 or len(vb) != 1:
        return False
    d = va[0][1] - vb[0][1]
    return d.is_const() and d.k == k


def _implies(t, atom):
    """does boolean term t (when true) imply the comparison `atom`?  decided on the DNF of FORM"""
    try:
        want = form.cases(atom, True)
        got = form.cases(nocast(t), True)
    except form.Unrecognised:
        return False
    if len(want) != 1:
        return False
    need = {a.key() for a in want[0]}
    return bool(got) and all(need <= {a.key() for a in g_} for g_ in got)


def _replace(t, old, new):
    if t == old:
        return new
    if isinstance(t, tuple):
        return tuple(_replace(x, old, new) for x in t)
    return t


def rule_closing(ctx):
    """make_segmentation: when this chunk ends the data (end == n) the point (succ(last key), n) is added before the final
    flush; build(): every level ends with a sentinel segment"""
    obs = []
    for f in six(ctx):
        g = graph(f)
        fd_ = feeder_of(f)
        lid = fd_.id if fd_ else None
        N = ('param', f.params[0]['name'])
        END = ('param', f.params[2]['name'])
        closing = []
        for c in [c for c in f.calls() if f.n(c).get('cd') == lid and reachable(f, c)]:
            yt = nocast(f.term(f.n(c)['args'][2], inline=False))
            if yt == N:
                closing.append(c)
        ok = False
        why = 'no closing point add_point(., n)'
        if closing:
            conds = set()
            for c in closing:
                for (t, lab, cn) in conds_of(f, c):
                    tt = nocast(strip_cast(t))
                    if tt in (('op', '==', END, N), ('op', '==', N, END)) and lab is True:
                        conds.add(c)
            # every path on which end == n holds passes one of the closing adds: block the closing blocks, the true edge
            # of `end == n` must not reach the exit
            eqb = [b for b in g.reach if g.cond(b) and nocast(strip_cast(f.term(g.cond(b), inline=False))) in (('op', '==', END, N), ('op', '==', N, END))]
            covered = False
            if eqb:
                tb = g.succ[eqb[0]][0]
                blocks = {f.block_of(c)[0] for c in closing}
                covered = tb is not None and (tb in blocks or g.exit not in g.reachable_from(tb, blocked=blocks))
            ok = len(conds) == len(closing) and covered
            why = f"{len(closing)} closing add(s) under `end == n`; every path with end == n passes one: {covered}"
        obs.append(Ob('CLOSING', f, closing[0] if closing else 0, 'keys greater than the last one are mapped to n: the point (succ(in(n-1)), n) is added whenever the chunk ends the data',
                      why, OK if ok else VIOLATED, arm='closing-point'))
    import inline
    import reach
    for f0 in ctx.need('pgm::PGMIndex::build', ctx.units):
        # the rule is a fact about build() as a whole (what is pushed between one segmentation and the next): decided on the
        # flat view, in which build_level and any other local closure or new helper is inlined
        l = inline.flat(f0)
        g = graph(l)
        segs = [c for c in l.calls(pred=lambda nd: nd.get('cn') == 'make_segmentation_par') if reachable(l, c)]
        if not segs:
            raise AnalysisBroken(f"{f0.qname}: no call of make_segmentation_par after inlining the local closures")
        pushes = [c for c in l.calls(pred=lambda nd: nd.get('cn') == 'emplace_back') if reachable(l, c)]
        is_sent = lambda c: len(l.n(c)['args']) == 3 and strip_cast(l.term(l.n(c)['args'][0], inline=True))[0] == 'static' and str(strip_cast(l.term(l.n(c)['args'][0], inline=True))[1]).endswith('sentinel')
        sent_all = [c for c in pushes if is_sent(c)]
        seg_blocks = {l.block_of(c)[0] for c in segs}
        skip_true = set()
        for b in g.reach:
            c = g.cond(b)
            if c:
                t = nocast(strip_cast(l.term(c, inline=True)))
                if t[0] == 'op' and t[1] in ('==', '!=') and any(s_[0] == 'static' and str(s_[1]).endswith('sentinel') for s_ in subterms(t)) and any(s_[0] == 'call' and str(s_[1]).endswith('::back') for s_ in subterms(t)):
                    e = g.succ[b][0 if t[1] == '==' else 1]
                    if e is not None:
                        skip_true.add(e)
        for S in segs:
            sb, sk = l.block_of(S)
            nk = l.n(S)['args'][0]
            nk_t = nocast(l.term(nk, inline=False))
            # sentinel pushes of this level: reachable from S without crossing another segmentation
            others = seg_blocks - {sb}
            region = set()
            for s_ in g.succ[sb]:
                if s_ is not None:
                    region |= g.reachable_from(s_, blocked=seg_blocks)
            mine = [c for c in sent_all if (l.block_of(c)[0] == sb and l.block_of(c)[1] > sk) or (l.block_of(c)[0] in region and l.block_of(c)[0] not in seg_blocks)]
            ok = False
            why = 'no segments.emplace_back(sentinel, 0, last_n) between this segmentation and the next'
            node = S
            if mine:
                node = mine[0]
                pb = {l.block_of(c)[0] for c in mine}
                if sb in pb:
                    allowed = True
                else:
                    bad_targets = {g.exit} | seg_blocks
                    seen = set()
                    for s_ in g.succ[sb]:
                        if s_ is not None and s_ not in pb and s_ not in skip_true:
                            seen |= g.reachable_from(s_, blocked=pb | skip_true)
                            seen.add(s_)
                    allowed = not (seen & bad_targets)
                last = True
                for c in mine:
                    cb, ck = l.block_of(c)
                    after = set()
                    for s_ in g.succ[cb]:
                        if s_ is not None:
                            after |= g.reachable_from(s_, blocked=seg_blocks) | {s_}
                    after -= seg_blocks
                    for p_ in pushes:
                        if p_ in mine:
                            continue
                        pp = l.block_of(p_)
                        if pp and ((pp[0] == cb and pp[1] > ck) or (pp[0] in after and pp[0] != cb)):
                            last = False
                shapes = []
                for c in mine:
                    a = l.n(c)['args']
                    xt = nocast(l.term(a[2], inline=False))
                    same = xt == nk_t and reach.same_value(l, xt, nk, a[2])
                    shapes.append(strip_cast(l.term(a[1], inline=True)) == ('lit', 0) and bool(same))
                    if not shapes[-1]:
                        node = c
                        stale = xt == nk_t and not same
                        whyx = (f"intercept `{fmt_term(xt)}` is the same variable as the size passed to the segmentation but it is assigned in between (a stale or already updated value)"
                                if stale else f"intercept `{fmt_term(xt)}`, size passed to the segmentation `{fmt_term(nk_t)}`")
                shape = all(shapes)
                ok = allowed and last and shape
                why = (f"emplace_back(sentinel, 0, last_n) on every path that does not already end in a sentinel: {allowed}; it is the last push of the level: {last}; "
                       f"slope 0 and intercept = the number of keys just segmented: {shape}" + ('' if shape else ' (' + whyx + ')'))
            obs.append(Ob('SENTINEL', l, node, 'every level of the segment array is terminated by a sentinel segment whose intercept is the size of the level below (the unbounded forward scans stop only because of it, and the cap of the last segment is its intercept)',
                          why, OK if ok else VIOLATED, arm=f"build-level:{'first' if nk_t[0] == 'param' else 'upper'}"))
    return obs


# ------------------------------------------------------------------------------------------ SEAM (chunk seams of the parallel builder)
def _skip_loops(fn, in_name):
    """variables X advanced by a duplicate-skip loop: a loop whose test/body compares in(X) with in(X - 1) and whose only
    write to X is ++X.  returns {decl id: name}"""
    g = graph(fn)
    out = {}
    for vid, d in fn.defs.items():
        if d.get('param'):
            continue
        ws = [w for w in d.get('writes', []) if fn.n(w).get('op') in ('++', '--', '=', '+=', '-=')]
        if not ws or any(fn.n(w).get('op') != '++' for w in ws):
            continue
        X = ('local', d.get('name'), vid)
        found = False
        for i in fn.all_ids():
            nd = fn.n(i)
            if nd['c'] in ('BinaryOperator', 'CXXOperatorCallExpr') and nd.get('op') in ('==', '!=') and reachable(fn, i):
                t = nocast(fn.term(i, inline=False))
                if len(t) == 4 and is_in_call(t[2], in_name) and is_in_call(t[3], in_name):
                    a, b = in_arg(t[2]), in_arg(t[3])
                    if (a == X and b == ('op', '-', X, ('lit', 1))) or (b == X and a == ('op', '-', X, ('lit', 1))):
                        # the increment must be inside a loop together with this comparison
                        pw = fn.block_of(ws[0])
                        if pw and any(s_ is not None and pw[0] in g.reachable_from(s_) for s_ in g.succ[pw[0]]):
                            found = True
        if found:
            out[vid] = d.get('name')
    return out


def rule_seam(ctx):
    """(1) TILE: the ranges [first, last) handed to make_segmentation by the parallel driver tile [0, n): if the start of a chunk
    is advanced past a run of duplicates that began in the previous chunk, the end of the previous chunk must be advanced by
    the same rule - otherwise the skipped elements belong to no chunk and the run's gap-guard point is never added.
    (2) END-GAP: when a chunk that does not end the data (end < n) ends with a run of duplicates, make_segmentation adds the
    successor point (succ(in(end-1)), end-1) itself, because the next chunk starts after the run and cannot."""
    obs = []
    for f in ctx.need(MSP, ctx.units):
        omp = [i for i in f.all_ids() if f.n(i).get('omp')]
        if not omp:
            continue
        body = set(f.walk(f.n(omp[0])['omp_body']))
        calls = [c for c in f.calls_to(MS) if c in body]
        if not calls:
            continue
        a = f.n(calls[0])['args']
        st, en = nocast(f.term(a[1], inline=False)), nocast(f.term(a[2], inline=False))
        skips = _skip_loops(f, f.params[2]['name'])
        s_skip = st[0] == 'local' and st[2] in skips
        e_skip = en[0] == 'local' and en[2] in skips
        if s_skip and not e_skip:
            obs.append(Ob('SEAM', f, calls[0], 'the chunk ranges tile [0, n): a duplicate-skip applied to the start of a chunk is applied to the end of the previous chunk as well',
                          f"`{st[1]}` is advanced past duplicates of the previous chunk's last key, but `{en[1]}` (the previous chunk's end) stays at the nominal boundary: "
                          f"the skipped elements are handed to no chunk and the gap-guard point after that run is never added", VIOLATED, arm='tile'))
        elif s_skip and e_skip:
            obs.append(Ob('SEAM', f, calls[0], 'the chunk ranges tile [0, n)', f"both `{st[1]}` and `{en[1]}` are advanced by the duplicate-skip rule", OK, arm='tile'))
        else:
            # no skip at all: every chunk would start at its nominal boundary, possibly in the middle of a run - a verdict only when
            # the start is that nominal boundary (a product with the chunk size); boundaries taken from a table or a helper that
            # this rule does not follow are not
            def _nominal(t):
                t = nocast(strip_cast(f.term(f.single_def(t[2]), inline=False))) if (t[0] == 'local' and len(t) == 3 and f.single_def(t[2])) else t
                return t[0] == 'op' and len(t) == 4 and t[1] == '*'
            st_ = OK if s_skip else (VIOLATED if _nominal(st) else UNDECIDED)
            obs.append(Ob('SEAM', f, calls[0], 'a chunk starts at the first occurrence of its first key', f"`{st[1] if len(st) > 1 else fmt_term(st)}` is not advanced past duplicates of the previous key" +
                          ('' if st_ != UNDECIDED else ' by a loop this rule recognises (it is not the nominal boundary i * chunk_size either)'), st_, arm='tile'))
    for f in six(ctx):
        N, END = ('param', f.params[0]['name']), ('param', f.params[2]['name'])
        E1 = ('op', '-', END, ('lit', 1))
        found = None
        sites = feed_sites(f)
        if sites is None:
            obs.append(Ob('SEAM', f, 0, 'one closure that feeds the points to the builder', 'not found', UNDECIDED, arm='end-gap'))
            continue
        obs += [o for o in _seg_model(f) if o.rule == 'SEAM']
    return obs


# ------------------------------------------------------------------------------------------ OMP-ORDER
def _eval(t, env):
    t0 = t[0]
    if t0 == 'lit':
        return t[1]
    if t0 in ('param', 'local'):
        if t[1] not in env and env.get('__fn__') is not None and t0 == 'local' and len(t) == 3:
            # a never re-assigned local of the function: its initialiser, evaluated in the same environment
            fn_ = env['__fn__']
            init = fn_.single_def(t[2])
            if init:
                return _eval(nocast(fn_.term(init, inline=False)), env)
        return env[t[1]]
    if t0 == 'cast':
        return _eval(t[2], env)
    if t0 == 'un' and t[1] == '!':
        return int(not _eval(t[2], env))
    if t0 == 'cond':
        return _eval(t[2], env) if _eval(t[1], env) else _eval(t[3], env)
    if t0 == 'call' and t[1] in ('std::min', 'std::max') and len(t[2]) == 2:
        a, b = _eval(t[2][0], env), _eval(t[2][1], env)
        return min(a, b) if t[1] == 'std::min' else max(a, b)
    if t0 == 'op' and len(t) == 4:
        a, b = _eval(t[2], env), _eval(t[3], env)
        return {'+': lambda: a + b, '-': lambda: a - b, '*': lambda: a * b, '/': lambda: a // b, '%': lambda: a % b,
                '==': lambda: int(a == b), '!=': lambda: int(a != b), '<': lambda: int(a < b), '<=': lambda: int(a <= b),
                '>': lambda: int(a > b), '>=': lambda: int(a >= b), '&&': lambda: int(bool(a) and bool(b)), '||': lambda: int(bool(a) or bool(b))}[t[1]]()
    raise ValueError(repr(t)[:60])


def rule_omp_order(ctx):
    obs = []
    for f in ctx.need(MSP, ctx.units):
        omp = [i for i in f.all_ids() if f.n(i).get('omp')]
        if not omp:
            obs.append(Ob('OMP-ORDER', f, 0, 'an OpenMP parallel-for over the chunks', 'no OpenMP directive in make_segmentation_par (analysed with -fopenmp)', UNDECIDED, arm='region'))
            continue
        o = f.n(omp[0])
        body = set(f.walk(o['omp_body'])) if o.get('omp_body') else set()
        OUT = ('param', f.params[3]['name'])
        N = ('param', f.params[0]['name'])
        # the caller's callback is not invoked (nor captured) inside the region
        inside = [i for i in body if f.n(i)['c'] == 'DeclRefExpr' and f.n(i).get('n') == f.params[3]['name'] and f.n(i).get('dk') == 'param']
        for i in body:
            nd = f.n(i)
            if nd['c'] == 'LambdaExpr':
                for cap in nd.get('captures', []):
                    if cap.get('name') == f.params[3]['name']:
                        inside.append(i)
        obs.append(Ob('OMP-ORDER', f, inside[0] if inside else omp[0], "the caller's out callback is never used inside the parallel region (segments would come out of key order, and race)",
                      f"{len(inside)} use(s) of `{f.params[3]['name']}` inside the region", OK if not inside else VIOLATED, arm='no-out-inside'))
        # after the region: out(cs) for every chunk in order
        after = [c for c in f.calls() if f.n(c).get('op') == '()' and nocast(f.term(f.n(c)['args'][0], inline=False)) == OUT and c not in body and reachable(f, c)]
        ordered = False
        if after:
            g = graph(f)
            # inside a range-for over `results`
            rf = [i for i in f.all_ids() if f.n(i)['c'] == 'CXXForRangeStmt' and after[0] in set(f.walk(i))]
            ordered = len(rf) >= 2 or bool(rf)
            for i in rf:
                pass
        obs.append(Ob('OMP-ORDER', f, after[0] if after else 0, 'segments are handed to the callback after the region, chunk by chunk in index order',
                      f"{len(after)} out() call(s) after the region, inside range-for loops over the per-chunk results: {ordered}", OK if (after and ordered) else VIOLATED, arm='emit-after'))
        # writes inside the region: locals of the body, the reduction variable, results[i]
        red = set()
        for cl in o.get('clauses', []):
            if cl['kind'] == 'reduction':
                red |= set(cl['vars'])
        local_decls = set()
        for i in body:
            nd = f.n(i)
            if nd['c'] == 'DeclStmt':
                for v in nd.get('vars', []):
                    local_decls.add(v['id'])
        bad = []
        loopvar = None
        for i in body:
            nd = f.n(i)
            tgt = None
            if nd['c'] in ('BinaryOperator', 'CompoundAssignOperator') and nd['op'].endswith('=') and nd['op'] not in ('==', '!=', '<=', '>='):
                tgt = nd['ch'][0]
            elif nd['c'] == 'UnaryOperator' and nd['op'] in ('++', '--'):
                tgt = nd['ch'][0]
            elif nd['c'] == 'CXXMemberCallExpr' and not nd.get('cconst') and nd.get('obj'):
                tgt = nd['obj']
            elif nd['c'] == 'CXXOperatorCallExpr' and nd.get('op') in ('=', '+=', '++') and nd.get('args'):
                tgt = nd['args'][0]
            if not tgt:
                continue
            t = nocast(f.term(tgt, inline=False))
            root = t
            idx = None
            while root[0] in ('index', 'field', 'deref') or (root[0] == 'op' and root[1] == '[]'):
                if root[0] == 'index':
                    idx = root[2]
                    root = root[1]
                elif root[0] == 'op':
                    idx = root[3]
                    root = root[2]
                elif root[0] == 'field':
                    root = root[2]
                else:
                    root = root[1]
            if root[0] == 'local':
                vid = root[2]
                if vid in local_decls or vid in red:
                    continue
                if root[1] == 'results' and idx is not None and idx[0] == 'local':
                    loopvar = idx
                    continue
                # the loop variable itself (declared in the for-init, which is part of the directive)
                bad.append(f"{fmt_term(t)} at line {nd['l']}")
            elif root[0] == 'param':
                bad.append(f"{fmt_term(t)} at line {nd['l']}")
        # the loop variable's own increment is privatised by OpenMP
        bad = [b for b in bad if not b.startswith('i ') and not b.startswith('(i')]
        obs.append(Ob('OMP-ORDER', f, omp[0], 'inside the region only chunk-private state, the reduction variable and results[i] (i = the loop variable) are written',
                      'all writes private' if not bad else '; '.join(bad[:3]), OK if not bad else VIOLATED, arm='private-writes'))
        # the bound of the parallel loop: `for (i = 0; i < B; ++i)`
        bound_t = None
        loop_name = None
        fors = [j for j in f.walk(omp[0]) if f.n(j)['c'] == 'ForStmt']
        if fors and len(f.n(fors[0])['ch']) == 4 and f.n(fors[0])['ch'][1]:
            ct_ = nocast(strip_cast(f.term(f.n(fors[0])['ch'][1], inline=False)))
            if ct_[0] == 'op' and len(ct_) == 4 and ct_[1] == '<' and nocast(ct_[2])[0] == 'local':
                bound_t, loop_name = nocast(ct_[3]), nocast(ct_[2])[1]
        # number of chunks = parallelism (C04: "a build split into c chunks uses at most c - 1 more [segments]", c = the number of
        # threads): proved when the bound is that variable, refuted by a witness when it evaluates to more
        if bound_t is not None:
            # a never re-assigned copy of the variable (`const size_t chunks = parallelism;`) is the variable
            bt_ = bound_t
            for _ in range(4):
                if bt_[0] == 'local' and bt_[1] != 'parallelism' and len(bt_) == 3 and f.single_def(bt_[2]):
                    bt_ = nocast(strip_cast(f.term(f.single_def(bt_[2]), inline=False)))
            if bt_[0] == 'local' and bt_[1] == 'parallelism':
                obs.append(Ob('CHUNK-COUNT', f, fors[0], 'the data is cut into exactly `parallelism` chunks (each chunk border may cost one segment)', 'the parallel loop runs i < parallelism', OK, arm='count'))
            else:
                wit = None
                try:
                    for n_, p_ in itertools.product((7, 10, 33, 64, 100003), (2, 3, 4, 16)):
                        env = {'n': n_, 'parallelism': p_, 'chunk_size': n_ // p_, '__fn__': f}
                        nb = _eval(bound_t, env)
                        if nb > p_:
                            wit = (n_, p_, nb)
                            break
                    st_c = VIOLATED if wit else UNDECIDED
                    why_c = (f"the parallel loop runs i < {fmt_term(bound_t)[:60]}: for n={wit[0]}, parallelism={wit[1]} that is {wit[2]} chunks - one more chunk border, and segment, than the bound allows" if wit
                             else f"the parallel loop runs i < {fmt_term(bound_t)[:60]}, which never exceeded parallelism on the witnesses but is not that variable")
                except Exception:
                    st_c, why_c = UNDECIDED, f"the parallel loop runs i < {fmt_term(bound_t)[:60]}, which this rule cannot evaluate"
                obs.append(Ob('CHUNK-COUNT', f, fors[0], 'the data is cut into exactly `parallelism` chunks (each chunk border may cost one segment)', why_c, st_c, arm='count'))
        else:
            obs.append(Ob('CHUNK-COUNT', f, omp[0], 'the data is cut into exactly `parallelism` chunks (each chunk border may cost one segment)', 'the bound of the parallel loop is not of the form i < B', UNDECIDED, arm='count'))
        # last chunk ends at n
        calls = [c for c in f.calls_to(MS) if c in body]
        okl = None
        whyl = 'no make_segmentation call inside the region'
        if calls:
            a = f.n(calls[0])['args']
            last_t = nocast(f.term(a[2], inline=False))
            grow_ok = True
            if last_t[0] == 'local' and f.single_def(last_t[2]):
                last_t = nocast(f.term(f.single_def(last_t[2]), inline=False))
            elif last_t[0] == 'local' and f.defs.get(last_t[2], {}).get('init'):
                # the end may afterwards only grow, one step at a time, while it is still below n (extension over a run of
                # duplicates): then "initially n" implies "finally n", and it never exceeds n
                d_ = f.defs[last_t[2]]
                lv = last_t
                for w in d_.get('writes', []):
                    wn = f.n(w)
                    if wn.get('op') not in ('++',):
                        if wn['c'] in ('BinaryOperator', 'CompoundAssignOperator', 'UnaryOperator', 'CXXOperatorCallExpr'):
                            grow_ok = False
                        continue
                    if not any(_implies(t if lab else ('un', '!', t), ('op', '<', lv, N)) for (t, lab, cn) in [(nocast(strip_cast(t_)), l_, c_) for (t_, l_, c_) in conds_of(f, w)]):
                        grow_ok = False
                last_t = nocast(f.term(d_['init'], inline=False))
            whyl = f"last = {fmt_term(last_t)[:100]}"
            # proof by normal form: a conditional that yields n exactly when i is the last chunk
            proved = False
            if last_t[0] == 'cond' and (last_t[2] == N or last_t[3] == N):
                ct = last_t[1] if last_t[2] == N else ('un', '!', last_t[1])
                P = None
                # the last iteration is i == B - 1 for the bound B of the parallel loop, whatever B is called
                for s in subterms(ct):
                    if s[0] == 'local' and (s == bound_t if bound_t is not None else s[1] == 'parallelism'):
                        P = s
                iv = [s for s in subterms(ct) if s[0] == 'local' and s != P and (loop_name is None or s[1] == loop_name)]
                if P is not None and iv:
                    try:
                        a1 = {frozenset(x.key() for x in g_) for g_ in form.cases(ct, True)}
                        a2 = {frozenset(x.key() for x in g_) for g_ in form.cases(('op', '==', iv[0], ('op', '-', P, ('lit', 1))), True)}
                        proved = a1 == a2
                    except form.Unrecognised:
                        proved = False
            if proved and not grow_ok:
                whyl += ' — but the end is modified afterwards by something other than a guarded `++` below n'
                okl = None
            elif proved:
                okl = True
                whyl += ' — equals n exactly for the last iteration of the parallel loop' + ('' if f.single_def(nocast(f.term(a[2], inline=False))[2]) else '; afterwards it only grows by guarded ++ while < n')
            else:
                # refutation by witness: evaluate the expression for concrete (n, parallelism) at the last iteration of the loop
                # (i = bound - 1, the bound of the parallel loop evaluated in the same environment; `parallelism` if it is that)
                witness = None
                try:
                    for n_, p_ in itertools.product((7, 10, 33, 100003), (2, 3, 4, 16)):
                        cs = n_ // p_
                        env = {'n': n_, 'parallelism': p_, 'chunk_size': cs, '__fn__': f}
                        nb = _eval(bound_t, env) if bound_t is not None else p_
                        i_ = nb - 1
                        env.update({loop_name or 'i': i_})
                        if 'first' not in env:
                            env['first'] = i_ * cs
                        v = _eval(last_t, env)
                        if v != n_:
                            witness = (n_, p_, v)
                            break
                    if witness:
                        okl = False
                        whyl += f" — for n={witness[0]}, parallelism={witness[1]} the last chunk ends at {witness[2]}, not n: the tail keys and the closing point are never segmented"
                except Exception:
                    okl = None
        obs.append(Ob('OMP-ORDER', f, calls[0] if calls else 0, 'the last chunk ends at n (so that every key and the closing point are segmented)', whyl,
                      OK if okl else (VIOLATED if okl is False else UNDECIDED), arm='last-chunk'))
    return obs


# ------------------------------------------------------------------------------------------ GEOM-GUARDS, REJECT-ONLY-GEOMETRIC
def _slope_cmp(fn, t):
    """normalised (lhs, rel, rhs) for a comparison of Slope values (operator< / operator> of Slope), looking through
    negation; rel in {'<','<=','>','>='}"""
    neg = False
    t = strip_cast(t)
    while t[0] == 'un' and t[1] == '!':
        neg = not neg
        t = strip_cast(t[2])
    if t[0] == 'op' and t[1] in ('<', '>', '<=', '>=') and len(t) == 4:
        rel = t[1]
        if neg:
            rel = {'<': '>=', '>': '<=', '<=': '>', '>=': '<'}[rel]
        return (t[2], rel, t[3])
    return None


def _inline_slopes(fn, t):
    """replace single-definition locals whose initialiser is a difference of rectangle corners (slope1, slope2) or a boolean
    built from Slope comparisons (outside_line1/2) by that initialiser; points p1/p2 stay symbolic"""
    if isinstance(t, tuple):
        if t and t[0] == 'local' and len(t) == 3:
            init = fn.single_def(t[2])
            if init:
                it = nocast(fn.term(init, inline=False))
                if it[0] == 'op' and (it[1] in ('<', '>', '<=', '>=', '||', '&&') or (it[1] == '-' and any(s[0] == 'field' and s[1] == 'rectangle' for s in subterms(it)))):
                    return _inline_slopes(fn, it)
                if it[0] == 'un' and it[1] == '!':
                    return _inline_slopes(fn, it)
            return t
        return tuple(_inline_slopes(fn, x) for x in t)
    return t


def _flip(c):
    a, rel, b = c
    return (b, {'<': '>', '>': '<', '<=': '>=', '>=': '<='}[rel], a)


def _pt(name):
    return ('local', name)


def _formula(fn, t, norm):
    """boolean formula over order atoms: ('atom', (lhs, rhs), rel) | ('!', f) | ('&&', f, g) | ('||', f, g) | ('const', b) | ('other', term)"""
    t = strip_cast(t)
    if t[0] == 'un' and t[1] == '!':
        return ('!', _formula(fn, t[2], norm))
    if t[0] == 'op' and len(t) == 4 and t[1] in ('&&', '||'):
        return (t[1], _formula(fn, t[2], norm), _formula(fn, t[3], norm))
    if t[0] == 'op' and len(t) == 4 and t[1] in ('<', '>', '<=', '>=', '==', '!='):
        a, b, rel = norm(t[2]), norm(t[3]), t[1]
        cr = _cross_atom(a, rel, b)
        if cr is not None:
            return cr
        if repr(a) > repr(b):
            a, b = b, a
            rel = {'<': '>', '>': '<', '<=': '>=', '>=': '<=', '==': '==', '!=': '!='}[rel]
        return ('atom', (a, b), rel)
    if t[0] == 'lit':
        return ('const', bool(t[1]))
    return ('other', t)


_SWAP = {'<': '>', '>': '<', '<=': '>=', '>=': '<=', '==': '==', '!=': '!='}


def _cross_atom(a, rel, b):
    """Comparisons of two slopes that share a point and the sign of cross() are the same fact; one canonical atom for both:
      cross(O, A, B) rel 0  <=>  slope(B - A) rel slope(A - O)  <=>  slope(B - O) rel slope(A - O)
    (cross(O, A, B) = (A-O) x (B-O) = (A-O) x (B-A), and Slope::operator< compares by cross-multiplication)."""
    def is_zero(x):
        x = nocast(x)
        return x[0] == 'lit' and x[1] == 0

    def cross_args(x):
        x = nocast(x)
        if x[0] == 'call' and str(x[1]).endswith('::cross') and len(x[2]) == 3:
            return tuple(nocast(y) for y in x[2])
        return None

    def diff(x):
        x = nocast(x)
        if x[0] == 'op' and len(x) == 4 and x[1] == '-':
            return nocast(x[2]), nocast(x[3])
        return None
    ca, cb = cross_args(a), cross_args(b)
    if ca and is_zero(b):
        return ('atom', (('cross',) + ca, ('lit', 0)), rel)
    if cb and is_zero(a):
        return ('atom', (('cross',) + cb, ('lit', 0)), _SWAP[rel])
    da, db = diff(a), diff(b)
    if da and db:
        (P, Q), (R, S) = da, db
        if Q == R:          # (P - Q) rel (Q - S): O = S, A = Q, B = P
            return ('atom', (('cross', S, Q, P), ('lit', 0)), rel)
        if S == P:          # (P - Q) rel (R - P): the mirrored form, O = Q, A = P, B = R
            return ('atom', (('cross', Q, P, R), ('lit', 0)), _SWAP[rel])
        if Q == S:          # (P - O) rel (R - O): O = Q, A = R, B = P
            return ('atom', (('cross', Q, R, P), ('lit', 0)), rel)
    return None


def _pairs(f, out=None):
    out = out if out is not None else []
    if f[0] == 'atom':
        if f[1] not in out:
            out.append(f[1])
    elif f[0] in ('!', '&&', '||'):
        for x in f[1:]:
            _pairs(x, out)
    return out


def _others(f, out=None):
    out = out if out is not None else []
    if f[0] == 'other':
        if f[1] not in out:
            out.append(f[1])
    elif f[0] in ('!', '&&', '||'):
        for x in f[1:]:
            _others(x, out)
    return out


def _ev(f, env, oenv):
    if f[0] == 'const':
        return f[1]
    if f[0] == 'other':
        return oenv[f[1]]
    if f[0] == 'atom':
        o = env[f[1]]
        return {'<': o == '<', '>': o == '>', '<=': o in '<=', '>=': o in '>=', '==': o == '=', '!=': o != '='}[f[2]]
    if f[0] == '!':
        return not _ev(f[1], env, oenv)
    if f[0] == '&&':
        return _ev(f[1], env, oenv) and _ev(f[2], env, oenv)
    return _ev(f[1], env, oenv) or _ev(f[2], env, oenv)


def order_equivalent(f1, f2, strict_only=False, implies=False):
    """decide f1 <=> f2 by enumerating, for every compared pair, the three possible orders (<, =, >).
    strict_only: ignore the orders in which some compared pair is equal (ties);  implies: decide f2 => f1 instead."""
    ps = _pairs(f1, _pairs(f2))
    os_ = _others(f1, _others(f2))
    for outcome in itertools.product('<>' if strict_only else '<=>', repeat=len(ps)):
        env = dict(zip(ps, outcome))
        for bools in itertools.product((False, True), repeat=len(os_)):
            oenv = dict(zip(os_, bools))
            a, b = _ev(f1, env, oenv), _ev(f2, env, oenv)
            if (b and not a) if implies else (a != b):
                return False, ', '.join(f"{fmt_term(p_[0])} {o} {fmt_term(p_[1])}" for p_, o in env.items())
    return True, ''


def rule_geom_guards(ctx, exact=True):
    """the geometric guards of add_point are, as boolean functions of the order of the compared slopes, exactly the strict
    tests of the algorithm: reject  <=>  (p1-r[2] < r[2]-r[0]) || (p2-r[3] > r[3]-r[1]);  tighten the upper bound  <=>
    p1-r[1] < r[3]-r[1];  tighten the lower bound  <=>  p2-r[0] > r[2]-r[0].  Decided by enumerating the three possible
    orders of every compared pair, so any equivalent spelling (negations, swapped operands, helper booleans) is accepted.
    exact=False is the part the epsilon guarantee (C03) needs: a point outside the rectangle is always rejected (rejecting
    more only shortens segments, so there the cut condition need only be implied by the specification); the tighten
    conditions stay exact - tightening on a tie while the cut is strict breaks the bound (seeded change C03-a)."""
    obs = []
    R = lambda k: ('index', ('field', 'rectangle', THIS), ('lit', k))

    def diff(a, b):
        return ('op', '-', a, b)

    def norm(t):
        if isinstance(t, tuple):
            if t and t[0] == 'local':
                return ('local', t[1])
            return tuple(norm(x) for x in t)
        return t
    P1, P2 = ('local', 'p1'), ('local', 'p2')
    slope1, slope2 = diff(R(2), R(0)), diff(R(3), R(1))
    ident = lambda x: x
    spec_cut = _formula(None, ('op', '||', ('op', '<', diff(P1, R(2)), slope1), ('op', '>', diff(P2, R(3)), slope2)), ident)
    spec_up = _formula(None, ('op', '<', diff(P1, R(1)), slope2), ident)
    spec_lo = _formula(None, ('op', '>', diff(P2, R(0)), slope1), ident)
    for f in ctx.need(OPLM + '::add_point', ctx.units):
        g = graph(f)

        def path_formula(node, skip_pred):
            """conjunction of the branch conditions (with their labels) the node is control dependent on, except those
            selected by skip_pred (bootstrap / ordering checks / the cut test for the tighten blocks)"""
            parts = []
            for (t, lab, cn, cb) in conds_of_b(f, node, inline=False):
                tt = norm(_inline_slopes(f, nocast(strip_cast(t))))
                fm = _formula(f, tt, ident)
                # clang splits && / || over several blocks: keep only the whole conditions (blocks terminated by the `if`)
                if g.blocks[cb].get('term_c') != 'IfStmt':
                    continue
                if skip_pred(fm, tt, cb):
                    continue
                parts.append(fm if lab else ('!', fm))
            if not parts:
                return ('const', True)
            out = parts[0]
            for p_ in parts[1:]:
                out = ('&&', out, p_)
            return out

        def is_bootstrap(fm, tt, cb=None):
            return any(s == ('field', 'points_in_hull', THIS) or s == ('field', 'last_x', THIS) for s in subterms(tt))
        # --- cut
        rets = [r for r in f.returns() if reachable(f, r) and f.n(r)['ch'] and f.term(f.n(r)['ch'][0], inline=True) == ('lit', 0)]
        if not rets:
            obs.append(Ob('GEOM-GUARDS', f, 0, 'a rejecting return', 'add_point never returns false', VIOLATED, arm='cut'))
        for r in rets:
            fm = path_formula(r, is_bootstrap)
            extra = _others(fm)
            ok, wit = order_equivalent(fm, spec_cut, implies=not exact)
            obs.append(Ob('GEOM-GUARDS', f, r, 'reject <=> (p1 - r[2] < r[2] - r[0]) || (p2 - r[3] > r[3] - r[1]), strict in both tests' if exact else
                          'reject <= (p1 - r[2] < r[2] - r[0]) || (p2 - r[3] > r[3] - r[1]): a point outside the extreme-slope rectangle is never accepted',
                          ('the condition of `return false` is equivalent to it for every order of the compared slopes' if exact else 'the condition of `return false` is implied by it for every order of the compared slopes') if ok else
                          (f"differs when {wit}" if not extra else f"also depends on `{fmt_term(extra[0])[:60]}`"), OK if ok else VIOLATED, arm='cut'))
            obs.append(Ob('REJECT-ONLY-GEOMETRIC', f, r, 'add_point returns false only because the new point lies strictly outside the extreme-slope rectangle (never because of a counter or size)',
                          'depends only on the two cut comparisons' if not extra else 'also depends on ' + '; '.join(fmt_term(x)[:60] for x in extra), OK if not extra else VIOLATED, arm='reject'))
        # --- tighten: the blocks that re-anchor rectangle[1]/[3] (upper) and rectangle[0]/[2] (lower)
        for name, corner, spec in (('tighten-upper', 1, spec_up), ('tighten-lower', 0, spec_lo)):
            asg = []
            for i in f.all_ids():
                nd = f.n(i)
                if nd['c'] == 'CXXOperatorCallExpr' and nd.get('op') == '=' and reachable(f, i):
                    lhs = nocast(f.term(nd['args'][0], inline=False))
                    if lhs == R(corner) and _in_general_case(f, i):
                        asg.append(i)
            if not asg:
                obs.append(Ob('GEOM-GUARDS', f, 0, f"{name}: a block that re-anchors rectangle[{corner}]", 'not found', VIOLATED, arm=name))
                continue
            # the conditions the rejecting return hangs on are the cut test, whatever they say (their correctness is the `cut` arm's
            # obligation; a slip there is reported once, not again as a consequence in the tighten arms)
            cut_blocks = set()
            for r in rets:
                for (t_, lab_, cn_, cb_) in conds_of_b(f, r, inline=False):
                    if g.blocks[cb_].get('term_c') == 'IfStmt' and not is_bootstrap(None, nocast(strip_cast(t_))):
                        cut_blocks.add(cb_)
            for i in asg:
                cutf = spec_cut

                def skip(fm, tt, cb=None, cutf=cutf):
                    if is_bootstrap(fm, tt):
                        return True
                    if cb in cut_blocks:
                        return True
                    ok_, _ = order_equivalent(fm, cutf, implies=not exact)
                    return ok_
                fm = path_formula(i, skip)
                ok, wit = order_equivalent(fm, spec)
                obs.append(Ob('GEOM-GUARDS', f, i, f"{name}: rectangle[{corner}] is re-anchored <=> " + ('p1 - r[1] < r[3] - r[1]' if corner == 1 else 'p2 - r[0] > r[2] - r[0]') + ' (strict)',
                              'equivalent for every order of the compared slopes' if ok else f"differs when {wit}", OK if ok else VIOLATED, arm=name))
    return obs


def _in_general_case(fn, node):
    """not one of the bootstrap assignments (points_in_hull == 0 / == 1 branches)"""
    for (t, lab, cn) in conds_of(fn, node, inline=False):
        tt = nocast(strip_cast(t))
        if lab is True and tt[0] == 'op' and tt[1] == '==' and ('field', 'points_in_hull', THIS) in (tt[2], tt[3]):
            return False
    return True


# ------------------------------------------------------------------------------------------ KEY-ARITH
def rule_key_arith(ctx):
    """keys may span the whole range of K: a difference or sum of two keys must not be evaluated in a signed type of the
    same width (overflow).  Checked in the segmentation drivers, where keys are obtained through `in(i)`."""
    obs = []
    for f in six(ctx) + [g for g in ctx.need(MSP, ctx.units)]:
        u = f.unit
        pname = f.params[4]['name'] if len(f.params) == 6 else f.params[2]['name']
        kt = None
        n_ops = 0
        # the driver and its local closures (a piece of the driver hoisted into a helper closure is still the driver); locals
        # that hold a key (`const K x = in(i)`) are looked through
        for fn_ in [f] + [l for l in f.unit.functions.values() if l.d.get('parent_fn') == f.id and l.name == 'operator()']:
            for i in fn_.all_ids():
                nd = fn_.n(i)
                if nd['c'] == 'BinaryOperator' and nd['op'] in ('-', '+') and reachable(fn_, i):
                    a, b = fn_.term(nd['ch'][0], inline=True), fn_.term(nd['ch'][1], inline=True)
                    if nd['op'] == '+' and (u.type(nd['t']) or {}).get('k') == 'float':
                        # a floating key plus one is not the next key: for a gap of at most 1 the guard `x + 1 < next` drops the
                        # successor point, and above 2^24 / 2^53 x + 1 == x; the successor is nextafter(x, +inf)
                        for ka, kb in ((a, b), (b, a)):
                            kb_ = strip_cast(kb)
                            if any(is_in_call(s, pname) for s in subterms(ka)) and not any(is_in_call(s, pname) for s in subterms(kb)) and \
                                    (kb_ == ('lit', 1) or (kb_[0] == 'flit' and str(kb_[1]) in ('1', '1.0'))):
                                obs.append(Ob('KEY-ARITH', fn_, i, 'the successor of a floating-point key is std::nextafter(key, +infinity), never key + 1',
                                              f"`{fmt_term(fn_.term(i, inline=False))[:80]}` evaluated in {u.type(nd['t'])['s']}", VIOLATED, arm='float-successor'))
                    if any(is_in_call(s, pname) for s in subterms(a)) and any(is_in_call(s, pname) for s in subterms(b)):
                        n_ops += 1
                        rt = u.type(nd['t'])
                        at = u.base_type(fn_.n(fn_.strip(nd['ch'][0], casts=True))['t'])
                        ok = rt.get('k') == 'float' or (rt.get('k') == 'int' and (not rt.get('signed') or rt.get('bits', 0) > (at or {}).get('bits', 0)))
                        obs.append(Ob('KEY-ARITH', fn_, i, 'a difference/sum of two keys is evaluated in an unsigned, floating or wider type (keys may span the whole range of the key type)',
                                      f"`{fmt_term(fn_.term(i, inline=False))[:80]}` evaluated in {rt['s']}", OK if ok else VIOLATED, arm='key-key'))
        obs.append(Ob('KEY-ARITH', f, 0, 'no overflowing key arithmetic in the segmentation driver', f"{n_ops} key-key additions/subtractions", OK, arm='scan'))
    return obs


def rule_precision(ctx):
    """the canonical-segment geometry (intersection point, slope range, floating-point segment) is evaluated in long double:
    no arithmetic result or cast of a narrower floating type occurs in those functions (a double has 53 bits: absolute 64-bit
    keys lose their low bits, which shifts every intercept derived from the intersection point)"""
    obs = []
    CS = OPLM + '::CanonicalSegment::'
    for tn in (CS + 'get_intersection', CS + 'get_floating_point_segment', CS + 'get_slope_range', OPLM + '::Slope::operator long double'):
        for f in ctx.need(tn, ctx.units):
            u = f.unit
            bad = []
            n = 0
            for i in f.all_ids():
                nd = f.n(i)
                if not reachable(f, i):
                    continue
                t = u.type(nd.get('t', 0)) if nd.get('t') else None
                if not t or t.get('k') != 'float':
                    continue
                if nd['c'] in ('BinaryOperator', 'CompoundAssignOperator') or nd['c'] in ('CStyleCastExpr', 'CXXStaticCastExpr', 'CXXFunctionalCastExpr'):
                    n += 1
                    if t['s'] != 'long double':
                        bad.append(f"`{fmt_term(f.term(i, inline=False))[:60]}` has type {t['s']} (line {nd['l']})")
            obs.append(Ob('PRECISION', f, 0, 'all floating arithmetic and casts of the segment geometry are long double',
                          f"{n} floating operations, all long double" if not bad else bad[0], OK if not bad else VIOLATED, arm=f.name))
    # signed shift used as a division: `x >> 1` rounds toward minus infinity where `x / 2` truncates toward zero; for a possibly
    # negative operand (here: a rounding term multiplied by +-1) the intercept is off by up to one position
    for tn in (CS + 'get_intersection', CS + 'get_floating_point_segment', CS + 'get_slope_range'):
        for f in ctx.fns(tn, ctx.units):
            for i in f.all_ids():
                nd = f.n(i)
                if nd['c'] == 'BinaryOperator' and nd['op'] == '>>' and reachable(f, i):
                    lt = f.unit.type(f.n(nd['ch'][0]).get('t', 0)) or {}
                    if lt.get('k') == 'int' and lt.get('signed'):
                        t = f.term(nd['ch'][0], inline=True)
                        neg = any((x[0] == 'un' and x[1] == '-') or (x[0] == 'op' and len(x) == 4 and x[1] == '-') or (x[0] == 'lit' and isinstance(x[1], int) and x[1] < 0) for x in subterms(t))
                        obs.append(Ob('PRECISION', f, i, 'signed quantities of the segment geometry are divided, not shifted (a right shift of a negative value rounds toward minus infinity)',
                                      f"`{fmt_term(f.term(i, inline=False))[:80]}`: right shift of a signed operand" + (' that is negative by construction' if neg else ''),
                                      VIOLATED if neg else UNDECIDED, arm='signed-shift'))
    # relative abscissa: a long double holds a 64-bit key exactly but has no bit left for the fraction of an abscissa next to
    # it, so `(i_x - first_x) * slope` computed from an absolute i_x is off by up to slope / 2 positions.  Every user of the
    # intersection point must ask for it relative to an origin (the segment's first key).
    n_calls = 0
    for u in ctx.units:
        for f in u.functions.values():
            if not f.tname.startswith('pgm::'):
                continue
            for c in f.calls_to(CS + 'get_intersection'):
                if not reachable(f, c):
                    continue
                n_calls += 1
                args = [a for a in f.n(c).get('args', [])]
                explicit = [a for a in args if f.n(a)['c'] != 'CXXDefaultArgExpr']
                ok = len(explicit) >= 1
                obs.append(Ob('PRECISION', f, c, 'the intersection point is requested relative to an origin (its abscissa keeps a fractional part even next to a 64-bit key)',
                              ('origin `' + fmt_term(f.term(explicit[0], inline=False))[:50] + '`') if ok else 'the absolute intersection is used: next to keys >= 2^63 the abscissa is an integer and the intercept is off by up to slope / 2',
                              OK if ok else VIOLATED, arm='relative-abscissa'))
    if n_calls == 0:
        raise AnalysisBroken('PRECISION: no call of CanonicalSegment::get_intersection found (anchor vanished)')
    return obs


# ------------------------------------------------------------------------------------------ INDEX-COVER
class _Unknown(Exception):
    pass


def _cover_eval(t, env, D, G=None, f=None):
    """evaluate a guard of make_segmentation under a valuation of {n, start, end, loop variable} (integers), of the predicates
    D[k] = `in(k) == in(k-1)` and G[k] = `succ(in(k)) < in(k+1)`; anything else is unknown"""
    t = strip_cast(t)
    if f is not None:
        t = strip_cast(_resolve_succ_locals(f, t))
    k = t[0]
    if k == 'lit' and isinstance(t[1], int):
        return t[1]
    if k in ('param', 'local'):
        if t[1] in env:
            return env[t[1]]
        raise _Unknown(fmt_term(t))
    if k == 'un' and t[1] == '!':
        return not _cover_eval(t[2], env, D, G, f)
    if k == 'op' and len(t) == 4:
        o = t[1]
        if o in ('&&', '||'):
            a = _cover_eval(t[2], env, D, G, f)
            if o == '&&' and a is False:
                return False
            if o == '||' and a is True:
                return True
            return _cover_eval(t[3], env, D, G, f)
        if o in ('==', '!=') and is_in_call(t[2]) and is_in_call(t[3]):
            a, b = _cover_eval(in_arg(t[2]), env, D, G, f), _cover_eval(in_arg(t[3]), env, D, G, f)
            if a == b:
                return o == '=='
            if abs(a - b) == 1 and max(a, b) in D:
                return D[max(a, b)] == (o == '==')
            raise _Unknown(fmt_term(t))
        if G is not None and o in ('<', '>', '<=', '>='):
            # the gap predicate: succ(in(e)) < in(e + 1), in either orientation, also spelled through an assignment (next = succ) < ...
            l, r = strip_cast(t[2]), strip_cast(t[3])
            if o in ('>', '>='):
                l, r, o2 = r, l, {'>': '<', '>=': '<='}[o]
            else:
                o2 = o
            # now  l o2 r  with o2 in {<, <=}.  succ < next is G; next <= succ is its negation; the two mixed forms
            # (succ <= next, next < succ) are not functions of G alone
            neg = False
            if succ_of(l) is None and succ_of(r) is not None and is_in_call(l):
                l, r, neg = r, l, True
                o2 = {'<=': '<', '<': '<='}[o2]      # next <= succ  ==  !(succ < next);  next < succ == !(succ <= next)
            e = succ_of(l)
            if e is not None and is_in_call(r):
                a, b = _cover_eval(nocast(e), env, D, G, f), _cover_eval(in_arg(r), env, D, G, f)
                if b == a + 1 and o2 == '<':
                    if a in G:
                        return G[a] != neg
                    raise _Unknown('gap predicate at rank %d' % a)
                raise _Unknown(fmt_term(t))
        a, b = _cover_eval(t[2], env, D, G, f), _cover_eval(t[3], env, D, G, f)
        if isinstance(a, bool) or isinstance(b, bool):
            raise _Unknown(fmt_term(t))
        if o == '+':
            return a + b
        if o == '-':
            return a - b
        return {'<': a < b, '<=': a <= b, '>': a > b, '>=': a >= b, '==': a == b, '!=': a != b}[o]
    raise _Unknown(fmt_term(t))


def rule_index_cover(ctx):
    obs = []
    for f in six(ctx):
        obs += [o for o in _seg_model(f) if o.rule == 'INDEX-COVER']
    return obs


_MODEL_CACHE = {}


def _fn_fingerprint(f):
    """identity of a function body across units (the driver has no template arguments of its own: every unit holds the same
    instantiation-independent copy, and the model check need only run once): the tree of node classes, operators, names,
    callee names and literal values, without the per-unit declaration and type numbers"""
    import hashlib
    h = hashlib.sha1()
    keys = ('c', 'op', 'n', 'v', 'ck', 'cn', 'ct', 'postfix', 'dk', 'l', 'ct_inlined')
    st = [f.body]
    while st:
        i = st.pop()
        if not i:
            h.update(b'0')
            continue
        nd = f.n(i)
        h.update(repr([(k, nd.get(k)) for k in keys if k in nd]).encode())
        h.update(str(len(nd['ch'])).encode())
        st.extend(reversed(nd['ch']))
    h.update(repr([(b_['id'], len(b_['elems']), b_['succs']) for b_ in f.cfg['blocks']]).encode())
    h.update(repr(sorted(f.targs.items())).encode())
    return h.hexdigest()


def _retarget(obs, f):
    out = []
    for o in obs:
        out.append(Ob(o.rule, f, o.node, o.required, o.found, o.status, arm=o.arm, detail=o.detail))
    return out


def _resolve_index_locals(f, t, depth=0):
    """`const size_t last = end - 1;`: a single-definition local whose initialiser is pure index arithmetic (no call, no
    dereference) is replaced by it, so that the model can evaluate guards written with it"""
    if isinstance(t, tuple):
        if t and t[0] == 'local' and len(t) == 3 and depth < 6:
            init = f.single_def(t[2])
            if init:
                it = nocast(strip_cast(f.term(init, inline=False)))
                if not any(isinstance(x, tuple) and x and x[0] in ('call', 'deref', 'index', 'field', 'construct', 'phi', 'lambda') for x in subterms(it)):
                    return _resolve_index_locals(f, it, depth + 1)
            return t
        return tuple(_resolve_index_locals(f, x, depth) for x in t)
    return t


def _pre(f, t):
    return nocast(strip_cast(_resolve_index_locals(f, _resolve_succ_locals(f, _resolve_key_locals(f, t)))))


def _seg_model(f):
    """make_segmentation(n, start, end, ...) decided on an abstract model of its driver.

    The feed sites (calls of the feeding closure, with helper closures inlined), their path conditions (the `if`/loop
    conditions they are control dependent on) and the loops with their bounds and `break`s are read off the CFG.  The model
    has the integers {n, start, end, loop variable} and, per rank k, the predicates D[k] = `in(k) == in(k-1)` and
    G[k] = `succ(in(k)) < in(k+1)`.  All guards are difference constraints with constants <= 2, so chunk lengths 1..6 (every
    position relative to both ends) at two offsets, followed or not by more data, with every duplicate pattern, are
    exhaustive.  Obligations:
      INDEX-COVER  every rank k of [start, end) with k == start or !D[k] reaches a site add_point(in(k), k);
      SEAM/end-gap every rank k of (start, end) that ends a run of duplicates (D[k], and k is the last of the chunk or !D[k+1])
                   with k + 1 < n and G[k] reaches a site add_point(succ(in(k)), k) - in particular k = end - 1 when end < n,
                   where the next chunk starts after the run and cannot add it."""
    cached = getattr(f, '_seg_model_obs', None)
    if cached is not None:
        return cached
    fp = ('seg', _fn_fingerprint(f))
    if fp in _MODEL_CACHE:
        f._seg_model_obs = _retarget(_MODEL_CACHE[fp], f)
        return f._seg_model_obs
    obs = []
    f._seg_model_obs = obs
    _MODEL_CACHE[fp] = obs
    fd_ = feeder_of(f)
    if fd_ is None:
        return obs
    lid = fd_.id
    g = graph(f)
    Nn, Sn, En = f.params[0]['name'], f.params[1]['name'], f.params[2]['name']
    N = ('param', Nn)
    sites = []
    other_sites = []
    undecided = None
    for c in [c for c in f.calls() if f.n(c).get('cd') == lid and reachable(f, c)]:
        a = f.n(c)['args']
        x = strip_cast(_resolve_index_locals(f, _resolve_succ_locals(f, _resolve_key_locals(f, f.term(a[1], inline=False)))))
        if x[0] == 'local':
            d = f.defs.get(x[2], {})
            ws = [w for w in d.get('writes', []) if f.n(w).get('op') == '=']
            if len(ws) == 1 and not d.get('init'):
                x = strip_cast(_resolve_index_locals(f, _resolve_key_locals(f, f.term(f.n(ws[0])['ch'][1], inline=False))))      # K next; if ((next = succ) < ...)
        yt = _pre(f, f.term(a[2], inline=False))
        if is_in_call(x) and in_arg(x) == yt:
            kind = 'plain'
        elif succ_of(x) is not None and nocast(succ_of(x)) == yt:
            kind = 'gap'
        else:
            if succ_of(x) is not None and yt != N:
                other_sites.append(c)       # a successor point at an index other than its own key's: run-based drivers
            continue        # the closing point and anything else: RANK-AGREE, CLOSING
        conds = []
        loopvar = None
        for (t, lab, cn, cb) in conds_iter(f, c):
            tc = g.blocks[cb].get('term_c')
            if tc in ('ForStmt', 'WhileStmt'):
                loop = _loop_info(f, g, cb)
                if loop is None:
                    undecided = f"loop at line {f.n(cn)['l']}: not a `for (i = a; cond; ++i)` whose only other exits are `break`s under evaluable conditions"
                else:
                    loopvar = (loop[0], _pre(f, loop[1]), _pre(f, t), [[(_pre(f, t2), l2) for (t2, l2) in bc] for bc in loop[3]])
                conds.append((_pre(f, t), lab))
            elif tc == 'IfStmt':
                conds.append((_pre(f, t), lab))
            # the short-circuit blocks of && / || belong to a whole condition that is listed as well
        sites.append((c, kind, yt, conds, loopvar))
    req_c = 'every rank k of [start, end) with k == start or in(k) != in(k-1) reaches an add_point(in(k), k) site (for every chunk length, also 1 and 2)'
    req_g = 'a run of duplicates that ends at rank k with more data after it (k + 1 < n) and a gap before the next key reaches an add_point(succ(in(k)), k) site - also when k is the last rank of a chunk (the next chunk starts after the run and cannot add it)'
    if undecided:
        obs.append(Ob('INDEX-COVER', f, 0, 'every rank of [start, end) is fed or duplicates its predecessor', undecided, UNDECIDED, arm='cover'))
        obs.append(Ob('SEAM', f, 0, req_g, undecided, UNDECIDED, arm='end-gap'))
        return obs
    plain = [s_ for s_ in sites if s_[1] == 'plain']
    gaps = [s_ for s_ in sites if s_[1] == 'gap']
    if not plain:
        obs.append(Ob('INDEX-COVER', f, 0, 'every rank of [start, end) is fed or duplicates its predecessor', 'no add_point(in(e), e) site', VIOLATED, arm='cover'))

    def reached(site, k, env0, D, G):
        c, kind, yt, conds, loop = site
        env = dict(env0)
        if loop is not None:
            lv, init, lcond, breaks = loop
            lo = _cover_eval(init, env, D, G)
            if k < lo:
                return False
            # the loop reaches i = k only if its condition held, and no break was taken, for every earlier value
            for j in range(lo, k):
                ej = dict(env, **{lv: j})
                if not _cover_eval(lcond, ej, D, G):
                    return False
                for bc in breaks:
                    if all(_cover_eval(t, ej, D, G) == lab for (t, lab) in bc):
                        return False
            env[lv] = k
        if _cover_eval(yt, env, D, G) != k:
            return False
        return all(_cover_eval(t, env, D, G) == lab for (t, lab) in conds)

    bad_c = bad_g = None
    unknown = unknown_g = None
    n_models = 0
    for start in (0, 3):
        for ln in range(1, 7):
            end = start + ln
            for n in (end, end + 2):
                ks = list(range(start + 1, end))
                for bits in itertools.product((False, True), repeat=len(ks)):
                    D = dict(zip(ks, bits))
                    n_models += 1
                    env0 = {Nn: n, Sn: start, En: end}
                    dup = ', '.join(f"in({j}){'==' if D[j] else '!='}in({j - 1})" for j in ks)
                    for k in range(start, end):
                        if k == start or not D[k]:
                            if bad_c is None and plain:
                                try:
                                    if not any(reached(s_, k, env0, D, {}) for s_ in plain):
                                        bad_c = f"start={start}, end={end}, n={n}" + (f" ({dup})" if dup else '') + f": rank {k} is never fed to the builder"
                                except _Unknown as e:
                                    unknown = str(e)
                        if k > start and D[k] and k + 1 < n and (k + 1 >= end or not D[k + 1]) and bad_g is None:
                            try:
                                if not any(reached(s_, k, env0, D, {k: True}) for s_ in gaps):
                                    bad_g = (f"start={start}, end={end}, n={n}" + (f" ({dup})" if dup else '') + f": the run ending at rank {k} " +
                                             ('(the last of the chunk) ' if k == end - 1 else '') + 'never gets its successor point')
                            except _Unknown as e:
                                unknown_g = str(e)
    if plain:
        if bad_c and not unknown:
            obs.append(Ob('INDEX-COVER', f, plain[0][0], req_c, bad_c, VIOLATED, arm='cover'))
        elif unknown:
            obs.append(Ob('INDEX-COVER', f, plain[0][0], req_c, f"a guard outside the model: `{unknown[:70]}`", UNDECIDED, arm='cover'))
        else:
            obs.append(Ob('INDEX-COVER', f, plain[0][0], req_c, f"{len(plain)} sites cover every rank in {n_models} abstract models (lengths 1..6, all duplicate patterns)", OK, arm='cover'))
    if bad_g and not unknown_g and not (other_sites and not gaps):
        obs.append(Ob('SEAM', f, gaps[0][0] if gaps else 0, req_g, bad_g if gaps else 'no add_point(succ(in(e)), e) site', VIOLATED, arm='end-gap'))
    elif bad_g and other_sites and not gaps:
        obs.append(Ob('SEAM', f, other_sites[0], req_g, 'the successor points are fed at an index this model does not relate to the run (not add_point(succ(in(e)), e))', UNDECIDED, arm='end-gap'))
    elif unknown_g:
        obs.append(Ob('SEAM', f, gaps[0][0] if gaps else 0, req_g, f"a guard outside the model: `{unknown_g[:70]}`", UNDECIDED, arm='end-gap'))
    else:
        obs.append(Ob('SEAM', f, gaps[0][0], req_g, f"{len(gaps)} gap sites cover the end of every run in {n_models} abstract models, including runs that end with the chunk", OK, arm='end-gap'))
    return obs


def rule_in_range(ctx):
    """make_segmentation(n, start, end, ...) reads the input only inside [0, n): for every call in(E) of the driver, on every
    path that reaches it, 0 <= E < n.  Decided on the abstract model of _seg_model (all chunk lengths 1..6 at two offsets,
    followed or not by more data, every duplicate pattern).  The path condition of a read is made of the `if`/loop conditions it
    is control dependent on within the iteration and of the operands evaluated before it in its own condition (`a && in(e)`:
    a holds); a condition on key values that the model cannot evaluate is taken as satisfiable.  This is the clause the test
    suite cannot see: in(n) is one element past the caller's array, and the value read is discarded."""
    obs = []
    for f in six(ctx):
        fp = ('inrange', _fn_fingerprint(f))
        if fp in _MODEL_CACHE:
            obs += _retarget(_MODEL_CACHE[fp], f)
            continue
        n0 = len(obs)
        _MODEL_CACHE[fp] = None
        g = graph(f)
        Nn, Sn, En = f.params[0]['name'], f.params[1]['name'], f.params[2]['name']
        INP = f.params[4]['name']
        sites = []
        undecided = None
        for c in f.all_ids():
            nd = f.n(c)
            if nd['c'] not in ('CXXOperatorCallExpr', 'CallExpr') or not reachable(f, c):
                continue
            t = f.term(c, inline=False)
            if not is_in_call(t, INP):
                continue
            et = in_arg(t)
            conds = []
            loop = None
            for (ct, lab, cn, cb) in conds_iter(f, c):
                tc = g.blocks[cb].get('term_c')
                if tc in ('ForStmt', 'WhileStmt'):
                    li = _loop_info(f, g, cb)
                    if li is None:
                        undecided = f"loop at line {f.n(cn)['l']}: not a `for (i = a; cond; ++i)` whose only other exits are `break`s under evaluable conditions"
                    else:
                        loop = (li[0], _pre(f, li[1]), _pre(f, ct), [[(_pre(f, t2), l2) for (t2, l2) in bc] for bc in li[3]])
                    conds.append((_pre(f, ct), lab))
                elif tc == 'IfStmt':
                    conds.append((_pre(f, ct), lab))
            # operands of the enclosing && / || / ?: evaluated before this read
            x = c
            p_ = f.parent(x)
            while p_:
                pn = f.n(p_)
                if pn['c'] == 'BinaryOperator' and pn.get('op') in ('&&', '||') and len(pn['ch']) == 2 and x == pn['ch'][1]:
                    conds.append((_pre(f, f.term(pn['ch'][0], inline=False)), pn['op'] == '&&'))
                elif pn['c'] == 'ConditionalOperator' and len(pn['ch']) == 3 and x in pn['ch'][1:]:
                    conds.append((_pre(f, f.term(pn['ch'][0], inline=False)), x == pn['ch'][1]))
                elif pn['c'] in ('CompoundStmt', 'IfStmt', 'ForStmt', 'WhileStmt', 'DeclStmt', 'InlinedCall'):
                    if pn['c'] != 'DeclStmt':
                        break
                x = p_
                p_ = f.parent(x)
            sites.append((c, _pre(f, et), conds, loop))
        req = 'every read in(e) of the segmentation driver has 0 <= e < n on every path that reaches it'
        if undecided:
            obs.append(Ob('IN-RANGE', f, 0, req, undecided, UNDECIDED, arm='driver'))
            _MODEL_CACHE[fp] = obs[n0:]
            continue
        if len(sites) < 3:
            obs.append(Ob('IN-RANGE', f, 0, req, f"only {len(sites)} reads of the input found", UNDECIDED, arm='driver'))
            _MODEL_CACHE[fp] = obs[n0:]
            continue

        def holds(t, lab, env, D):
            """truth of one path condition; True when the model cannot evaluate it (a condition on key values)"""
            try:
                return _cover_eval(t, env, D, None) == lab
            except _Unknown:
                return True

        bad = None
        n_models = 0
        for start in (0, 3):
            for ln in range(1, 7):
                end = start + ln
                for n in (end, end + 2):
                    ks = list(range(start + 1, end))
                    for bits in itertools.product((False, True), repeat=len(ks)):
                        D = dict(zip(ks, bits))
                        n_models += 1
                        env0 = {Nn: n, Sn: start, En: end}
                        for (c, et, conds, loop) in sites:
                            if bad:
                                break
                            envs = []
                            if loop is None:
                                envs = [env0]
                            else:
                                lv, init, lcond, breaks = loop
                                try:
                                    j = _cover_eval(init, env0, D, None)
                                except _Unknown:
                                    continue
                                guard = 0
                                while guard < 12:
                                    guard += 1
                                    ej = dict(env0, **{lv: j})
                                    if not holds(lcond, True, ej, D):
                                        break
                                    envs.append(ej)
                                    if any(all(holds(t, lab, ej, D) for (t, lab) in bc) and not any(_is_unknown(t, ej, D, None) for (t, lab) in bc) for bc in breaks):
                                        break
                                    j += 1
                            for env in envs:
                                if not all(holds(t, lab, env, D) for (t, lab) in conds):
                                    continue
                                try:
                                    e = _cover_eval(et, env, D, None)
                                except _Unknown:
                                    continue
                                if not (0 <= e < n):
                                    dup = ', '.join(f"in({q}){'==' if D[q] else '!='}in({q - 1})" for q in ks)
                                    bad = (c, f"start={start}, end={end}, n={n}" + (f" ({dup})" if dup else '') + f": `in({fmt_term(et)})` at line {f.n(c)['l']} reads index {e}" +
                                           (', one element past the input' if e == n else ''))
                                    break
        if bad:
            obs.append(Ob('IN-RANGE', f, bad[0], req, bad[1], VIOLATED, arm='driver'))
        else:
            obs.append(Ob('IN-RANGE', f, sites[0][0], req, f"{len(sites)} reads stay inside [0, n) in {n_models} abstract models", OK, arm='driver'))
        _MODEL_CACHE[fp] = obs[n0:]
    for k_ in [k_ for k_, v_ in _MODEL_CACHE.items() if v_ is None]:
        del _MODEL_CACHE[k_]
    return obs


def _is_unknown(t, env, D, f):
    try:
        _cover_eval(t, env, D, None, f)
        return False
    except _Unknown:
        return True


def _loop_info(f, g, cb):
    """(loop variable name, init term, cond node, breaks) of the for statement whose condition block is cb, or None.
    breaks: for every `break` in the body the list of (condition term, label) it is control dependent on (inside the loop)"""
    for i in f.all_ids():
        nd = f.n(i)
        if nd['c'] != 'ForStmt':
            continue
        if len(nd['ch']) != 4:       # for (init; cond; inc) body  - absent parts are not exported
            continue
        init, cond, inc, body = nd['ch']
        if f.strip(cond) != f.strip(g.cond(cb)):
            continue
        ini = f.n(init)
        if ini['c'] != 'DeclStmt' or len(ini.get('vars', [])) != 1:
            return None
        v = ini['vars'][0]
        d = f.defs.get(v['id'])
        if not d or not d.get('init'):
            return None
        inc_t = strip_cast(f.term(inc, inline=False))
        if not (inc_t[0] == 'un' and inc_t[1] in ('++', 'post++') and strip_cast(inc_t[2])[0] == 'local' and strip_cast(inc_t[2])[2] == v['id']):
            return None
        if any(w != f.strip(inc) and w not in set(f.walk(inc)) for w in d['writes']):
            return None
        breaks = []
        for j in f.walk(body):
            cj = f.n(j)['c']
            if cj in ('ReturnStmt', 'GotoStmt'):
                return None
            if cj == 'BreakStmt':
                # a break of this loop (not of a nested loop or switch)
                p_ = f.parent(j)
                nested = False
                while p_ and p_ != i:
                    if f.n(p_)['c'] in ('ForStmt', 'WhileStmt', 'DoStmt', 'SwitchStmt', 'CXXForRangeStmt'):
                        nested = True
                    p_ = f.parent(p_)
                if nested:
                    return None
                bc = []
                # a break is the terminator of its block, not an element: its control dependences are those of that block
                tb_ = [b_['id'] for b_ in f.cfg['blocks'] if b_.get('term') == j]
                if not tb_:
                    return None
                deps = conds_iter(f, block=tb_[0])
                for (t, lab, cn, b2) in deps:
                    tc = g.blocks[b2].get('term_c')
                    if tc == 'IfStmt':
                        bc.append((nocast(t), lab))
                    elif tc in ('ForStmt', 'WhileStmt') and f.strip(cn) != f.strip(cond):
                        return None
                if not bc:
                    return None
                breaks.append(bc)
        return (v['name'], nocast(f.term(d['init'], inline=False)), cond, breaks)
    return None


# ------------------------------------------------------------------------------------------ SLOPE-ORDER
def rule_slope_order(ctx, exact=True):
    """The geometric guards compare Slope values with Slope::operator< / > / == / !=.  GEOM-GUARDS treats those as the
    order of the slopes; this rule discharges that reading: each operator, with calls to its sibling operators expanded, is
    - as a boolean function of the order of the cross products dy * p.dx and dx * p.dy - exactly its own relation."""
    obs = []
    SL = OPLM + '::Slope::operator'
    RELS = ('<', '>', '==', '!=', '<=', '>=')
    THISV, PV = ('deref', THIS), None

    def factors(t):
        t = nocast(strip_cast(t))
        if t[0] == 'op' and len(t) == 4 and t[1] == '*':
            return factors(t[2]) + factors(t[3])
        return [t]

    for u in ctx.units:
        recs = {}
        for f in u.functions.values():
            if f.tname.startswith(SL) and f.tname[len(SL):] in RELS and len(f.params) == 1:
                recs.setdefault(f.qname.rsplit('::', 1)[0], {})[f.tname[len(SL):]] = f
        for rec, ops in sorted(recs.items()):
            def formula(rel, swap, depth):
                """('atom', rel') over the pair (L, R) = (dy * p.dx, dx * p.dy), boolean connectives, or None"""
                f = ops.get(rel)
                if f is None or depth > 4:
                    return None
                rets = f.returns()
                if len(rets) != 1:
                    return None
                P = ('param', f.params[0]['name'])
                L = sorted(map(repr, [('field', 'dy', THIS), ('field', 'dx', P)]))
                Rr = sorted(map(repr, [('field', 'dx', THIS), ('field', 'dy', P)]))

                def go(t, sw):
                    t = strip_cast(t)
                    if t[0] == 'un' and t[1] == '!':
                        x = go(t[2], sw)
                        return ('!', x) if x else None
                    if t[0] == 'op' and len(t) == 4 and t[1] in ('&&', '||'):
                        a, b = go(t[2], sw), go(t[3], sw)
                        return (t[1], a, b) if a and b else None
                    if t[0] == 'op' and len(t) == 4 and t[1] in RELS:
                        a, b = nocast(strip_cast(t[2])), nocast(strip_cast(t[3]))
                        if {repr(a), repr(b)} == {repr(('deref', THIS)), repr(P)}:
                            # a sibling operator applied to the same two slopes (possibly swapped)
                            return formula_cached(t[1], sw != (a == P), depth + 1)
                        fa, fb = sorted(map(repr, factors(a))), sorted(map(repr, factors(b)))
                        r_ = t[1]
                        if (fa, fb) == (Rr, L):
                            fa, fb = fb, fa
                            r_ = {'<': '>', '>': '<', '<=': '>=', '>=': '<='}.get(r_, r_)
                        if (fa, fb) == (L, Rr):
                            if sw:
                                r_ = {'<': '>', '>': '<', '<=': '>=', '>=': '<='}.get(r_, r_)
                            return ('atom', r_)
                    return None
                return go(f.term(f.n(rets[0])['ch'][0], inline=True), swap)

            memo = {}

            def formula_cached(rel, swap, depth):
                k = (rel, swap)
                if k not in memo:
                    memo[k] = None  # a cycle between operators stays undecided
                    memo[k] = formula(rel, swap, depth)
                return memo[k]

            def ev(fm, o):
                if fm[0] == 'atom':
                    return {'<': o == '<', '>': o == '>', '<=': o in '<=', '>=': o in '>=', '==': o == '=', '!=': o != '='}[fm[1]]
                if fm[0] == '!':
                    return not ev(fm[1], o)
                if fm[0] == '&&':
                    return ev(fm[1], o) and ev(fm[2], o)
                return ev(fm[1], o) or ev(fm[2], o)

            for rel, f in sorted(ops.items()):
                fm = formula_cached(rel, False, 0)
                req = f"Slope::operator{rel} is true exactly when dy * p.dx {rel} dx * p.dy (cross-multiplied slopes, dx > 0)" + ('' if exact else '; ties aside')
                found = fmt_term(f.term(f.n(f.returns()[0])['ch'][0], inline=False))[:90] if f.returns() else '?'
                if fm is None:
                    obs.append(Ob('SLOPE-ORDER', f, 0, req, 'unrecognised: ' + found, UNDECIDED, arm='operator' + rel))
                    continue
                bad = [o for o in ('<=>' if exact else '<>') if ev(fm, o) != ev(('atom', rel), o)]
                if bad:
                    obs.append(Ob('SLOPE-ORDER', f, f.returns()[0], req, f"`{found}` differs when dy * p.dx {bad[0]} dx * p.dy", VIOLATED, arm='operator' + rel))
                else:
                    obs.append(Ob('SLOPE-ORDER', f, f.returns()[0], req, f"`{found}`", OK, arm='operator' + rel))
    if not any(o.arm in ('operator<', 'operator>') for o in obs):
        raise AnalysisBroken('SLOPE-ORDER: Slope::operator< / operator> not found in any analysed unit')
    return obs


def rule_model_per_call(ctx):
    """the driver's model object is an automatic local constructed from the driver's own epsilon on every call: a static or
    thread_local one is constructed once, and every later call with another epsilon silently segments with the first"""
    obs = []
    n = 0
    for f in six(ctx):
        eps = ('param', f.params[3]['name'])
        for i in f.all_ids():
            nd = f.n(i)
            if nd['c'] != 'DeclStmt' or not reachable(f, i):
                continue
            for v in nd.get('vars', []):
                ty = f.unit.base_type(v.get('t')) if v.get('t') else None
                if not ty or not str(ty.get('s', '')).startswith(('pgm::internal::OptimalPiecewiseLinearModel<', 'OptimalPiecewiseLinearModel<')) or 'CanonicalSegment' in str(ty.get('s', '')):
                    continue
                n += 1
                init = nocast(strip_cast(f.term(v['init'], inline=True))) if v.get('init') else None
                from_eps = init is not None and init[0] == 'construct' and len(init[2]) == 1 and nocast(strip_cast(init[2][0])) == eps
                if v.get('static'):
                    obs.append(Ob('AGREE-EPS', f, i, 'the model is constructed on every call from the epsilon of that call', f"`{v['name']}` has static / thread storage duration: it is constructed by the first call only, later calls reuse that epsilon",
                                  VIOLATED, arm='model-per-call'))
                else:
                    obs.append(Ob('AGREE-EPS', f, i, 'the model is constructed on every call from the epsilon of that call', f"`{v['name']}` is an automatic local" + (' constructed from the epsilon parameter' if from_eps else f" constructed from `{fmt_term(init)[:50] if init else '?'}`"),
                                  OK if from_eps else UNDECIDED, arm='model-per-call'))
    if n == 0:
        obs.append(Ob('AGREE-EPS', None, 0, 'the model is constructed on every call from the epsilon of that call', 'no OptimalPiecewiseLinearModel local found in make_segmentation', UNDECIDED, arm='model-per-call'))
    return obs


def rules_c03(ctx):
    return rule_model_per_call(ctx) + rule_no_drop(ctx) + rule_index_cover(ctx) + rule_rank_agree(ctx) + [o for o in rule_omp_order(ctx) if o.rule != 'CHUNK-COUNT'] + rule_seam(ctx) + rule_key_arith(ctx) + [o for o in rule_geom_guards(ctx, exact=False) if o.rule == 'GEOM-GUARDS'] + rule_slope_order(ctx, exact=False) + rule_precision(ctx)


def rules_c04(ctx):
    return rule_cut_sites(ctx) + rule_geom_guards(ctx) + rule_slope_order(ctx) + [o for o in rule_omp_order(ctx) if o.rule == 'CHUNK-COUNT']
