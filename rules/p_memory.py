"""C17: structural necessary conditions of memory safety: END-GUARD over every pgm:: / C-interface function, SENTINEL
termination of every level, the CLAMP / CAP / N-CAP clauses that keep positions inside [0, n], and SELECT-RANGE for the
Elias-Fano predecessor search."""
import p_eliasfano
import p_guards
import p_multidim
import p_search
import p_segmentation
from common import Ob, OK, VIOLATED


def rules_c17(ctx):
    out = []
    # END-GUARD over everything reachable from the public API (all pgm:: functions and the C interface)
    for o in p_multidim.rule_end_guard(ctx, [], prefix='pgm::'):
        out.append(o)
    if ctx.cpgm is not None:
        import endguard
        from ir import fmt_term
        for f in ctx.cpgm.functions.values():
            if f.file.endswith('cpgm.cpp'):
                r = endguard.analyse(f)
                for v in r['violations']:
                    out.append(Ob('END-GUARD', f, v[0], 'no dereference of an iterator on a path on which it was just found equal to end()', endguard.describe(f, v, r), VIOLATED, arm=fmt_term(v[1])))
                done = set()
                for (c, x) in r['cmp_sites']:
                    if (c, x) not in done and not r['violations']:
                        done.add((c, x))
                        out.append(Ob('END-GUARD', f, c, 'no dereference of an iterator on a path on which it was just found equal to end()',
                                      f"`{fmt_term(x)}` compared with end(); no dereference on the equal edge", OK, arm=fmt_term(x)))
    # SENTINEL: every level of every segment array is terminated (the unbounded forward scans stop only because of it)
    out += [o for o in p_segmentation.rule_closing(ctx) if o.rule == 'SENTINEL']
    out += [o for o in p_search.rule_compressed_level(ctx) if o.rule == 'SENTINEL']
    # no data key equals the sentinel (G1/G2)
    for o in p_guards.rules_c20(ctx):
        if o.arm in ('G1:build-sentinel', 'G2:compressed-sentinel'):
            o.rule = 'SENTINEL'
            out.append(o)
    # positions stay inside [0, n]: clamped key (no negative segment index), capped estimate, hi <= n
    S = p_search
    for which in ('pgm', 'compressed', 'bucketing', 'eliasfano'):
        out += S.rule_clamp(ctx, which, ctx.units) + S.rule_cap(ctx, which, ctx.units) + S.rule_range_form(ctx, which, ctx.units)
    out += S.rule_clamp(ctx, 'wrapper', [ctx.cpgm]) + S.rule_cap(ctx, 'wrapper', [ctx.cpgm]) + S.rule_range_form(ctx, 'wrapper', [ctx.cpgm])
    out += S.rule_kind_compressed(ctx)
    # Elias-Fano: the rank handed to select0 stays within the number of buckets (otherwise ef.low is indexed with a wild value)
    out += p_eliasfano.rule_select_range(ctx)
    # the Elias-Fano constructor writes outside its bit vector if a sentinel-keyed segment is coded (universe wraps to 0)
    out += S.rule_upper_level_sentinel(ctx, 'eliasfano')
    # the segmentation driver never reads the input outside [0, n)
    out += p_segmentation.rule_in_range(ctx)
    out += rule_back_guard(ctx)
    out += rule_check_order(ctx)
    out += rule_iter_invalidation(ctx)
    return out


def rule_check_order(ctx, fns_override=None):
    """An iterator that is compared with end() in a condition is dereferenced only after that comparison: in `a && b` (or
    `a || b`) whose right operand tests x against end(), the left operand must not dereference x - the test exists because x may
    be end(), and evaluated second it protects nothing (`precedes(it) && it != level.end()` reads *end()).  The inlined bodies
    of helper closures count as part of the operand they are called in."""
    import endguard
    from ir import fmt_term
    obs = []
    n = 0
    fns = fns_override if fns_override is not None else [f for u in ctx.all_units() for f in u.functions.values()
                                                        if (f.tname.startswith('pgm::') or f.file.endswith('cpgm.cpp')) and f.body and f.cfg]
    for f in fns:
        if True:
            for i in f.all_ids():
                nd = f.n(i)
                if nd['c'] != 'BinaryOperator' or nd.get('op') not in ('&&', '||') or len(nd['ch']) != 2:
                    continue
                left, right = nd['ch']
                # end comparisons in the right operand (top-level conjuncts/disjuncts of it)
                tested = []
                st = [right]
                while st:
                    j = f.strip(st.pop())
                    if not j:
                        continue
                    nj = f.n(j)
                    if nj['c'] == 'BinaryOperator' and nj.get('op') in ('&&', '||'):
                        st.extend(nj['ch'])
                        continue
                    ec = endguard.end_comparison(f, j)
                    if ec:
                        tested.append((ec[0], j))
                if not tested:
                    continue
                n += 1
                lnodes = list(f.walk(left))
                # x already tested against end() inside the left operand: the right test is a repetition, not the guard
                ltested = set()
                for j in lnodes:
                    if f.n(j)['c'] in ('BinaryOperator', 'CXXOperatorCallExpr'):
                        ec = endguard.end_comparison(f, j)
                        if ec:
                            ltested.add(ec[0])
                bad = None
                for j in lnodes:
                    derefs = endguard._element_effects(f, j)[0]
                    for d_ in derefs:
                        for (x, cj) in tested:
                            if d_ == x and x not in ltested:
                                bad = bad or (j, x)
                if bad:
                    obs.append(Ob('END-GUARD', f, bad[0], 'an iterator compared with end() in a condition is dereferenced only after that comparison',
                                  f"`{fmt_term(bad[1])[:40]}` is dereferenced in the left operand of `{nd['op']}` at line {f.n(bad[0])['l']} and compared with end() only in the right operand "
                                  f"(line {nd['l']}): when it is end() the dereference comes first", VIOLATED, arm='order'))
    obs.append(Ob('END-GUARD', None, 0, 'an iterator compared with end() in a condition is dereferenced only after that comparison',
                  f"{n} conditions whose right operand tests an iterator against end(): none dereferences it in the left operand" if not obs else f"{n} conditions examined",
                  OK, arm='order-summary', detail={'subject': 'pgm::*', 'where': 'include/pgm'}))
    return obs


# front()/back() of a member container in a query: sites whose non-emptiness follows from a constructor invariant, confirmed
# by reading and frozen here (one line of reason each).  Anything else needs an emptiness test on the path.
BACK_GUARD_TABLE = {
    ('pgm::CompressedPGMIndex::search', 'levels'): 'EpsilonRecursive == 0 arm only: the constructor loop starts at i = 1, so a non-empty index has exactly one level',
    ('pgm::DynamicPGMIndex::end', 'levels'): 'every constructor resizes levels to 32 - min_level >= 1 entries',
}


def rule_back_guard(ctx):
    """no front()/back() of a possibly empty member container in a const member function (a query)"""
    from cfg import graph
    from ir import fmt_term
    obs = []
    seen = 0
    for u in ctx.units:
        for f in u.functions.values():
            if not f.tname.startswith('pgm::') or not f.d.get('const'):
                continue
            for c in f.calls(pred=lambda nd: nd.get('cn') in ('back', 'front')):
                nd = f.n(c)
                if not nd.get('obj'):
                    continue
                o = f.term(nd['obj'], inline=False)
                if not (o[0] == 'field' and o[2] == ('this',)):
                    continue
                pos = f.block_of(c)
                if not pos or pos[0] not in graph(f).reach:
                    continue
                seen += 1
                g = graph(f)
                guarded = False
                for (b, lab) in g.transitive_control_deps(pos[0]):
                    cn = g.cond(b)
                    if not cn:
                        continue
                    t = f.term(cn, inline=True)
                    if any(x[0] == 'call' and x[1].rsplit('::', 1)[-1] in ('empty', 'size') and len(x) == 4 and x[3] == o for x in _subs(t)):
                        guarded = True
                why = None
                if guarded:
                    st, why = OK, f"`{fmt_term(o)}.{nd['cn']}()` is control dependent on a test of its size"
                elif (f.tname, o[1]) in BACK_GUARD_TABLE:
                    st, why = OK, f"`{fmt_term(o)}.{nd['cn']}()`: non-empty by construction ({BACK_GUARD_TABLE[(f.tname, o[1])]})"
                else:
                    st, why = VIOLATED, (f"`{fmt_term(o)}.{nd['cn']}()` is evaluated without any test of `{fmt_term(o)}` being non-empty, and no constructor invariant "
                                         f"is recorded for it (an index that fits one segment may have no level at all)")
                obs.append(Ob('BACK-GUARD', f, c, 'front()/back() of a member container in a query is reached only when the container is known to be non-empty', why, st, arm=f"{f.name}:{o[1]}"))
    ctx.stats['back_guard_sites'] = seen
    return obs


def _subs(t):
    if isinstance(t, tuple):
        if t and isinstance(t[0], str):
            yield t
        for x in t:
            if isinstance(x, tuple):
                yield from _subs(x)


def rule_iter_invalidation(ctx):
    """no iterator into a vector is used after an operation that may reallocate it (see rules/iterinv.py)"""
    import iterinv
    from ir import fmt_term
    obs = []
    n_fns = n_iters = n_sites = 0
    for u in ctx.all_units():
        for f in u.functions.values():
            if not (f.tname.startswith('pgm::') or f.file.endswith('cpgm.cpp')) or not f.cfg:
                continue
            iv = iterinv.iterator_vars(f)
            st = iterinv.invalidating_sites(f)
            if not iv and not st:
                continue
            n_fns += 1
            n_iters += len(iv)
            n_sites += len(st)
            res = iterinv.analyse(f)
            req = 'no iterator into a vector is used after an operation that may reallocate that vector (directly, or through a closure handed to the same call as a closure that grows it)'
            if res:
                (use, name, X, site, kind) = res[0]
                where = f"`{name}` (an iterator into `{fmt_term(X)[:40]}`) " + (f"is used at line {f.n(use)['l']} after `{fmt_term(f.term(site, inline=False))[:50]}` at line {f.n(site)['l']}" if kind == 'direct'
                        else f"is held by a closure passed, at line {f.n(use)['l']}, together with a closure that appends to the same vector")
                obs.append(Ob('ITER-INVALIDATION', f, use, req, where, VIOLATED, arm=f.name + ':' + name))
            elif iv and st:
                obs.append(Ob('ITER-INVALIDATION', f, 0, req, f"{len(iv)} iterator variable(s), {len(st)} growing/shrinking call(s): no use after invalidation", OK, arm=f.name))
    ctx.stats['iter_invalidation'] = {'functions': n_fns, 'iterator_variables': n_iters, 'invalidating_sites': n_sites}
    return obs
