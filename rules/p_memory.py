"""C17: structural necessary conditions of memory safety: END-GUARD over every pgm:: / C-interface function, SENTINEL
termination of every level, the CLAMP / CAP / N-CAP clauses that keep positions inside [0, n], and SELECT-RANGE for the
Elias-Fano predecessor search."""
import p_eliasfano
import p_guards
import p_multidim
import p_search
import p_segmentation
from common import Ob, OK, VIOLATED


def rules_c17(ctx):
    out = []
    # END-GUARD over everything reachable from the public API (all pgm:: functions and the C interface)
    for o in p_multidim.rule_end_guard(ctx, [], prefix='pgm::'):
        out.append(o)
    if ctx.cpgm is not None:
        import endguard
        from ir import fmt_term
        for f in ctx.cpgm.functions.values():
            if f.file.endswith('cpgm.cpp'):
                r = endguard.analyse(f)
                for v in r['violations']:
                    out.append(Ob('END-GUARD', f, v[0], 'no dereference of an iterator on a path on which it was just found equal to end()', endguard.describe(f, v, r), VIOLATED, arm=fmt_term(v[1])))
                done = set()
                for (c, x) in r['cmp_sites']:
                    if (c, x) not in done and not r['violations']:
                        done.add((c, x))
                        out.append(Ob('END-GUARD', f, c, 'no dereference of an iterator on a path on which it was just found equal to end()',
                                      f"`{fmt_term(x)}` compared with end(); no dereference on the equal edge", OK, arm=fmt_term(x)))
    # SENTINEL: every level of every segment array is terminated (the unbounded forward scans stop only because of it)
    out += [o for o in p_segmentation.rule_closing(ctx) if o.rule == 'SENTINEL']
    out += [o for o in p_search.rule_compressed_level(ctx) if o.rule == 'SENTINEL']
    # no data key equals the sentinel (G1/G2)
    for o in p_guards.rules_c20(ctx):
        if o.arm in ('G1:build-sentinel', 'G2:compressed-sentinel'):
            o.rule = 'SENTINEL'
            out.append(o)
    # positions stay inside [0, n]: clamped key (no negative segment index), capped estimate, hi <= n
    S = p_search
    for which in ('pgm', 'compressed', 'bucketing', 'eliasfano'):
        out += S.rule_clamp(ctx, which, ctx.units) + S.rule_cap(ctx, which, ctx.units) + S.rule_range_form(ctx, which, ctx.units)
    out += S.rule_clamp(ctx, 'wrapper', [ctx.cpgm]) + S.rule_cap(ctx, 'wrapper', [ctx.cpgm]) + S.rule_range_form(ctx, 'wrapper', [ctx.cpgm])
    out += S.rule_kind_compressed(ctx)
    # Elias-Fano: the rank handed to select0 stays within the number of buckets (otherwise ef.low is indexed with a wild value)
    out += p_eliasfano.rule_select_range(ctx)
    return out
