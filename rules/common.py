"""Obligations, contexts, evidence and known-finding handling shared by all rule modules."""
import json
import os
import time

from ir import AnalysisBroken, fmt_term  # noqa: F401

VERIF = os.path.dirname(os.path.dirname(os.path.abspath(__file__)))

OK, VIOLATED, UNDECIDED = 'discharged', 'violated', 'undecided'


class Ob:
    """One proof obligation of one rule instance at one site."""

    def __init__(self, rule, fn, node, required, found, status, arm='', detail=None, unit=None):
        self.rule = rule
        self.fn = fn
        self.node = node
        self.required = required
        self.found = found
        self.status = status
        self.arm = arm
        self.detail = detail
        self.unit = unit or (fn.unit.name if fn is not None and hasattr(fn.unit, 'name') else '')

    @property
    def where(self):
        if self.fn is None:
            return self.detail.get('where', '?') if isinstance(self.detail, dict) else '?'
        return self.fn.loc(self.node) if self.node else self.fn.loc()

    @property
    def key(self):
        """stable identity for known-finding matching: rule + function (no template args) + arm; never a line"""
        t = self.fn.tname if self.fn is not None else (self.detail or {}).get('subject', '?')
        return f"{self.rule}|{t}|{self.arm}"

    def to_json(self):
        d = {'rule': self.rule, 'status': self.status, 'where': self.where,
             'function': self.fn.short() if self.fn is not None else (self.detail or {}).get('subject', ''),
             'required': self.required, 'found': self.found, 'unit': self.unit}
        if self.arm:
            d['arm'] = self.arm
        if self.detail:
            d['detail'] = self.detail
        return d

    def diag(self):
        return f"{self.where}: {self.rule}: in {self.fn.short() if self.fn is not None else ''}: required {self.required}; found {self.found}"


class Ctx:
    """What a rule gets: the units of the tier, lazily loaded."""

    def __init__(self, tier, units, info, cpgm=None):
        self.tier = tier
        self.units = units          # driver units (+ repo TUs in thorough)
        self.cpgm = cpgm            # Unit of c-interface/cpgm.cpp
        self.info = info
        self.notes = []
        self.stats = {}

    def all_units(self):
        return self.units + ([self.cpgm] if self.cpgm else [])

    def fns(self, tname, units=None):
        out = []
        for u in (units if units is not None else self.all_units()):
            out.extend(u.fns(tname))
        return out

    def need(self, tname, units=None, what=''):
        fs = self.fns(tname, units)
        if not fs:
            raise AnalysisBroken(f"anchor function {tname} not found in any analysed unit {what}")
        return fs

    def note(self, s):
        if s not in self.notes:
            self.notes.append(s)


def dedup(obs):
    """Identical instantiation-independent obligations are kept per instantiation (they are distinct proof
    obligations) but exact duplicates coming from the same function being emitted in two units are merged."""
    seen = set()
    out = []
    for o in obs:
        k = (o.rule, o.fn.qname if o.fn is not None else str((o.detail or {}).get('record', '')) + str(o.found)[:200], o.node if o.fn is None else o.fn.n(o.node)['l'] if o.node else 0,
             o.arm, o.status, str(o.found))
        if k in seen:
            continue
        seen.add(k)
        out.append(o)
    return out


# ------------------------------------------------------------------------------ known findings

def load_known():
    p = os.path.join(VERIF, 'known_findings.json')
    if not os.path.exists(p):
        return {'open': [], 'fixed': []}
    return json.load(open(p))


def match_known(ob, prop, known):
    for k in known.get('open', []):
        if k.get('property') == prop and k.get('key') == ob.key:
            return k
    return None


# ------------------------------------------------------------------------------ helpers the rules do not know
# Rules that follow calls themselves (their verdict does not depend on where a piece of code lives):
HELPER_AWARE = {'CAPACITY', 'IN-RANGE', 'INDEX-COVER', 'INDEX-SYNC', 'WINDOW-FORM', 'CTOR-AGREE', 'NARROW-SCOPE', 'EFFECT', 'EFFECT-IR', 'ACCUM-ONCE', 'KEY-ARITH', 'ITER-INVALIDATION', 'OWN-ALIAS', 'FIELD-COVER', 'SENTINEL-EXCLUDED',
                'PRECISION', 'TYPE', 'SLOPE-ORDER', 'INT-INTERCEPT', 'CONV-RANGE', 'TABLE-WIDTH', 'DATA-EXACT', 'BACK-GUARD', 'SELECT-RANGE'}
# Rules exempted on measured evidence (third round, DESIGN 10.7): over the 198 neutral patches each had obligations in functions with an
# inlined out-of-vocabulary helper in at least 5 patches (`PGM_SOFTEN_STATS`: KIND 34, TOMB-GUARD 16, TOMB-ESCAPE 14, LOOP-AGREE 13, SEAM 12,
# RANK-AGREE / AGREE-EPS / CLOSING / NO-DROP / CUT-SITES 10, GAP-GUARD 8, GEOM-GUARDS / REJECT-ONLY-GEOMETRIC 6, BUCKET-AGREE / EMIT-GUARD 5)
# and reported nothing on any of them with softening switched off.  The rules that did report something raw (RANGE-FORM, CAP, CLAMP,
# FORWARD, END-GUARD, GUARD-DOM, EXC-BOUNDARY, SER-AGREE, REBASE-AGREE, MERGE-PRECEDENCE) and those exposed fewer than 5 times stay softened.
HELPER_AWARE |= {'KIND', 'TOMB-GUARD', 'TOMB-ESCAPE', 'LOOP-AGREE', 'SEAM', 'RANK-AGREE', 'AGREE-EPS', 'CLOSING', 'NO-DROP', 'CUT-SITES', 'SENTINEL',
                 'GAP-GUARD', 'GEOM-GUARDS', 'REJECT-ONLY-GEOMETRIC', 'BUCKET-AGREE', 'EMIT-GUARD'}


# obligations decided on the flat view of a function (rules/inline.py: flat), which contains the bodies of all its helpers
HELPER_AWARE_ARMS = {'build-level', 'end-gap', 'cover', 'deleted-set', 'upper-in-window', 'upper_bound', 'G9', 'order', 'contains-deref', 'G6'}


def unknown_helpers(fn):
    """functions / closures called by fn that are not part of the vocabulary the rules were written against and that Fn.term()
    could not look through (more than one return statement, loops, try blocks): names"""
    from ir import known_names
    known = known_names()
    out = list(getattr(fn, 'inlined_nontrivial', None) or [])
    u = fn.unit
    for c in fn.calls():
        nd = fn.n(c)
        callee = u.functions.get(nd.get('cd')) if nd.get('cd') else None
        if callee is None or callee.id == fn.id:
            continue
        if not (callee.tname.startswith('pgm::') or callee.file.endswith('cpgm.cpp')):
            continue
        if '(lambda)' in callee.tname:
            a0 = fn.n(fn.strip(nd['args'][0])) if nd.get('args') else {}
            name = a0.get('n', '')
            # only closures defined as locals of this function: a functor parameter (in, out) is not a helper of it
            if a0.get('c') != 'DeclRefExpr' or a0.get('dk') not in ('local', 'static_local'):
                continue
            if fn.tname not in known['functions'] or (fn.tname + '|' + name) in known['closures']:
                continue
        elif callee.tname in known['functions']:
            continue
        from ir import expandable_helper
        if not expandable_helper(callee):
            out.append(callee.name if '(lambda)' not in callee.tname else 'closure `' + name + '`')
    return sorted(set(out))


def soften_unknown(obs):
    """a violation reported in a function, part of whose body now lives in a helper the rule does not follow, is not a verdict:
    the rule saw only half of the code.  It becomes undecided (exit 2), never silently a pass."""
    stats = os.environ.get('PGM_SOFTEN_STATS')
    if stats:
        # development aid (selftest): which rules had an obligation in a function with an out-of-vocabulary helper, i.e. were
        # *exposed* to a moved body - the evidence the exemption list below is maintained with
        seen = set()
        for o in obs:
            if o.fn is not None:
                try:
                    uh = unknown_helpers(o.fn)
                except Exception:
                    uh = []
                if uh:
                    seen.add((o.rule.split(':')[-1], str(o.arm or '').split(':')[0], o.status))
        with open(stats, 'a') as fh:
            for (r, a, st) in sorted(seen):
                fh.write(f"{os.environ.get('PGM_REPO', '')}\t{r}\t{a}\t{st}\n")
    if os.environ.get('PGM_NO_SOFTEN'):     # development aid (selftest): show what the rules say before softening
        return obs
    for o in obs:
        if o.status == VIOLATED and o.fn is not None and o.rule.split(':')[-1] not in HELPER_AWARE and str(o.arm or '').split(':')[0] not in HELPER_AWARE_ARMS:
            try:
                uh = unknown_helpers(o.fn)
            except Exception:
                uh = []
            if uh:
                o.status = UNDECIDED
                o.found = str(o.found) + f"  [not a verdict: part of this function now lives in {', '.join(uh[:3])}, which this rule does not follow]"
    return obs
