"""C12 MappedPGMIndex: CTOR-AGREE, SER-AGREE, READONLY-REOPEN."""
from cfg import graph
from common import Ob, OK, VIOLATED, UNDECIDED, AnalysisBroken
from ir import fmt_term

THIS = ('this',)
M = 'pgm::MappedPGMIndex'
STATE = ['n', 'first_key', 'segments', 'levels_offsets', 'data', 'file_bytes', 'header_bytes']


def subterms(t):
    if isinstance(t, tuple):
        if t and isinstance(t[0], str):
            yield t
        for x in t:
            if isinstance(x, tuple):
                yield from subterms(x)


def strip_cast(t):
    while isinstance(t, tuple) and t and t[0] in ('cast', 'conv'):
        t = t[2]
    return t


def reachable(fn, node):
    pos = fn.block_of(node)
    return bool(pos) and pos[0] in graph(fn).reach


def _trivial_init(t):
    return t in (('other', 'ImplicitValueInitExpr'), ('lit', 0), ('null',)) or (t[0] == 'construct' and not t[2]) or t == ('init',)


def _field_of_this(t):
    """field name if t designates (a part of) a field of *this"""
    t = strip_cast(t)
    while t[0] in ('index', 'deref') or (t[0] == 'un' and t[1] == '&'):
        t = strip_cast(t[1] if t[0] != 'un' else t[2])
    if t[0] == 'field' and t[2] == THIS:
        return t[1]
    return None


def assigned_fields(fn, unit, depth=0, seen=None):
    """field name -> description of one place where the field of *this is (possibly) assigned a non-trivial value,
    in fn, its base/delegated constructors and the member functions it calls on *this"""
    seen = seen if seen is not None else set()
    if fn.id in seen or depth > 6:
        return {}
    seen.add(fn.id)
    out = {}
    for ini in fn.d.get('inits', []):
        t = fn.term(ini['expr'], inline=True)
        if ini.get('field'):
            if not _trivial_init(t):
                out.setdefault(ini['field'], f"member initialiser in {fn.name} ({fn.loc()})")
        elif 'base' in ini or ini.get('delegating'):
            nd = fn.n(fn.strip(ini['expr']))
            callee = unit.functions.get(nd.get('cd'))
            if callee is not None:
                for k, v in assigned_fields(callee, unit, depth + 1, seen).items():
                    out.setdefault(k, v)
    for i in fn.all_ids():
        nd = fn.n(i)
        c = nd['c']
        if not reachable(fn, i) and c != 'CXXConstructExpr':
            pass
        if c in ('BinaryOperator', 'CompoundAssignOperator') and nd['op'].endswith('=') and nd['op'] not in ('==', '!=', '<=', '>='):
            f = _field_of_this(fn.term(nd['ch'][0], inline=False))
            if f and reachable(fn, i):
                out.setdefault(f, f"assignment at {fn.loc(i)}")
        elif c == 'CXXOperatorCallExpr' and nd.get('op') in ('=', '+=') and nd.get('args'):
            f = _field_of_this(fn.term(nd['args'][0], inline=False))
            if f and reachable(fn, i):
                out.setdefault(f, f"assignment at {fn.loc(i)}")
        if c in ('CallExpr', 'CXXMemberCallExpr', 'CXXOperatorCallExpr') and reachable(fn, i):
            pm = nd.get('pmodes', [])
            args = nd.get('args', [])
            off = 1 if (c == 'CXXOperatorCallExpr' and nd.get('op_member')) else 0
            for k, a in enumerate(args):
                pk = k - off
                if 0 <= pk < len(pm) and pm[pk] in ('ref', 'ptr'):
                    f = _field_of_this(fn.term(a, inline=False))
                    if f:
                        out.setdefault(f, f"passed by reference to {nd.get('cn')} at {fn.loc(i)}")
            if c == 'CXXMemberCallExpr' and nd.get('obj'):
                ot = strip_cast(fn.term(nd['obj'], inline=False))
                if ot == THIS or (ot[0] == 'deref' and ot[1] == THIS):
                    callee = unit.functions.get(nd.get('cd'))
                    if callee is not None and not nd.get('cconst'):
                        for k2, v in assigned_fields(callee, unit, depth + 1, seen).items():
                            out.setdefault(k2, v + f" (via {callee.name})")
                else:
                    f = _field_of_this(ot)
                    if f and not nd.get('cconst'):
                        out.setdefault(f, f"non-const member call {nd.get('cn')} at {fn.loc(i)}")
    return out


def rule_ctor_agree(ctx, cls=M, state=STATE, units=None):
    obs = []
    us = units if units is not None else ctx.units
    n_groups = 0
    for u in us:
        groups = {}
        for f in u.fns(cls + '::' + cls.split('::')[-1]):
            if f.d.get('special') in ('copy_ctor', 'move_ctor', 'default_ctor') or f.d.get('implicit'):
                continue
            groups.setdefault(f.record, []).append(f)
        for rec, ctors in groups.items():
            if len(ctors) < 2:
                continue
            n_groups += 1
            sets = {f.id: assigned_fields(f, u) for f in ctors}
            union = set()
            for s in sets.values():
                union |= set(s)
            union |= set(state)
            for f in ctors:
                mine = sets[f.id]
                missing = sorted(x for x in union if x not in mine)
                sig = '(' + ', '.join(p['name'] for p in f.params) + ')'
                if missing:
                    others = [g for g in ctors if g.id != f.id and missing[0] in sets[g.id]]
                    where = sets[others[0].id][missing[0]] if others else 'required state field'
                    obs.append(Ob('CTOR-AGREE', f, 0, f"every constructor establishes the same state {sorted(union)}",
                                  f"constructor {sig} never assigns {missing}; the other constructors do (e.g. {where})", VIOLATED,
                                  arm=sig))
                else:
                    obs.append(Ob('CTOR-AGREE', f, 0, f"every constructor establishes the same state {sorted(union)}",
                                  f"constructor {sig} assigns all of them", OK, arm=sig))
    if n_groups == 0:
        raise AnalysisBroken(f"CTOR-AGREE: constructors of {cls} not found")
    return obs


# ------------------------------------------------------------------------------------------ SER-AGREE
def _io_calls(fn, names):
    out = []
    for c in fn.calls(pred=lambda nd: nd.get('cn') in names and nd.get('ct', '').startswith(M)):
        if reachable(fn, c):
            out.append(c)
    g = graph(fn)
    out.sort(key=lambda c: (0, 0))
    # CFG order: use dominance/before
    import functools

    def cmp(a, b):
        if a == b:
            return 0
        return -1 if g.before(a, b) else 1
    return sorted(out, key=functools.cmp_to_key(cmp))


def rule_init_order(ctx, cls=M, units=None):
    """a constructor body does not read one of the object's fields before the statement that assigns it (the field still holds
    its default value: `first_key = n ? *in : 0` evaluated while n is still 0 stores 0 in the object and in the file header)"""
    obs = []
    us = units if units is not None else ctx.units
    seen = 0
    for u in us:
        for f in u.fns(cls + '::' + cls.split('::')[-1]):
            if f.d.get('special') in ('copy_ctor', 'move_ctor', 'default_ctor') or f.d.get('implicit') or not f.cfg:
                continue
            g = graph(f)
            assigns = {}
            for i in f.all_ids():
                nd = f.n(i)
                if nd['c'] == 'BinaryOperator' and nd['op'] == '=' and reachable(f, i):
                    lt = strip_cast(f.term(nd['ch'][0], inline=False))
                    if lt[0] == 'field' and lt[2] == THIS:
                        assigns.setdefault(lt[1], []).append(i)
            bad = []
            for fld, asg in assigns.items():
                first = min(asg, key=lambda a: f.n(a)['l'])
                lhs_nodes = set(f.walk(f.n(first)['ch'][0]))
                for j in f.all_ids():
                    nj = f.n(j)
                    if nj['c'] == 'MemberExpr' and nj.get('dk') == 'field' and nj.get('n') == fld and j not in lhs_nodes and reachable(f, j):
                        if strip_cast(f.term(j, inline=False)) != ('field', fld, THIS):
                            continue
                        # a read that executes before the first assignment on every path reaching that assignment
                        if g.before(j, first) and not any(j in set(f.walk(f.n(a)['ch'][0])) for a in asg):
                            bad.append((j, fld, first))
            seen += 1
            if bad:
                j, fld, first = bad[0]
                obs.append(Ob('CTOR-AGREE', f, j, 'no field of the object is read in a constructor body before the statement that assigns it',
                              f"`{fld}` is read at line {f.n(j)['l']} but assigned at line {f.n(first)['l']}: it still holds its default value there", VIOLATED, arm='init-order'))
            else:
                obs.append(Ob('CTOR-AGREE', f, 0, 'no field of the object is read in a constructor body before the statement that assigns it',
                              f"{len(assigns)} fields assigned in the body, each before its first read", OK, arm='init-order'))
    if seen == 0:
        raise AnalysisBroken(f"no constructor of {cls} with a body found")
    return obs


def rule_ser_agree(ctx):
    obs = []
    for u in ctx.units:
        loaders = [f for f in u.fns(M + '::MappedPGMIndex') if len(f.params) == 1 and not f.d.get('special')]
        for ld in loaders:
            ws = [f for f in u.fns(M + '::serialize_and_map') if f.record == ld.record]
            if not ws:
                raise AnalysisBroken(f"serialize_and_map for {ld.record} not found")
            for w in ws:
                g = graph(w)
                wr = []
                for c in _io_calls(w, ('write_member', 'write_container')):
                    nd = w.n(c)
                    a0 = strip_cast(w.term(nd['args'][0], inline=False))
                    kind = 'member' if nd['cn'] == 'write_member' else 'container'
                    wr.append((kind, a0, c))
                rd = []
                for c in _io_calls(ld, ('read_member', 'read_container')):
                    nd = ld.n(c)
                    a0 = strip_cast(ld.term(nd['args'][0], inline=False))
                    rd.append(('member' if nd['cn'] == 'read_member' else 'container', a0, c))
                # header = writes before the key loop; key writes = writes whose argument is a dereferenced iterator
                header = [(k, t, c) for (k, t, c) in wr if t[0] == 'field' and t[2] == THIS and not _after_key_loop(w, c)]
                HB = ('field', 'header_bytes', THIS)
                # a local byte counter may stand in for header_bytes: the first word of the file is then a placeholder of the
                # same type that is overwritten with header_bytes at the end, and header_bytes is assigned from the counter
                acc = None
                for i_ in w.all_ids():
                    nd_ = w.n(i_)
                    if nd_['c'] == 'BinaryOperator' and nd_['op'] == '=' and strip_cast(w.term(nd_['ch'][0], inline=False)) == HB and reachable(w, i_):
                        r_ = strip_cast(w.term(nd_['ch'][1], inline=False))
                        if r_[0] == 'local':
                            acc = r_
                if acc is not None:
                    firsts = [(k, t, c) for (k, t, c) in wr if strip_cast(t) == acc and not _after_key_loop(w, c)]
                    if firsts and (not header or w.n(firsts[0][2])['l'] <= min(w.n(c)['l'] for (_, _, c) in header)):
                        header = [('member', HB, firsts[0][2])] + header
                wl = [(k, t[1]) for (k, t, c) in header]
                rl = [(k, t[1]) for (k, t, c) in rd if t[0] == 'field']
                ok = wl == rl and len(wl) >= 5
                obs.append(Ob('SER-AGREE', w, header[0][2] if header else 0, 'the loader reads exactly the fields the serialiser wrote, in the same order and with the same helper kind',
                              f"writer {wl} / reader {rl}", OK if ok else VIOLATED, arm='order'))
                # every header write is accumulated into header_bytes (or into the local counter it is assigned from)
                acc_bad = []
                for (k, t, c) in header:
                    p = w.sparent(c)
                    good = False
                    while p:
                        nd = w.n(p)
                        if nd['c'] == 'CompoundAssignOperator' and nd['op'] == '+=' and strip_cast(w.term(nd['ch'][0], inline=False)) in (HB, acc):
                            good = True
                            break
                        if nd['c'] in ('BinaryOperator',) and nd['op'] == '=' and strip_cast(w.term(nd['ch'][0], inline=False)) in (HB, acc):
                            good = True
                            break
                        p = w.sparent(p)
                    if not good:
                        acc_bad.append(t[1])
                obs.append(Ob('SER-AGREE', w, 0, 'the byte count of every header field is added to header_bytes',
                              'all header writes are accumulated' if not acc_bad else f"writes of {acc_bad} are not added to header_bytes", OK if not acc_bad else VIOLATED, arm='accumulate'))
                # header_bytes patched at offset 0 after the keys
                seek = [c for c in w.calls(pred=lambda nd: nd.get('cn') == 'seekp') if reachable(w, c)]
                patch = [c for (k, t, c) in wr if t == HB and _after_key_loop(w, c)]
                okp = bool(seek) and bool(patch) and w.n(seek[0])['args'] and _is_zero(w.term(w.n(seek[0])['args'][0], inline=True)) and g.before(seek[0], patch[0])
                obs.append(Ob('SER-AGREE', w, patch[0] if patch else 0, 'header_bytes is rewritten at offset 0 after the keys were written',
                              f"seekp(0) then write_member(header_bytes): {bool(okp)}", OK if okp else VIOLATED, arm='patch'))
                # keys: one write per element of [first, last) through the iterator
                keyw = [(k, t, c) for (k, t, c) in wr if t[0] == 'deref']
                okk = False
                why = 'no per-element key write found'
                if keyw:
                    k, t, c = keyw[0]
                    pos = w.block_of(c)
                    inloop = pos and any(s is not None and pos[0] in g.reachable_from(s) for s in g.succ[pos[0]])
                    itv = t[1]
                    init_ok = itv[0] == 'local' and w.defs.get(itv[2], {}).get('init') and w.term(w.defs[itv[2]]['init'], inline=False) == ('param', 'first')
                    cond_ok = False
                    for b in g.reach:
                        cnd = g.cond(b)
                        if cnd:
                            ct = w.term(cnd, inline=False)
                            if ct[0] == 'op' and ct[1] == '!=' and set(ct[2:]) == {itv, ('param', 'last')}:
                                cond_ok = True
                    incs = [x for x in w.defs.get(itv[2], {}).get('writes', []) if itv[0] == 'local']
                    inc_ok = len(incs) == 1 and w.n(incs[0]).get('op') == '++'
                    okk = bool(inloop and init_ok and cond_ok and inc_ok and k == 'member')
                    why = f"for (it = first; it != last; ++it) write_member(*it): loop={bool(inloop)} init={bool(init_ok)} cond={cond_ok} step={inc_ok}"
                # KEY-WIDTH: the loader maps the key area as an array of K (file_bytes = header_bytes + n * sizeof(K)), so every key must
                # be written as a K: write_member<T> writes sizeof(T) bytes, T deduced from its argument.  The range constructor
                # accepts any iterator; a driver instantiates it with a value type different from K to expose the deduced T.
                if keyw:
                    def wtype(c):
                        cal = w.unit.functions.get(w.n(c).get('cd'))
                        if cal is None or not cal.params:
                            return None
                        ty = w.unit.tstr(cal.params[0]['t'])
                        return ty.replace('const ', '').replace('&', '').strip()
                    fk = [c for (k_, t_, c) in wr if t_ == ('field', 'first_key', THIS)]
                    kt = wtype(fk[0]) if fk else None
                    et = wtype(keyw[0][2])
                    if kt is None or et is None:
                        obs.append(Ob('SER-AGREE', w, keyw[0][2], 'each key is written with the width of K', 'callee of write_member not resolved', UNDECIDED, arm='key-width'))
                    else:
                        obs.append(Ob('SER-AGREE', w, keyw[0][2], 'each key is written with the width of K (the loader maps the key area as K[n]), whatever the value type of the range',
                                      f"keys are written as `{et}`, K is `{kt}`" + ('' if et == kt else f": sizeof differs from what the loader and file_bytes assume (range value type `{et}`)"),
                                      OK if et == kt else VIOLATED, arm='key-width'))
                # any raw stream write inside serialize_and_map bypasses the per-element protocol
                raw = [c for c in w.calls(pred=lambda nd: nd.get('cn') == 'write' and 'ostream' in nd.get('ct', '')) if reachable(w, c)]
                if raw:
                    okk = False
                    why = f"raw out.write at line {w.n(raw[0])['l']} (a byte range taken through &*first needs contiguous storage, which RandomIt does not guarantee)"
                obs.append(Ob('SER-AGREE', w, keyw[0][2] if keyw else (raw[0] if raw else 0), 'each of the n keys is written through the iterator, one element per write (any random-access range)', why,
                              OK if okk else VIOLATED, arm='keys'))
                # both sides derive file_bytes from header_bytes and n, and map that many bytes
                for fn_, who in ((w, 'writer'), (ld, 'loader')):
                    FB = ('field', 'file_bytes', THIS)
                    asg = [i for i in fn_.all_ids() if fn_.n(i)['c'] == 'BinaryOperator' and fn_.n(i)['op'] == '=' and fn_.term(fn_.n(i)['ch'][0], inline=False) == FB and reachable(fn_, i)]
                    okf = False
                    whyf = 'file_bytes is not assigned'
                    if asg:
                        rhs = fn_.term(fn_.n(asg[-1])['ch'][1], inline=True)
                        has_hb = any(s == HB for s in subterms(rhs))
                        has_n = any(s == ('field', 'n', THIS) for s in subterms(rhs))
                        mp = [c for c in fn_.calls_to(M + '::map_file') if reachable(fn_, c)]
                        mp = [c for c in mp if strip_cast(fn_.term(fn_.n(c)['args'][1], inline=False)) == FB]
                        okf = has_hb and has_n and rhs[0] == 'op' and rhs[1] == '+' and bool(mp) and fn_graph_before(fn_, asg[-1], mp[0])
                        whyf = f"file_bytes = {fmt_term(rhs)[:60]}; data = map_file(..., file_bytes) afterwards: {bool(mp)}"
                    obs.append(Ob('SER-AGREE', fn_, asg[-1] if asg else 0, 'file_bytes = header_bytes + n*sizeof(K) and exactly that many bytes are mapped', f"{who}: {whyf}", OK if okf else VIOLATED, arm='size:' + who))
        # begin() exposes the key area at byte offset header_bytes
        for f in u.fns(M + '::begin'):
            for r in f.returns():
                t = f.term(f.n(r)['ch'][0], inline=True)
                ok = any(s == ('field', 'header_bytes', THIS) for s in subterms(t)) and any(s == ('field', 'data', THIS) for s in subterms(t))
                obs.append(Ob('SER-AGREE', f, r, 'begin() is data + header_bytes bytes', fmt_term(t)[:80], OK if ok else VIOLATED, arm='begin'))
    if not obs:
        raise AnalysisBroken('SER-AGREE: no MappedPGMIndex loader found')
    return obs


def _is_zero(t):
    t = strip_cast(t)
    if t == ('lit', 0):
        return True
    if t[0] == 'construct' and len(t[2]) == 1:      # std::streampos(0)
        return _is_zero(t[2][0])
    return False


def fn_graph_before(fn, a, b):
    return graph(fn).before(a, b)


def _after_key_loop(fn, node):
    """node executes after the loop that writes the keys (there is a loop on some path before it and it is not inside one)"""
    g = graph(fn)
    pos = fn.block_of(node)
    if not pos:
        return False
    inloop = any(s is not None and pos[0] in g.reachable_from(s) for s in g.succ[pos[0]])
    if inloop:
        return False
    # is there a loop head that dominates-or-precedes it?
    for b in g.reach:
        if g.blocks[b].get('term_c') in ('ForStmt', 'WhileStmt', 'CXXForRangeStmt', 'DoStmt') and b != pos[0]:
            if pos[0] in g.reachable_from(b) and g.dominates(b, pos[0]):
                return True
    return False


# ------------------------------------------------------------------------------------------ READONLY-REOPEN
def rule_readonly_reopen(ctx):
    obs = []
    for u in ctx.units:
        for ld in [f for f in u.fns(M + '::MappedPGMIndex') if len(f.params) == 1 and not f.d.get('special')]:
            # closure of the load constructor inside the class
            seen = {ld.id}
            todo = [ld]
            fns = []
            while todo:
                f = todo.pop()
                fns.append(f)
                for c in f.calls():
                    callee = u.functions.get(f.n(c).get('cd'))
                    if callee is not None and callee.id not in seen and callee.tname.startswith('pgm::'):
                        seen.add(callee.id)
                        todo.append(callee)
            # stream opened for input only
            fs = [c for c in ld.calls(pred=lambda nd: 'basic_fstream' in nd.get('ct', '') or 'basic_ifstream' in nd.get('ct', '') or 'basic_ofstream' in nd.get('ct', ''))]
            okm = False
            why = 'no stream construction found'
            for c in fs:
                nd = ld.n(c)
                if 'ofstream' in nd.get('ct', ''):
                    okm, why = False, 'opens an std::ofstream'
                    break
                if len(nd.get('args', [])) >= 2:
                    v = ld.n(ld.strip(nd['args'][1], casts=True)).get('v')
                    if v is not None:
                        mode = int(v)
                        # libstdc++: app=1 ate=2 binary=4 in=8 out=16 trunc=32
                        okm = (mode & (1 | 16 | 32)) == 0 and (mode & 8) != 0
                        why = f"openmode value {mode} (in={bool(mode & 8)}, out={bool(mode & 16)}, trunc={bool(mode & 32)}, app={bool(mode & 1)})"
                elif 'ifstream' in nd.get('ct', ''):
                    okm, why = True, 'std::ifstream (input only)'
            obs.append(Ob('READONLY-REOPEN', ld, fs[0] if fs else 0, 'the reopen constructor opens the file for reading only', why, OK if okm else VIOLATED, arm='stream-mode'))
            # no stream write, no write-mode open/mmap in the closure
            bad = []
            for f in fns:
                for c in f.calls():
                    nd = f.n(c)
                    cn = nd.get('cn')
                    if cn in ('write', 'seekp', 'put', 'write_member', 'write_container', 'serialize_and_map', 'ftruncate', 'truncate', 'unlink', 'remove') and reachable(f, c):
                        bad.append(f"{cn} at {f.loc(c)}")
                    if cn == 'open' and nd.get('builtin') is None and nd.get('ct') == 'open' and reachable(f, c):
                        v = f.n(f.strip(nd['args'][1], casts=True)).get('v')
                        if v is None or (int(v) & 3) != 0 or (int(v) & (0o100 | 0o1000)) != 0:
                            bad.append(f"open with flags {v} at {f.loc(c)}")
                    if cn == 'mmap' and reachable(f, c):
                        v = f.n(f.strip(nd['args'][2], casts=True)).get('v')
                        if v is None or (int(v) & 2) != 0:
                            bad.append(f"mmap with protection {v} at {f.loc(c)}")
            obs.append(Ob('READONLY-REOPEN', ld, 0, 'nothing reachable from the reopen constructor writes the file (no stream write, open(O_RDONLY), mmap(PROT_READ))',
                          f"{len(fns)} functions in the closure; " + ('clean' if not bad else '; '.join(bad)), OK if not bad else VIOLATED, arm='closure'))
    if not obs:
        raise AnalysisBroken('READONLY-REOPEN: load constructor not found')
    return obs


def rule_first_key_source(ctx):
    """first_key is the first stored key: wherever a constructor assigns it from the data, the element read has the width of K.
    (Reading it through a pointer of a narrower element type - the mapping kept as `char *` - stores the sign-extended low byte
    in the object and in the file header; everything else still type-checks.)"""
    obs = []
    n = 0
    for f in ctx.need(M + '::MappedPGMIndex', ctx.units):
        if f.d.get('special') in ('copy_ctor', 'move_ctor') or f.d.get('implicit'):
            continue
        u = f.unit
        kb = None
        for i in f.all_ids():
            nd = f.n(i)
            if nd['c'] != 'BinaryOperator' or nd.get('op') != '=' or not reachable(f, i):
                continue
            if strip_cast(f.term(nd['ch'][0], inline=False)) != ('field', 'first_key', THIS):
                continue
            lt = u.type(nd.get('t', 0)) or {}
            kb = lt.get('bits')
            # the element reads on the right-hand side: *p, p[i], first[...] (both arms of a conditional)
            reads = []
            st = [nd['ch'][1]]
            while st:
                j = st.pop()
                nj = f.n(j)
                if nj['c'] in ('UnaryOperator',) and nj.get('op') == '*':
                    reads.append(j)
                elif nj['c'] == 'ArraySubscriptExpr' or (nj['c'] == 'CXXOperatorCallExpr' and nj.get('op') in ('*', '[]')):
                    reads.append(j)
                else:
                    st.extend(nj['ch'])
            for j in reads:
                n += 1
                et = u.type(f.n(j).get('t', 0)) or {}
                # a caller's range may legitimately hold narrower values (they are converted, K(*first)): only reads through a
                # pointer of the constructor's own (the mapped input file) must have the width of K
                opnd = f.n(j)['ch'][0] if f.n(j)['c'] != 'CXXOperatorCallExpr' else f.n(j)['args'][0]
                ot = strip_cast(f.term(opnd, inline=False))
                own = ot[0] == 'local'
                if own and et.get('k') in ('int', 'bool') and kb and et.get('bits', 0) < kb:
                    obs.append(Ob('CTOR-AGREE', f, j, 'first_key is read from the data as a whole key (an element of the width of K)',
                                  f"`{fmt_term(f.term(j, inline=False))[:50]}` has type {et.get('s')} ({et.get('bits')} bits) while K has {kb}: only the low part of the first key is stored",
                                  VIOLATED, arm='first-key-source'))
                else:
                    obs.append(Ob('CTOR-AGREE', f, j, 'first_key is read from the data as a whole key (an element of the width of K)',
                                  f"`{fmt_term(f.term(j, inline=False))[:50]}` of type {et.get('s', '?')}", OK, arm='first-key-source'))
    if n == 0:
        obs.append(Ob('CTOR-AGREE', None, 0, 'first_key is read from the data as a whole key', 'no assignment of first_key from an element read found', UNDECIDED, arm='first-key-source',
                      detail={'subject': M}))
    return obs


def rules_c12(ctx):
    return rule_ctor_agree(ctx) + rule_init_order(ctx) + rule_first_key_source(ctx) + rule_ser_agree(ctx) + rule_readonly_reopen(ctx)


# ------------------------------------------------------------------------------------------ C11: multiset queries
import kinds  # noqa: E402


def _pgm_range_ok(k, key):
    """search range is [begin() + search(key).lo, begin() + search(key).hi) of this->search(key) for the same key"""
    srch = ('call', 'pgm::PGMIndex::search', (key,), THIS)
    beg = ('call', M + '::begin', (), THIS)
    return strip_cast(k[2]) == ('op', '+', beg, ('field', 'lo', srch)) and strip_cast(k[3]) == ('op', '+', beg, ('field', 'hi', srch))


def _conj(t):
    t = strip_cast(t)
    if t[0] == 'op' and t[1] == '&&':
        return _conj(t[2]) + _conj(t[3])
    return [t]


def _disj(t):
    t = strip_cast(t)
    if t[0] == 'op' and t[1] == '||':
        return _disj(t[2]) + _disj(t[3])
    return [t]


def _negate(a):
    a = strip_cast(a)
    if a[0] == 'op' and len(a) == 4 and a[1] in ('==', '!=', '<', '>', '<=', '>='):
        return ('op', {'==': '!=', '!=': '==', '<': '>=', '>=': '<', '>': '<=', '<=': '>'}[a[1]], a[2], a[3])
    if a[0] == 'op' and a[1] == '!' and len(a) == 3:
        return a[2]
    return ('op', '!', a)


def _subs(t):
    yield t
    if isinstance(t, tuple):
        for x in t:
            if isinstance(x, tuple):
                yield from _subs(x)


class _PosUnknown(Exception):
    pass


def f_inline_cond(f, t):
    """a condition with the fields of a single-definition aggregate local looked through (range.hi -> search(key).hi)"""
    if isinstance(t, tuple):
        if t and t[0] == 'local' and len(t) == 3 and f.single_def(t[2]):
            it = f.term(f.single_def(t[2]), inline=True)
            if it[0] == 'call' and str(it[1]).endswith('::search'):
                return it
            return t
        return tuple(f_inline_cond(f, x) for x in t)
    return t


def _replace_term(t, old, new):
    if t == old:
        return new
    if isinstance(t, tuple):
        return tuple(_replace_term(x, old, new) for x in t)
    return t


def _arg_node(f, r, k):
    """node of the k-th argument of the search call a return statement returns"""
    e = f.strip(f.n(r)['ch'][0], casts=True)
    nd = f.n(e)
    if nd['c'] == 'InlinedCall' and nd.get('value', ('x',))[0] == 'one':
        e = f.strip(nd['value'][1], casts=True)
        nd = f.n(e)
    return nd['args'][k]


def _search_kind_of_start(f, v):
    """kind of the search a local is defined by: it = std::upper_bound(...), or pos = size_t(std::upper_bound(...) - begin())"""
    init = f.single_def(v[2]) if v[0] == 'local' and len(v) == 3 else None
    if not init:
        return None
    t = strip_cast(f.term(init, inline=True))
    while t[0] == 'cast':
        t = strip_cast(t[2])
    k = kinds.kind_of_term(t)
    if k:
        return k
    if t[0] == 'op' and len(t) == 4 and t[1] == '-':
        b = strip_cast(t[3])
        if b[0] == 'call' and str(b[1]).endswith('::begin') and not b[2]:
            return kinds.kind_of_term(strip_cast(t[2]))
    if t[0] == 'call' and t[1] == 'std::distance' and len(t[2]) == 2:
        b = strip_cast(t[2][0])
        if b[0] == 'call' and str(b[1]).endswith('::begin') and not b[2]:
            return kinds.kind_of_term(strip_cast(t[2][1]))
    return None


def _ev_early(t, it, END, keys, a, b, hi0=None):
    """evaluate a condition built from (it == end()), (*it == key) and their negations / comparisons under a = [it == end()],
    b = [*it == key]; *it > key is taken as not b (the data is sorted and everything before it is <= key)"""
    t = strip_cast(t)
    if t[0] == 'un' and t[1] == '!':
        return not _ev_early(t[2], it, END, keys, a, b, hi0)
    if t[0] == 'op' and len(t) == 4 and t[1] in ('&&', '||'):
        x = _ev_early(t[2], it, END, keys, a, b, hi0)
        if t[1] == '&&' and not x:
            return False
        if t[1] == '||' and x:
            return True
        return _ev_early(t[3], it, END, keys, a, b, hi0)
    if t[0] == 'op' and len(t) == 4 and t[1] in ('==', '!=', '<', '>', '<=', '>='):
        l, r, o = strip_cast(t[2]), strip_cast(t[3]), t[1]
        while l[0] == 'cast':
            l = strip_cast(l[2])
        while r[0] == 'cast':
            r = strip_cast(r[2])
        if {l, r} == {it, END} and o in ('==', '!='):
            return a if o == '==' else not a
        is_size = lambda x: x[0] == 'call' and str(x[1]).endswith(('::size', '::end')) and not x[2]
        if o in ('==', '!=') and ((l == it and is_size(r)) or (r == it and is_size(l))):
            return a if o == '==' else not a        # pos == size(): the integer position of end()
        if hi0 is not None and ((o == '<' and l == it and r == hi0) or (o == '>' and r == it and l == hi0)):
            # the position found is strictly inside the window that was searched: a greater element exists there, so *it > key
            return not b
        if r == ('deref', it) and l in keys:
            l, r, o = r, l, {'<': '>', '>': '<', '<=': '>=', '>=': '<=', '==': '==', '!=': '!='}[o]
        if l == ('deref', it) and r in keys:
            return {'==': b, '!=': not b, '>': not b, '<=': b}.get(o) if o in ('==', '!=', '>', '<=') else (_ for _ in ()).throw(_PosUnknown(fmt_term(t)))
    raise _PosUnknown(fmt_term(t)[:50])


def _pos(f, t, itv, step, END, depth=0):
    """Position of an iterator or integer term as a piecewise-linear form over P (the position of the gallop start: the iterator
    `it`, or the integer `pos` when the search is written on indices), S (= step) and E (= end - start):
    ('lin', cP, cS, cE, k) | ('min', a, b).  begin() -> 0; it / pos -> P; end() and size() -> P + E; it + x, first + x, x + y,
    std::distance(a, b) = b - a, std::min; single-definition locals are looked through.  Anything else raises _PosUnknown."""
    if depth > 14:
        raise _PosUnknown('deep')
    t = strip_cast(t)
    while t[0] == 'cast':
        t = strip_cast(t[2])
    if t == itv:
        return ('lin', 1, 0, 0, 0)
    if t == step:
        return ('lin', 0, 1, 0, 0)
    if t == END or (t[0] == 'call' and t[1] in (M + '::end', M + '::size') and not t[2]):
        return ('lin', 1, 0, 1, 0)
    if t[0] == 'call' and t[1] == M + '::begin' and not t[2]:
        return ('lin', 0, 0, 0, 0)
    if t[0] == 'lit' and isinstance(t[1], int):
        return ('lin', 0, 0, 0, t[1])
    if t[0] == 'local' and len(t) == 3:
        init = f.single_def(t[2])
        if init:
            return _pos(f, f.term(init, inline=False), itv, step, END, depth + 1)
        raise _PosUnknown(fmt_term(t))
    if t[0] == 'call' and t[1] == 'std::distance' and len(t[2]) == 2:
        a, b = _pos(f, t[2][0], itv, step, END, depth + 1), _pos(f, t[2][1], itv, step, END, depth + 1)
        return _pl_sub(b, a)
    if t[0] == 'call' and t[1] == 'std::min' and len(t[2]) == 2:
        return ('min', _pos(f, t[2][0], itv, step, END, depth + 1), _pos(f, t[2][1], itv, step, END, depth + 1))
    if t[0] == 'call' and t[1] in ('std::next',) and len(t[2]) in (1, 2):
        a = _pos(f, t[2][0], itv, step, END, depth + 1)
        b = _pos(f, t[2][1], itv, step, END, depth + 1) if len(t[2]) == 2 else ('lin', 0, 0, 0, 1)
        return _pl_add(a, b)
    if t[0] == 'op' and len(t) == 4 and t[1] in ('+', '-'):
        a, b = _pos(f, t[2], itv, step, END, depth + 1), _pos(f, t[3], itv, step, END, depth + 1)
        return _pl_add(a, b) if t[1] == '+' else _pl_sub(a, b)
    raise _PosUnknown(fmt_term(t)[:50])


def _pl_add(a, b):
    if a[0] == 'lin' and b[0] == 'lin':
        return ('lin',) + tuple(x + y for x, y in zip(a[1:], b[1:]))
    if a[0] == 'min' and b[0] == 'lin':
        return ('min', _pl_add(a[1], b), _pl_add(a[2], b))
    if b[0] == 'min' and a[0] == 'lin':
        return ('min', _pl_add(a, b[1]), _pl_add(a, b[2]))
    raise _PosUnknown('min + min')


def _pl_sub(a, b):
    if b[0] != 'lin':
        raise _PosUnknown('- min')
    return _pl_add(a, ('lin',) + tuple(-x for x in b[1:]))


_P_S = ('lin', 1, 1, 0, 0)       # start + step
_P_E = ('lin', 1, 0, 1, 0)       # end
_P_0 = ('lin', 1, 0, 0, 0)       # start


def _pl_is_min_S_E(p):
    return p[0] == 'min' and {p[1], p[2]} == {_P_S, _P_E}


def _cmp_is_S_lt_E(f, a, itv, step, END):
    """True / False / None: is the comparison atom equivalent to start + S < end, i.e. S < E (the probed position is inside the
    data)?  (over the integers a <= b is a < b + 1)"""
    if not (a[0] == 'op' and len(a) == 4 and a[1] in ('<', '<=', '>', '>=', '!=', '==')):
        return None
    try:
        l, r = _pos(f, a[2], itv, step, END), _pos(f, a[3], itv, step, END)
        d = _pl_sub(l, r) if r[0] == 'lin' else None
    except _PosUnknown:
        return None
    if d is None or d[0] != 'lin':
        return None
    op = a[1]
    cP, cS, cE, k = d[1], d[2], d[3], d[4]
    if cP != 0:
        return None
    if op in ('>', '>='):
        cS, cE, k, op = -cS, -cE, -k, {'>': '<', '>=': '<='}[op]
    if op == '<=':
        k, op = k - 1, '<'
    if op != '<':
        return False if (cS, cE) in ((1, -1), (-1, 1)) else None
    if (cS, cE) == (1, -1):
        return k == 0
    return None


def rules_c11(ctx):
    """clause-level rules for the multiset queries of MappedPGMIndex"""
    obs = []
    for f in ctx.need(M + '::lower_bound', ctx.units):
        KEY = ('param', f.params[0]['name'])
        for r in f.returns():
            k = kinds.kind_of_term(f.term(f.n(r)['ch'][0], inline=True))
            ok = bool(k) and k[0] == 'FIRST_GE' and k[1] == KEY and _pgm_range_ok(k, KEY)
            obs.append(Ob('KIND', f, r, 'lower_bound(key) is FIRST_GE(key) inside the range search(key) returned (begin() + lo, begin() + hi)',
                          f"{k[0] if k else 'unknown'} over [{fmt_term(k[2])[:50] if k else '?'}, {fmt_term(k[3])[:50] if k else '?'})",
                          OK if ok else (UNDECIDED if k is None else VIOLATED), arm='lower_bound'))
    for f in ctx.need(M + '::contains', ctx.units):
        KEY = ('param', f.params[0]['name'])
        g = graph(f)
        for r in f.returns():
            t = f.term(f.n(r)['ch'][0], inline=True)
            if t[0] == 'call' and t[1] == 'std::binary_search':
                ok = len(t[2]) == 3 and t[2][2] == KEY and _pgm_range_ok(('x', KEY, t[2][0], t[2][1]), KEY)
                obs.append(Ob('KIND', f, r, 'contains(key) is std::binary_search for key inside the range search(key) returned', fmt_term(t)[:120], OK if ok else VIOLATED, arm='contains'))
                continue
            # the definition of binary_search written out: it = FIRST_GE(key) in the range; false if it is the end of the range,
            # otherwise !(key < *it) (equivalently *it == key, since *it >= key)
            ts = strip_cast(t)
            st, why = UNDECIDED, 'unrecognised: ' + fmt_term(t)[:100]

            def lb_of(x):
                k = kinds.kind_of_term(strip_cast(x))
                return k if k and k[0] == 'FIRST_GE' and k[1] == KEY and _pgm_range_ok(k, KEY) else None

            def eq_atom(a):
                a = strip_cast(a)
                neg = False
                while a[0] == 'un' and a[1] == '!':
                    neg = not neg
                    a = strip_cast(a[2])
                if a[0] == 'op' and len(a) == 4:
                    l, r_, o = strip_cast(a[2]), strip_cast(a[3]), a[1]
                    if r_[0] == 'deref':
                        l, r_, o = r_, l, {'<': '>', '>': '<', '<=': '>=', '>=': '<='}.get(o, o)
                    if l[0] == 'deref' and r_ == KEY and lb_of(l[1]):
                        eff = {'==': '==', '!=': '!=', '>': '>', '<=': '<='}.get(o)
                        if neg:
                            eff = {'==': '!=', '!=': '==', '>': '<=', '<=': '>'}.get(eff)
                        # with *it >= key: (== key) <=> (<= key) <=> !(> key)
                        if eff in ('==', '<='):
                            return True
                        if eff in ('!=', '>'):
                            return False
                return None
            if ts == ('lit', 1):
                # `return true` under a comparison of one stored element with key proves membership - provided the element exists.
                # search(key).pos and .hi can be n (for keys above the last one): reading begin()[pos] then reads *end().
                deps = [(strip_cast(f.term(g.cond(b), inline=True)), lab) for (b, lab) in g.transitive_control_deps(f.block_of(r)[0]) if g.cond(b) and g.blocks[b].get('term_c') == 'IfStmt']
                SRCH = ('call', 'pgm::PGMIndex::search', (KEY,), THIS)
                for (ct, lab) in deps:
                    if lab is True and ct[0] == 'op' and ct[1] == '==' and len(ct) == 4 and KEY in (strip_cast(ct[2]), strip_cast(ct[3])):
                        el = strip_cast(ct[3]) if strip_cast(ct[2]) == KEY else strip_cast(ct[2])
                        idx = None
                        if el[0] == 'index' and strip_cast(el[1]) == ('call', M + '::begin', (), THIS):
                            idx = strip_cast(el[2])
                        elif el[0] == 'deref' and strip_cast(el[1])[0] == 'op' and strip_cast(el[1])[1] == '+' and strip_cast(strip_cast(el[1])[2]) == ('call', M + '::begin', (), THIS):
                            idx = strip_cast(strip_cast(el[1])[3])
                        if idx is not None and idx[0] == 'field' and idx[1] in ('pos', 'hi') and strip_cast(idx[2]) == SRCH:
                            bounded = any(any(x[0] == 'call' and x[1] in (M + '::size', M + '::end') for x in _subs(c2)) or any(x == ('field', 'n', THIS) for x in _subs(c2)) for (c2, l2) in deps if c2 is not ct)
                            if not bounded:
                                st, why = VIOLATED, f"`{fmt_term(ct)[:70]}` reads the element at search(key).{idx[1]}, which is n for a key above the last one: the element does not exist"
                            break
            elif ts == ('lit', 0):
                # `return false` only where the position is the end of the searched range
                deps = [(strip_cast(f.term(g.cond(b), inline=True)), lab) for (b, lab) in g.transitive_control_deps(f.block_of(r)[0]) if g.cond(b) and g.blocks[b].get('term_c') == 'IfStmt']
                good = False
                for (ct, lab) in deps:
                    if ct[0] == 'op' and ct[1] in ('==', '!=') and len(ct) == 4 and (ct[1] == '==') == (lab is True):
                        a_, b_ = strip_cast(ct[2]), strip_cast(ct[3])
                        for x, y in ((a_, b_), (b_, a_)):
                            kx = lb_of(x)
                            if kx and strip_cast(kx[3]) == y:
                                good = True
                st, why = (OK, 'false where the lower-bound position is the end of the searched range') if good else (UNDECIDED, 'constant false under an unrecognised condition')
            else:
                parts = _conj(ts)
                vals = [eq_atom(p_) for p_ in parts]
                ends = []
                for p_ in parts:
                    p_ = strip_cast(p_)
                    if p_[0] == 'op' and p_[1] == '!=' and len(p_) == 4:
                        for x, y in ((strip_cast(p_[2]), strip_cast(p_[3])), (strip_cast(p_[3]), strip_cast(p_[2]))):
                            kx = lb_of(x)
                            if kx and strip_cast(kx[3]) == y:
                                ends.append(p_)
                if any(v is True for v in vals) and all((v is True) or (strip_cast(p_) in ends) for v, p_ in zip(vals, parts)):
                    st, why = OK, 'the element at the lower-bound position compares equal to key'
                elif any(v is False for v in vals):
                    st, why = VIOLATED, f"`{fmt_term(t)[:80]}` is true when the element at the lower-bound position differs from key"
            obs.append(Ob('KIND', f, r, 'contains(key) is std::binary_search for key inside the range search(key) returned (or its definition written out)', why, st, arm='contains'))
    ub_jobs = []
    for f0 in ctx.need(M + '::upper_bound', ctx.units):
        KEY0 = ('param', f0.params[0]['name'])
        delegated = False
        for r in f0.returns():
            t = strip_cast(f0.term(f0.n(r)['ch'][0], inline=False))
            # `return helper(it, key)`: the gallop lives in a member helper; analyse the helper with `it` bound to the argument
            if t[0] == 'call' and t[1].startswith(M + '::') and len(t) > 3 and t[3] == THIS and not kinds.kind_of_term(t):
                for h in f0.unit.fns(t[1]):
                    if h.record == f0.record and len(h.params) == len(t[2]) and h.cfg and KEY0 in [strip_cast(a) for a in t[2]]:
                        kidx = [strip_cast(a) for a in t[2]].index(KEY0)
                        starts = {}
                        for j, a in enumerate(t[2]):
                            if j != kidx:
                                a_ = strip_cast(a)
                                ini = f0.single_def(a_[2]) if a_[0] == 'local' else None
                                starts[('param', h.params[j]['name'])] = kinds.kind_of_term(f0.term(ini, inline=True)) if ini else kinds.kind_of_term(f0.term(f0.n(r)['ch'][0], inline=True)[2][j] if False else a_)
                        ub_jobs.append((h, ('param', h.params[kidx]['name']), KEY0, starts))
                        delegated = True
                        break
        if not delegated:
            ub_jobs.append((f0, KEY0, KEY0, {}))
    for (f, KEY, KEY_outer, starts) in ub_jobs:
        g = graph(f)
        END = ('call', M + '::end', (), THIS)
        def _named(t):
            # a window bound held in a single-definition local (auto probe_first = it + step / 2)
            t = strip_cast(t)
            n_ = 0
            while t[0] == 'local' and len(t) == 3 and f.single_def(t[2]) and n_ < 4:
                t2 = strip_cast(f.term(f.single_def(t[2]), inline=False))
                if kinds.kind_of_term(t2):
                    break       # the gallop start itself (it = std::upper_bound(...)) stays a variable
                t, n_ = t2, n_ + 1
            return t
        own = [r_ for r_ in f.returns() if f.n(r_)['ch']]
        multi = any(strip_cast(f.term(f.n(r_)['ch'][0], inline=False))[0] in ('phi', 'cond') for r_ in own)
        # the returns of an inlined helper are examined one by one only when its value is not a single expression
        for r in own + ([r_ for r_ in f.all_ids() if f.n(r_)['c'] == 'InlinedReturn' and f.n(r_)['ch']] if multi else []):
            if f.n(r)['c'] == 'ReturnStmt' and strip_cast(f.term(f.n(r)['ch'][0], inline=False))[0:1] == ('phi',):
                continue        # the value of an inlined helper with several returns: each of them is examined on its own
            rt = strip_cast(f.term(f.n(r)['ch'][0], inline=False))
            k = kinds.kind_of_term(rt)
            rt0 = rt
            if not k and rt[0] == 'op' and len(rt) == 4 and rt[1] == '+':
                # `return first + pos;` on indices: the start is the integer position of the search result
                for base_, off_ in ((strip_cast(rt[2]), strip_cast(rt[3])), (strip_cast(rt[3]), strip_cast(rt[2]))):
                    try:
                        if off_[0] == 'local' and len(off_) == 3 and _search_kind_of_start(f, off_) and _pos(f, base_, off_, ('none',), END) == ('lin', 0, 0, 0, 0):
                            rt = off_
                    except _PosUnknown:
                        pass
            if not k and rt[0] == 'local' and len(rt) == 3 and f.single_def(rt[2]):
                # `return it;` before the gallop: it = FIRST_GT/FIRST_GE(key) inside the PGM range is the answer when it is end()
                # or its element differs from key (everything before it is <= key, and a different element at it is greater)
                k0_ = _search_kind_of_start(f, rt)
                hi0_ = None
                if k0_:
                    # the end of the window that search ran over, as an integer position (begin() + range.hi -> range.hi)
                    h_ = strip_cast(k0_[3])
                    if h_[0] == 'op' and len(h_) == 4 and h_[1] == '+':
                        hb_, ho_ = strip_cast(h_[2]), strip_cast(h_[3])
                        if hb_[0] == 'call' and str(hb_[1]).endswith('::begin'):
                            hi0_ = ho_
                            while hi0_[0] == 'cast':
                                hi0_ = strip_cast(hi0_[2])
                if k0_ and k0_[0] in ('FIRST_GT', 'FIRST_GE') and k0_[1] in (KEY, KEY_outer) and _pgm_range_ok(k0_, k0_[1]):
                    A = ('op', '==', rt, END)
                    dec = None
                    rb_ = f.block_of(r)
                    if rb_ is None and f.n(r)['c'] in ('ReturnStmt', 'InlinedReturn'):
                        rb_ = f.block_of(f.n(r)['ch'][0])
                    deps_ = [(f.term(g.cond(b_), inline=False), lab_, g.cond(b_)) for (b_, lab_) in g.transitive_control_deps(rb_[0])
                             if g.cond(b_) and g.blocks[b_].get('term_c') == 'IfStmt'] if rb_ else []
                    for (t, lab, cn) in deps_:
                        # truth table over a = (it == end()), b = (*it == key): the path condition must imply a or not b
                        try:
                            ok_all = True
                            for a_, b_ in ((False, True),):
                                if _ev_early(strip_cast(f_inline_cond(f, t)), rt, END, (KEY, KEY_outer), a_, b_, hi0_ if rt is not rt0 else None) == lab:
                                    ok_all = False      # the path is taken with it != end() and *it == key: the run may continue
                            dec = ok_all if dec is None else (dec or ok_all)
                        except _PosUnknown:
                            pass
                    obs.append(Ob('KIND', f, r, 'upper_bound(key) is FIRST_GT(key): the position found inside the PGM range is returned without galloping only when it is end() or its element differs from key',
                                  f"`return {rt[1]}` " + ('under a test that excludes *it == key' if dec else 'on a path on which *it may equal key (the run of duplicates may continue past the window)'),
                                  OK if dec else (UNDECIDED if dec is None else VIOLATED), arm='upper_bound'))
                    continue
            if not k:
                if f.n(r)['c'] == 'ReturnStmt' and rt[0] in ('cond', 'void'):
                    continue
                obs.append(Ob('KIND', f, r, 'upper_bound(key) is FIRST_GT(key)', 'unrecognised search', UNDECIDED, arm='upper_bound'))
                continue
            ok = k[0] == 'FIRST_GT' and k[1] in (KEY, KEY_outer)
            # window: [it + step/2, min(it + step, end())) with it = FIRST_GT(key) inside the PGM range
            lo, hi = _named(k[2]), _named(k[3])
            itv = k0 = None
            index_mode = False
            if lo[0] == 'op' and lo[1] == '+' and lo[2][0] in ('local', 'param') and strip_cast(lo[3])[0] == 'op' and strip_cast(lo[3])[1] == '/' and strip_cast(lo[3])[3] == ('lit', 2):
                itv, step = lo[2], strip_cast(strip_cast(lo[3])[2])
            if itv is None:
                # any other spelling of start + step / 2 - in particular on indices: first + (pos + step / 2) with pos the integer
                # position of the FIRST_GT/FIRST_GE result.  The half step is removed and the rest must be the position of a local
                # whose definition is such a search.
                lo_full = _named(f.term(f.n(f.n(r)['ch'][0])['args'][0], inline=True)) if False else lo
                halves = [x for x in _subs(lo) if isinstance(x, tuple) and len(x) == 4 and x[0] == 'op' and x[1] == '/' and x[3] == ('lit', 2) and strip_cast(x[2])[0] == 'local']
                if not halves:
                    # the bounds may be bindings of a helper's pair: look through them
                    try:
                        lo2 = strip_cast(f.term(_arg_node(f, r, 0), inline=True))
                        hi2 = strip_cast(f.term(_arg_node(f, r, 1), inline=True))
                        # the expansion also replaced the start variable by its defining search: put the variable back
                        for vid_, d_ in f.defs.items():
                            v_ = ('local', d_.get('name'), vid_)
                            if d_.get('param') or not d_.get('init') or _search_kind_of_start(f, v_) is None:
                                continue
                            exp_ = f.term(d_['init'], inline=True)
                            for e_ in (exp_, strip_cast(exp_)):
                                lo2, hi2 = _replace_term(lo2, e_, v_), _replace_term(hi2, e_, v_)
                        halves = [x for x in _subs(lo2) if isinstance(x, tuple) and len(x) == 4 and x[0] == 'op' and x[1] == '/' and x[3] == ('lit', 2) and strip_cast(x[2])[0] == 'local']
                        if halves:
                            lo, hi = lo2, hi2
                    except Exception:
                        halves = []
                if halves:
                    step_c = strip_cast(halves[0][2])
                    lo0 = _replace_term(lo, halves[0], ('lit', 0))
                    cands = []
                    for vid_, d_ in f.defs.items():
                        if d_.get('param') or not d_.get('init') or vid_ == step_c[2]:
                            continue
                        v_ = ('local', d_['name'], vid_)
                        if _search_kind_of_start(f, v_) is None:
                            continue
                        try:
                            if _pos(f, lo0, v_, step_c, END) == _P_0:
                                cands.append(v_)
                        except _PosUnknown:
                            pass
                    if len(cands) == 1:
                        itv, step = cands[0], step_c
                        index_mode = True
            win_ok = False
            start_ok = False
            gal_ok = None
            hi_ok = None
            step_ok = None
            why = f"unrecognised window start `{fmt_term(lo)[:60]}`"
            if itv is None and lo[0] == 'op' and lo[1] == '+' and lo[2][0] == 'local' and strip_cast(lo[3])[0] == 'local' and strip_cast(lo[3]) in map(strip_cast, _subs(hi)):
                # `it + step`: the element at it (and those before it + step) may already be greater than key
                hi_ok = False
                why = f"window start `{fmt_term(lo)[:60]}` skips positions that were never compared with key (the last proven `== key` position is it + step / 2)"
            if itv is not None:
                # step: starts at 1 and only doubles, so that step / 2 is the last probed (== key) offset, or 0
                d = f.defs.get(step[2]) if step[0] == 'local' else None
                if d and d.get('init'):
                    i0 = strip_cast(f.term(d['init'], inline=True))
                    ws = [strip_cast(f.term(w, inline=False)) for w in d['writes']]
                    dbl = [w for w in ws if w in (('op', '*=', step, ('lit', 2)), ('op', '<<=', step, ('lit', 1)), ('op', '+=', step, step),
                                                  ('op', '=', step, ('op', '*', step, ('lit', 2))), ('op', '=', step, ('op', '*', ('lit', 2), step)))]
                    if i0 == ('lit', 1) and ws and len(dbl) == len(ws):
                        step_ok = True
                    elif i0[0] == 'lit' and all(w[0] == 'op' and w[1] in ('*=', '<<=', '+=', '=') for w in ws):
                        step_ok = False
                        why = f"step starts at {fmt_term(i0)} and is updated by `{'; '.join(fmt_term(w) for w in ws)[:60]}`: `step / 2` is the last probed offset only if step starts at 1 and doubles"
                if hi[0] == 'call' and hi[1] == 'std::min' and len(hi[2]) == 2 and set(map(strip_cast, hi[2])) == {('op', '+', itv, step), END}:
                    hi_ok = True
                elif hi == END:
                    hi_ok = True    # [.., end()) is a valid (slower) window
                elif hi == ('op', '+', itv, step):
                    hi_ok = False   # after the loop it + step may be past end()
                else:
                    # any other spelling: its position as a piecewise-linear form over P (start), S (step) and E (end - start)
                    try:
                        ph = _pos(f, hi, itv, step, END)
                        if _pl_is_min_S_E(ph) or ph == _P_E:
                            hi_ok = True
                        else:
                            hi_ok = False
                            hi_form = ph
                    except _PosUnknown:
                        hi_ok = None
                if itv[0] == 'param':
                    k0 = starts.get(itv)      # the kind of the argument the caller passes for `it`
                    kk = KEY_outer
                else:
                    k0 = _search_kind_of_start(f, itv)
                    kk = KEY
                # FIRST_GE is as good a start as FIRST_GT: either way everything before `it` is <= key and *it >= key
                start_ok = bool(k0) and k0[0] in ('FIRST_GT', 'FIRST_GE') and k0[1] == kk and _pgm_range_ok(k0, kk)
                # gallop loop: continue while (it + step < end()) && (*(it + step) == key), doubling the step
                NEXT = ('op', '+', itv, step)
                for b in g.reach:
                    c = g.cond(b)
                    if not (c and g.blocks[b].get('term_c') in ('WhileStmt', 'ForStmt')):
                        continue
                    atoms = _conj(strip_cast(f.term(c, inline=False)))
                    PROBES = (('deref', NEXT), ('index', itv, step))
                    def _is_probe(x):
                        x = strip_cast(x)
                        if x in PROBES:
                            return True
                        if x[0] == 'index' and strip_cast(x[1]) == itv and strip_cast(x[2]) == step:
                            return True
                        # any element access whose position is start + step: *(first + (pos + step)), first[pos + step]
                        try:
                            if x[0] == 'deref':
                                return _pos(f, x[1], itv, step, END) == _P_S
                            if x[0] == 'index':
                                return _pl_add(_pos(f, x[1], itv, step, END), _pos(f, x[2], itv, step, END)) == _P_S
                        except _PosUnknown:
                            return False
                        return False
                    pi = next((i for i, a in enumerate(atoms) if a[0] == 'op' and len(a) == 4 and (_is_probe(a[2]) or _is_probe(a[3]))), None)
                    if pi is None:
                        continue
                    probe = atoms[pi]
                    pl, pr, pop = strip_cast(probe[2]), strip_cast(probe[3]), probe[1]
                    if pl == KEY:
                        pl, pr, pop = pr, pl, {'<': '>', '>': '<', '<=': '>=', '>=': '<='}.get(pop, pop)
                    p_ok = pr == KEY and pop in ('==', '<=')
                    p_known = pr == KEY and pop in ('==', '<=', '<', '>', '>=', '!=')
                    guards = [a for a in atoms[:pi] if END in _subs(a)]
                    late = [a for a in atoms[pi + 1:] if END in _subs(a)]
                    b_ok = None
                    # a bound spelled with offsets (step < remaining, step <= max_step): decided on the position algebra
                    for a in atoms[:pi]:
                        v = _cmp_is_S_lt_E(f, a, itv, step, END)
                        if v is True:
                            b_ok = True
                            if a not in guards:
                                guards.append(a)
                        elif v is False and a not in guards:
                            guards.append(a)
                            b_ok = False if b_ok is None else b_ok
                            why = f"the probe is guarded by `{fmt_term(a)[:60]}`, which is not equivalent to it + step < end()"
                    for a in atoms[pi + 1:]:
                        if _cmp_is_S_lt_E(f, a, itv, step, END) is not None and a not in late:
                            late.append(a)
                    for a in ([] if b_ok else guards):
                        if a[0] == 'op' and len(a) == 4:
                            l, rr, o = strip_cast(a[2]), strip_cast(a[3]), a[1]
                            if l == END:
                                l, rr, o = rr, l, {'<': '>', '>': '<', '<=': '>=', '>=': '<='}.get(o, o)
                            if l == NEXT and rr == END and o == '<':
                                b_ok = True
                            elif l == NEXT and rr == END and o in ('<=', '!=', '>', '>=', '=='):
                                b_ok = False if b_ok is None else b_ok
                                why = f"the probe `*(it + step)` is guarded by `{fmt_term(a)[:60]}`, which admits it + step == end()"
                    if b_ok is None and not guards:
                        b_ok = False
                        why = (f"the probe `*(it + step)` is evaluated before the bound `{fmt_term(late[0])[:50]}`" if late else
                               "the probe `*(it + step)` is not guarded by `it + step < end()`") + f": `{fmt_term(f.term(c, inline=False))[:90]}`"
                    if b_ok is None:
                        gal_ok = None  # a bound on end() in a form this rule does not know
                        why = f"unrecognised bound on the probe: `{fmt_term(f.term(c, inline=False))[:90]}`"
                    elif not b_ok:
                        gal_ok = False
                    elif not p_known:
                        gal_ok = None
                        why = f"unrecognised probe test `{fmt_term(probe)[:60]}`"
                    elif not p_ok:
                        gal_ok = False
                        why = f"the gallop continues on `{fmt_term(probe)[:60]}`: for FIRST_GT the window may only grow while the probed element is <= key"
                    else:
                        gal_ok = True
                win_ok = bool(hi_ok and start_ok and gal_ok and step_ok)
                if win_ok:
                    why = 'it = FIRST_GT(key) in the PGM range; window [it + step/2, min(it + step, end())) grown while the probe is in range and equals key'
                elif hi_ok is None:
                    why = f"unrecognised window end `{fmt_term(hi)[:70]}`"
                elif not hi_ok:
                    why = f"window end `{fmt_term(hi)[:70]}` is not min(it + step, end())"
                elif not start_ok:
                    why = f"the gallop does not start from FIRST_GT(key)/FIRST_GE(key) inside search(key): {k0[0] if k0 else 'unknown'}"
            obs.append(Ob('KIND', f, r, 'upper_bound(key) is FIRST_GT(key), galloping past duplicates from the FIRST_GT position inside the PGM range, each probe bounded by end()',
                          why, OK if (ok and win_ok) else (UNDECIDED if ok and (itv is None or None in (gal_ok, hi_ok, step_ok) or (k0 is None and not start_ok)) and False not in (gal_ok, hi_ok, step_ok) else VIOLATED), arm='upper_bound'))
    for f in ctx.need(M + '::count', ctx.units):
        g = graph(f)
        KEY = ('param', f.params[0]['name'])
        END = ('call', M + '::end', (), THIS)
        LB = ('call', M + '::lower_bound', (KEY,), THIS)
        UB = ('call', M + '::upper_bound', (KEY,), THIS)

        def absent_atom(a):
            """True: the atom implies `key is not stored`; False: a recognised atom that does not; None: unknown"""
            a = strip_cast(a)
            if not (a[0] == 'op' and len(a) == 4):
                return None
            l, r, o = strip_cast(a[2]), strip_cast(a[3]), a[1]
            if r == LB or l == KEY:
                l, r, o = r, l, {'<': '>', '>': '<', '<=': '>=', '>=': '<='}.get(o, o)
            if l == LB and r == END:
                return o == '=='
            if l == ('deref', LB) and r == KEY:
                return o in ('!=', '>')      # FIRST_GE never points below key, so `>` and `!=` agree
            return None

        n_zero = 0
        for r in f.returns():
            t = strip_cast(f.term(f.n(r)['ch'][0], inline=True))
            if t == ('lit', 0):
                # a constant 0 may only be returned where the path condition implies that key is absent
                n_zero += 1
                verdict, why = None, 'no controlling condition'
                for (b, lab) in g.transitive_control_deps(f.block_of(r)[0]):
                    c = g.cond(b)
                    # only whole `if` conditions: the short-circuit blocks of `a || b` are alternatives, not conjuncts
                    if not c or g.blocks[b].get('term_c') != 'IfStmt':
                        continue
                    ct = strip_cast(f.term(c, inline=True))
                    why = fmt_term(f.term(c, inline=False))[:100]
                    if lab is True:
                        vs = [absent_atom(a) for a in _disj(ct)]
                        v = None if None in vs else all(vs)
                    else:
                        # `if (lb != end() && *lb == key) return distance; return 0` : the negation of a conjunction
                        vs = [absent_atom(_negate(a)) for a in _conj(ct)]
                        v = None if None in vs else all(vs)
                    if v is True:
                        verdict = True
                        break
                    if v is False and verdict is None:
                        verdict = False
                obs.append(Ob('KIND', f, r, 'count(key) returns the constant 0 only where the path condition implies that key is not stored (lower_bound(key) == end() or *lower_bound(key) != key)',
                              why, OK if verdict else (UNDECIDED if verdict is None else VIOLATED), arm='count:zero'))
            elif t[0] == 'call' and t[1] == 'std::distance' and len(t[2]) == 2:
                a, b2 = strip_cast(t[2][0]), strip_cast(t[2][1])
                obs.append(Ob('KIND', f, r, 'count(key) is distance(lower_bound(key), upper_bound(key))', fmt_term(t)[:100], OK if (a, b2) == (LB, UB) else VIOLATED, arm='count:distance'))
            elif t[0] == 'op' and t[1] == '-' and {strip_cast(t[2]), strip_cast(t[3])} == {LB, UB}:
                obs.append(Ob('KIND', f, r, 'count(key) is upper_bound(key) - lower_bound(key)', fmt_term(t)[:100], OK if strip_cast(t[2]) == UB else VIOLATED, arm='count:distance'))
            else:
                obs.append(Ob('KIND', f, r, 'count(key) is distance(lower_bound(key), upper_bound(key))', 'unrecognised: ' + fmt_term(t)[:100], UNDECIDED, arm='count:distance'))
    for name, want in (('size', ('field', 'n', THIS)), ('end', ('op', '+', ('call', M + '::begin', (), THIS), ('call', M + '::size', (), THIS)))):
        for f in ctx.need(M + '::' + name, ctx.units):
            for r in f.returns():
                t = strip_cast(f.term(f.n(r)['ch'][0], inline=True))
                obs.append(Ob('DERIVED', f, r, f"{name}() is {fmt_term(want)}", fmt_term(t)[:80], OK if t == want else VIOLATED, arm=name))
    for f in ctx.need(M + '::begin', ctx.units):
        for r in f.returns():
            t = f.term(f.n(r)['ch'][0], inline=True)
            inner = strip_cast(t)
            st = UNDECIDED
            found = fmt_term(t)[:90]
            if inner[0] == 'op' and inner[1] == '+':
                a, b = inner[2], strip_cast(inner[3])
                if strip_cast(a) == ('field', 'data', THIS) and b == ('field', 'header_bytes', THIS):
                    # the offset is in bytes: the pointer it is added to must have a one-byte pointee (the type of the
                    # left operand of `+` in the AST, whatever casts produced it)
                    i = f.n(r)['ch'][0]
                    while f.n(i)['c'] in ('ImplicitCastExpr', 'ParenExpr', 'CStyleCastExpr', 'CXXReinterpretCastExpr', 'CXXStaticCastExpr', 'CXXFunctionalCastExpr'):
                        i = f.n(i)['ch'][0]
                    ty = f.unit.tstr(f.n(f.n(i)['ch'][0]).get('t', 0)) if f.n(i)['c'] == 'BinaryOperator' else '?'
                    byte = ty.replace('const ', '').strip() in ('char *', 'unsigned char *', 'signed char *', 'std::byte *', 'uint8_t *', 'void *')
                    st = OK if byte else (VIOLATED if ty != '?' else UNDECIDED)
                    if not byte:
                        found = f"header_bytes is added to a `{ty}`: the offset is scaled by the pointee size"
            obs.append(Ob('DERIVED', f, r, 'begin() is the mapping base plus header_bytes bytes', found, st, arm='begin'))
    return obs
