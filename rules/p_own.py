"""C19: OWN-ALIAS (copies/moves never refer to storage owned by the source) and FIELD-COVER (user-provided copy
and move operations transfer every field).

Every record reachable from the six listed index classes through fields, bases and container element types is
classified:

  value      arithmetic / enum fields, user-supplied template types, owning std containers of values, records all
             of whose components are values
  aliasing   a copy of the record refers to storage of its source: a raw pointer or reference component that the
             record's copy operations duplicate (implicitly, by default, or by an explicit pointer copy)

A record that holds a component of an aliasing type (e.g. a select support bound to a sibling bit vector) is a
value only if every copy/move operation it provides re-targets that component to its own member after the last
write to it (`F.set_vector(&own)`, `init_support(F, &own)`, or delegation to another verified operation);
otherwise the record is aliasing itself and the verdict propagates upwards.  A listed class that is aliasing is a
violation naming the innermost record, field and operation.  An owning raw pointer (sdsl::int_vector::m_data) is
a value when no copy operation copies the pointer and every move operation that takes it nulls the source.
"""
from cfg import graph
from common import Ob, OK, VIOLATED, UNDECIDED, AnalysisBroken
from ir import fmt_term

LISTED = ['pgm::PGMIndex', 'pgm::CompressedPGMIndex', 'pgm::BucketingPGMIndex', 'pgm::EliasFanoPGMIndex',
          'pgm::MultidimensionalPGMIndex', 'pgm::DynamicPGMIndex']

# std records that own their elements (copy = deep copy of the template-argument types)
STD_OWNING = ('std::vector', 'std::basic_string', 'std::pair', 'std::tuple', 'std::set', 'std::map', 'std::array', 'std::deque',
              'std::allocator', 'std::less', 'std::char_traits', 'std::_Vector_base', 'std::multiset', 'std::list', 'std::equal_to',
              'std::hash', 'std::greater', 'std::_Tuple_impl', 'std::_Head_base', 'std::__cxx11::basic_string')
OPS = ('copy_ctor', 'move_ctor', 'copy_assign', 'move_assign')
THIS = ('this',)


class Own:
    def __init__(self, unit):
        self.u = unit
        self.memo = {}
        self.obs = []
        self.opmemo = {}
        self.unused = set()

    # ---------------------------------------------------------------- helpers
    def op_fn(self, rec, op):
        sp = rec.get('special', {}).get(op)
        if not sp:
            return None, 'absent'
        fn = self.u.functions.get(sp.get('fn')) if sp.get('fn') else None
        if fn is None and sp['state'] == 'user':
            # the operation of this instantiation is not odr-used in the unit: fall back to another instantiation of
            # the same member of the same class template (same source pattern)
            for g in self.u.functions.values():
                if g.d.get('special') == op and g.record_t == rec['tname']:
                    fn = g
                    break
        return fn, sp['state']

    def all_fields(self, rec):
        """own fields plus the fields of in-scope base classes (analysed through the derived class's operations)"""
        out = list(rec.get('fields', []))
        for b in rec.get('bases', []):
            br = self.u.record_of_type(b)
            if br is not None and br.get('in_scope'):
                for f in self.all_fields(br):
                    g = dict(f)
                    g['inherited'] = br['tname']
                    out.append(g)
        return out

    def methods_reachable(self, fn, rec, depth=3):
        """fn plus methods of the same record it calls on *this (helpers like copy())"""
        out = [fn]
        seen = {fn.id}
        frontier = [fn]
        for _ in range(depth):
            nxt = []
            for f in frontier:
                for c in f.calls():
                    nd = f.n(c)
                    g = self.u.functions.get(nd.get('cd'))
                    if g is None or g.id in seen:
                        continue
                    if g.d.get('rec') == rec['id'] and not g.d.get('ctor') and g.d.get('special') is None:
                        seen.add(g.id)
                        out.append(g)
                        nxt.append(g)
            frontier = nxt
        return out

    # ---------------------------------------------------------------- classification
    def classify_type(self, tid, fld=None):
        """('value', '') or ('aliasing', reason) or ('unknown', reason)"""
        t = self.u.type(tid)
        if t is None:
            return ('unknown', 'no type')
        if t.get('ref'):
            return ('ref', 'reference')
        if t.get('ptr'):
            if fld is not None and fld.get('tpar'):
                return ('value', f"user-supplied type {fld['tpar']}")
            return ('ptr', 'raw pointer')
        if t.get('arr'):
            return self.classify_type(t['to'])
        if t.get('k') in ('int', 'bool', 'float'):
            return ('value', '')
        if t.get('k') == 'rec':
            return self.classify_record(self.u.records[t['rec']])
        if t['s'].startswith('enum ') or 'nullptr' in t['s']:
            return ('value', '')
        return ('unknown', 'type ' + t['s'][:60])

    def classify_record(self, rec):
        rid = rec['id']
        if rid in self.memo:
            return self.memo[rid]
        self.memo[rid] = ('value', 'recursion')   # cycles through references back to the owner are handled at the field
        res = self._classify_record(rec)
        self.memo[rid] = res
        return res

    def _classify_record(self, rec):
        name = rec['tname']
        if not rec.get('in_scope'):
            if rec.get('lambda'):
                return ('value', '')
            if name.startswith(STD_OWNING) or any(name == s or name.startswith(s + '::') for s in STD_OWNING):
                for tt in rec.get('targ_types', []):
                    k, why = self.classify_type(tt)
                    if k in ('ptr', 'ref'):
                        return ('aliasing', f"{name} of {self.u.tstr(tt)[:50]}")
                    if k != 'value':
                        return (k, why)
                return ('value', '')
            return ('unknown', f"external record {name} is not in the table of owning std types")
        if not rec.get('complete'):
            return ('unknown', f"incomplete record {name}")
        problems = []
        # bases behave like unnamed fields
        comps = [{'name': '<base ' + self.u.tstr(b)[:40] + '>', 't': b, 'base': True} for b in rec.get('bases', [])
                 if not (self.u.record_of_type(b) or {}).get('in_scope')] + self.all_fields(rec)
        for fld in comps:
            k, why = self.classify_type(fld['t'], fld)
            if k == 'value':
                continue
            if k == 'unknown':
                return ('unknown', f"{name}.{fld['name']}: {why}")
            if k == 'ref':
                ok, w = self.ref_field_ok(rec, fld)
                if not ok:
                    problems.append(f"{name}.{fld['name']}: {w}")
                continue
            if k == 'ptr':
                ok, w = self.owned_pointer_ok(rec, fld)
                if ok is None:
                    return ('unknown', f"{name}.{fld['name']}: {w}")
                if not ok:
                    problems.append(f"{name}.{fld['name']}: {w}")
                continue
            if k == 'aliasing':
                ok, w = self.retargets(rec, fld, why)
                if ok is None:
                    return ('unknown', f"{name}.{fld['name']}: {w}")
                if not ok:
                    problems.append(f"{name}.{fld['name']} ({why}): {w}")
                continue
        if problems:
            return ('aliasing', '; '.join(problems))
        return ('value', '')

    # ---------------------------------------------------------------- reference fields
    def ref_field_ok(self, rec, fld):
        if fld.get('base'):
            return False, 'reference base?'
        bound = fld.get('init_own_member') or fld.get('init_from_this')
        if not bound:
            return False, 'reference member not bound to the object itself by a default member initialiser'
        for op in ('copy_ctor', 'move_ctor'):
            fn, st = self.op_fn(rec, op)
            if st in ('implicit', 'defaulted'):
                return False, f"{op} is {st}: the reference is copied and keeps referring to the source's member"
            if st == 'user' and fn is not None:
                for ini in fn.d.get('inits', []):
                    if ini.get('field') == fld['name'] and ini.get('written'):
                        t = fn.term(ini['expr'], inline=True)
                        if not (t[0] == 'field' and t[2] == THIS):
                            return False, f"{op} binds the reference to `{fmt_term(t)[:60]}`"
        return True, ''

    # ---------------------------------------------------------------- owning raw pointers
    def owned_pointer_ok(self, rec, fld):
        """True: deep-owned (value). False: copies alias the source. None: cannot tell."""
        P = fld['name']
        if fld.get('base'):
            return None, 'pointer base'
        for op in OPS:
            fn, st = self.op_fn(rec, op)
            if st in ('deleted', 'absent'):
                continue
            if st in ('implicit', 'defaulted'):
                return False, f"{op} is {st}: the pointer value is duplicated"
            if fn is None:
                self.unused.add((rec['tname'], op))
                continue   # never instantiated: not reachable from any copy/move of a listed class (see rule_own_alias)
            is_copy = op.startswith('copy')
            other = fn.params[0]['name'] if fn.params else None
            takes = []
            nulls = False
            for g in self.methods_reachable(fn, rec):
                # constructor initialisers
                for ini in g.d.get('inits', []):
                    if (ini.get('field') == P or (fld.get('inherited') and 'base' in ini)) and ini.get('written'):
                        t = g.term(ini['expr'], inline=True)
                        if _mentions_other_field(t, P):
                            takes.append((g, ini['expr'], t))
                for i in g.all_ids():
                    nd = g.n(i)
                    if nd['c'] == 'BinaryOperator' and nd['op'] == '=':
                        lhs = g.term(nd['ch'][0], inline=False)
                        rhs = g.term(nd['ch'][1], inline=True)
                        if lhs == ('field', P, THIS) and _mentions_other_field(rhs, P):
                            takes.append((g, i, rhs))
                        if lhs[0] == 'field' and lhs[1] == P and lhs[2] != THIS and rhs in (('null',), ('lit', 0)):
                            nulls = True
                        if lhs[0] == 'field' and lhs[1] == P and lhs[2] != THIS and _strip(rhs) in (('null',), ('lit', 0)):
                            nulls = True
            if takes and is_copy:
                g, i, t = takes[0]
                return False, f"{op} copies the pointer itself: `{P} = {fmt_term(t)[:60]}` at {g.loc(i)}"
            if takes and not is_copy and not nulls:
                g, i, t = takes[0]
                return False, f"{op} takes the source's pointer at {g.loc(i)} without resetting the source"
        return True, ''

    # ---------------------------------------------------------------- re-targeting of aliasing components
    def retargets(self, rec, fld, why):
        """every provided copy/move operation of rec re-targets component fld to the object's own member"""
        if fld.get('base'):
            return False, 'aliasing base class (the derived class cannot re-target itself)'
        if fld.get('init_from_this') or fld.get('init_own_member'):
            # bound to the object itself by its default member initialiser: fine as long as no constructor overrides
            # the initialiser and no assignment writes the component
            bad = []
            for op in OPS:
                fn, st = self.op_fn(rec, op)
                if st in ('deleted', 'absent'):
                    continue
                if st in ('implicit', 'defaulted'):
                    bad.append(f"{op} is {st}: the component is copied from the source")
                    continue
                if fn is None:
                    self.unused.add((rec['tname'], op))
                    continue
                if any(ini.get('field') == fld['name'] and ini.get('written') for ini in fn.d.get('inits', [])):
                    bad.append(f"{op} overrides the default member initialiser")
                    continue
                if not fn.d.get('ctor'):
                    ok, w = self.op_retargets(rec, fn, fld['name'])
                    if ok is False:
                        bad.append(f"{op}: {w}")
            if bad:
                return False, '; '.join(bad)
            return True, ''
        t = self.u.type(fld['t'])
        if not (t.get('k') == 'rec' and self.u.records[t['rec']].get('in_scope')):
            return False, 'aliasing elements inside a container cannot be re-targeted by the holder'
        bad = []
        for op in OPS:
            fn, st = self.op_fn(rec, op)
            if st in ('deleted', 'absent'):
                continue
            if st in ('implicit', 'defaulted'):
                bad.append(f"{op} is {st}")
                continue
            if fn is None:
                self.unused.add((rec['tname'], op))
                continue
            ok, w = self.op_retargets(rec, fn, fld['name'])
            if ok is None:
                return None, w
            if not ok:
                bad.append(f"{op} at {fn.loc()}: {w}")
        if bad:
            return False, 'not re-targeted to the own member: ' + '; '.join(bad)
        return True, ''

    def op_retargets(self, rec, fn, F, depth=0):
        key = (fn.id, F)
        if key in self.opmemo:
            return self.opmemo[key]
        self.opmemo[key] = (False, 'recursive delegation')
        res = self._op_retargets(rec, fn, F, depth)
        self.opmemo[key] = res
        return res

    def _op_retargets(self, rec, fn, F, depth):
        if not fn.cfg:
            return None, 'no CFG'
        g = graph(fn)
        FT = ('field', F, THIS)
        writes = []      # (block, idx) positions of writes to F; entry write = (entry, -1)
        retargets = []   # positions of re-target events
        for ini in fn.d.get('inits', []):
            if ini.get('field') == F and ini.get('written'):
                t = fn.term(ini['expr'], inline=True)
                if t[0] == 'construct' and t[2] and any(_addr_of_own(a) for a in t[2]) and not any(s_[0] == 'field' and s_[2] != THIS for s_ in _subterms(t)):
                    continue        # built on the own member from the start: `F(&own_member)` reads nothing of the source
                if _mentions_other_field(t, F) or t[0] != 'construct' or len(t[2]) >= 1:
                    writes.append((g.entry, -1, 'member initialiser'))
        if fn.d.get('inits') is not None:
            for ini in fn.d.get('inits', []):
                if ini.get('delegating'):
                    return None, 'delegating constructor'
        for i in fn.all_ids():
            nd = fn.n(i)
            pos = fn.block_of(i)
            if not pos or pos[0] not in g.reach:
                continue
            c = nd['c']
            if c == 'CXXMemberCallExpr' and nd.get('obj') and fn.term(nd['obj'], inline=False) == FT:
                args = [fn.term(a, inline=True) for a in nd.get('args', [])]
                if any(_addr_of_own(a) for a in args):
                    retargets.append(pos)
                elif not nd.get('cconst'):
                    writes.append((pos[0], pos[1], f"call of {nd.get('cn')}"))
            elif c == 'CallExpr':
                args = nd.get('args', [])
                ts = [fn.term(a, inline=False) for a in args]
                if FT in ts:
                    k = ts.index(FT)
                    pm = nd.get('pmodes', [])
                    others = [fn.term(a, inline=True) for j, a in enumerate(args) if j != k]
                    if nd.get('cn') == 'init_support' and any(_addr_of_own(a) for a in others):
                        retargets.append(pos)
                    elif k < len(pm) and pm[k] in ('ref', 'ptr', 'rref'):
                        writes.append((pos[0], pos[1], f"passed to {nd.get('cn')}"))
            elif c == 'CXXOperatorCallExpr' and nd.get('op') == '=' and len(nd.get('args', [])) == 2:
                lhs = fn.term(nd['args'][0], inline=False)
                if lhs == FT:
                    writes.append((pos[0], pos[1], 'assignment'))
                elif lhs == ('deref', THIS):
                    callee = self.u.functions.get(nd.get('cd'))
                    if callee is not None and callee.d.get('rec') == rec['id'] and callee.id != fn.id:
                        ok, w = self.op_retargets(rec, callee, F, depth + 1)
                        if ok:
                            retargets.append(pos)
                        else:
                            writes.append((pos[0], pos[1], f"delegation to an operation that does not re-target ({w})"))
                    else:
                        writes.append((pos[0], pos[1], 'whole-object assignment'))
            elif c == 'BinaryOperator' and nd['op'] == '=' and fn.term(nd['ch'][0], inline=False) == FT:
                writes.append((pos[0], pos[1], 'assignment'))
        if not writes:
            return True, 'no write to the component'
        # every write must be followed, on all paths to the exit, by a re-target
        rt_by_block = {}
        for (b, k) in retargets:
            rt_by_block.setdefault(b, []).append(k)
        for (b, k, what) in writes:
            if any(k2 > k for k2 in rt_by_block.get(b, [])):
                continue
            blocked = set(rt_by_block.keys()) - {b}
            # start from the successors of b (a re-target earlier in b does not count)
            reach_exit = False
            for s in g.succ[b]:
                if s is None:
                    continue
                if s in blocked:
                    continue
                if g.exit in g.reachable_from(s, blocked=blocked) or s == g.exit:
                    reach_exit = True
            if b == g.exit:
                reach_exit = True
            if reach_exit:
                line = fn.line
                return False, f"`{F}` is written ({what}) and the function can return without re-targeting it to the own member"
        return True, ''


def _strip(t):
    while isinstance(t, tuple) and t and t[0] == 'cast':
        t = t[2]
    return t


def _subterms(t):
    if isinstance(t, tuple):
        if t and isinstance(t[0], str):
            yield t
        for x in t:
            if isinstance(x, tuple):
                yield from _subterms(x)


def _mentions_other_field(t, name):
    """term reads field `name` of an object other than *this"""
    for s in _subterms(t):
        if s[0] == 'field' and s[1] == name and s[2] != THIS:
            return True
    return False


def _addr_of_own(t):
    t = _strip(t)
    return t[0] == 'un' and t[1] == '&' and t[2][0] == 'field' and t[2][2] == THIS


# ------------------------------------------------------------------------------------------------------------
def rule_own_alias(ctx):
    obs = []
    n_listed = 0
    exercised = set()
    for u in ctx.units:
        own = Own(u)
        for rec in u.records.values():
            if rec['tname'] not in LISTED or not rec.get('complete') or not rec.get('in_scope'):
                continue
            n_listed += 1
            # the driver must exercise every operation the listed class provides: only then is "a member operation that
            # was never instantiated" the same as "not reachable from any copy/move of a listed class"
            full = all((sp.get('fn') and sp['fn'] in u.functions) for sp in (rec.get('special', {}).get(op, {}) for op in OPS)
                       if sp.get('state') in ('implicit', 'defaulted', 'user'))
            if full:
                exercised.add(rec['tname'])
            k, why = own.classify_record(rec)
            provided = {op: rec.get('special', {}).get(op, {}).get('state', 'absent') for op in OPS}
            ptxt = ', '.join(f"{op}={st}" for op, st in provided.items())
            subj = {'subject': rec['tname'], 'where': f"{rec['file']}:{rec['line']}", 'record': rec['qname']}
            if k == 'value':
                o = Ob('OWN-ALIAS', None, 0, 'no component of a copy/move refers to storage of the source',
                       f"{rec['qname'][:90]}: every field is a value, an owning container of values, or is re-targeted by all provided operations ({ptxt})",
                       OK, arm=rec['tname'], detail=subj, unit=u.name)
            elif k == 'aliasing':
                o = Ob('OWN-ALIAS', None, 0, 'no component of a copy/move refers to storage of the source',
                       f"{rec['qname'][:90]}: {why}", VIOLATED, arm=_innermost(why), detail=subj, unit=u.name)
            else:
                o = Ob('OWN-ALIAS', None, 0, 'no component of a copy/move refers to storage of the source',
                       f"{rec['qname'][:90]}: cannot classify: {why}", UNDECIDED, arm=rec['tname'], detail=subj, unit=u.name)
            obs.append(o)
        # records visited: evidence
        ctx.stats.setdefault('own_records_classified', 0)
        ctx.stats['own_records_classified'] += len(own.memo)
        for x in sorted(own.unused):
            ctx.note(f"{x[0]}::{x[1]} is user-provided but never instantiated: unreachable from the listed classes' operations")
    # the driver must exercise every operation each listed class template provides (for at least one instantiation):
    # only then is "a member operation that was never instantiated" the same as "not reachable from a listed class"
    missing = [c for c in LISTED if c not in exercised]
    if missing:
        raise AnalysisBroken('OWN-ALIAS: the driver does not exercise all provided copy/move operations of ' + ', '.join(missing))
    if n_listed < 6:
        raise AnalysisBroken(f"OWN-ALIAS: only {n_listed} instantiated records of the six listed classes found")
    return obs


def _innermost(why):
    # stable arm: the record.field named first in the reason
    w = why.split(':')[0].strip()
    return w[:80]


def rule_field_cover(ctx):
    """user-provided copy/move operations of pgm:: records transfer every field from the source"""
    obs = []
    for u in ctx.units:
        for rec in u.records.values():
            if not rec['tname'].startswith('pgm::') or not rec.get('complete') or rec.get('lambda'):
                continue
            for op in OPS:
                sp = rec.get('special', {}).get(op)
                if not sp or sp['state'] != 'user':
                    continue
                fn = u.functions.get(sp.get('fn'))
                if fn is None:
                    continue
                other = fn.params[0]['name'] if fn.params else None
                covered = set()
                delegated = False
                rebuilt = {}
                for ini in fn.d.get('inits', []):
                    if ini.get('field') and ini.get('written'):
                        t = fn.term(ini['expr'], inline=True)
                        if _mentions_other_field(t, ini['field']):
                            covered.add(ini['field'])
                        elif t[0] == 'construct' and t[2]:
                            # a support structure rebuilt over the own, already transferred member: `sel1(&compressed_intercepts)`
                            own = [_strip(a)[2][1] for a in t[2] if _addr_of_own(a)]
                            if own and all(o in covered for o in own) and not any(s_[0] == 'field' and s_[2] != THIS for s_ in _subterms(t)):
                                covered.add(ini['field'])
                                rebuilt[ini['field']] = own
                for i in fn.all_ids():
                    nd = fn.n(i)
                    lhs = rhs = None
                    if nd['c'] == 'BinaryOperator' and nd['op'] == '=':
                        lhs, rhs = fn.term(nd['ch'][0], inline=False), fn.term(nd['ch'][1], inline=True)
                    elif nd['c'] == 'CXXOperatorCallExpr' and nd.get('op') == '=' and len(nd.get('args', [])) == 2:
                        lhs, rhs = fn.term(nd['args'][0], inline=False), fn.term(nd['args'][1], inline=True)
                    if lhs is None:
                        continue
                    if lhs == ('deref', THIS):
                        delegated = True
                    if lhs[0] == 'field' and lhs[2] == THIS and _mentions_other_field(rhs, lhs[1]):
                        covered.add(lhs[1])
                    # std::swap(member, other.member) based implementations
                for c in fn.calls(pred=lambda nd: nd.get('cn') == 'swap'):
                    ts = [fn.term(a, inline=False) for a in fn.n(c).get('args', [])]
                    if len(ts) == 2:
                        for a, b in ((ts[0], ts[1]), (ts[1], ts[0])):
                            if a[0] == 'field' and a[2] == THIS and b[0] == 'field' and b[1] == a[1] and b[2] != THIS:
                                covered.add(a[1])
                names = [f['name'] for f in rec.get('fields', [])]
                missing = [n for n in names if n not in covered]
                st = OK if (delegated or not missing) else VIOLATED
                obs.append(Ob('FIELD-COVER', fn, 0, 'a user-provided copy/move operation transfers every field of the source',
                              f"{op}: " + ('delegates to another operation' if delegated else f"transfers {sorted(covered)}" + (f", misses {missing}" if missing else '')),
                              st, arm=op))
    return obs


def rules_c19(ctx):
    return rule_own_alias(ctx) + rule_field_cover(ctx)
