"""C16, thorough tier: the independent LLVM-IR store analysis (tool/pgmir.cc).

Pipeline (nothing is executed: the driver TU is only compiled to IR):
  clang++ -O0 -Xclang -disable-O0-optnone -gline-tables-only -S -emit-llvm   (the real build flags otherwise)
  opt-14 -passes='function(mem2reg,sroa)'                                      (locals leave memory)
  pgmir module.bc out.json                                                      (store summaries per function)
The reader entry points are matched by demangled name; for an index class `this` (the first non-sret argument), at any
depth, and every global are shared; for the extern "C" readers the first argument is the shared index.  Iterator classes
are left to the AST engine for their `*super` pointee (the IR has no field-level roots); here they must not write globals.
"""
import hashlib
import json
import os
import re
import subprocess

import extract
from common import Ob, OK, VIOLATED, UNDECIDED, AnalysisBroken

PGMIR = os.path.join(extract.VERIF, 'tool', 'pgmir')

INDEX_READERS = [
    r'^pgm::(PGMIndex|CompressedPGMIndex|BucketingPGMIndex|EliasFanoPGMIndex)<.*>::(search|segments_count|height|segment_for_key|pred)\(',
    r'^pgm::PGMIndex<.*>::size_in_bytes\(', r'^pgm::BucketingPGMIndex<.*>::size_in_bytes\(',
    r'^pgm::MappedPGMIndex<.*>::(contains|lower_bound|upper_bound|count|size|begin|end|file_size_in_bytes)\(',
    r'^pgm::MultidimensionalPGMIndex<.*>::(contains|range|begin|end|size_in_bytes)\(',
    r'^pgm::DynamicPGMIndex<.*>::(find|count|lower_bound|range|begin|end|size|empty|size_in_bytes|index_size_in_bytes)\(',
]
ITER_READERS = [
    r'^pgm::MultidimensionalPGMIndex<.*>::RangeIterator::(operator\+\+\(\)|operator\*|operator->|operator==|operator!=|advance)',
    r'^pgm::DynamicPGMIndex<.*>::Iterator::(operator\+\+\(\)|operator\*|operator->|operator==|operator!=|advance|lazy_initialize)',
]
C_READERS = r'^(dynamic_)?pgm_index_(int32|int64|uint32|uint64)_(search|size_in_bytes|find|size|begin|lower_bound|iterator_next|index_size_in_bytes)$'


def build_ir(name, source_text=None, source_path=None):
    flags, _ = extract.repo_flags()
    flags = [f for f in flags if f != '-w']
    h = hashlib.sha256()
    h.update(extract.tree_hash().encode())
    h.update(' '.join(flags).encode())
    h.update((source_text or open(source_path).read()).encode())
    with open(PGMIR, 'rb') as fh:
        h.update(fh.read())
    key = h.hexdigest()[:24]
    os.makedirs(extract.CACHE, exist_ok=True)
    out = os.path.join(extract.CACHE, f'ir_{name}-{key}.json')
    if os.path.exists(out):
        return out
    base = os.path.join(extract.CACHE, f'ir_{name}-{key}')
    if source_text is not None:
        src = base + '.cpp'
        with open(src, 'w') as fh:
            fh.write(source_text)
    else:
        src = source_path
    ll, bc = base + '.ll', base + '.bc'
    cmd = ['clang++'] + flags + ['-w', '-O0', '-Xclang', '-disable-O0-optnone', '-gline-tables-only', '-S', '-emit-llvm', src, '-o', ll]
    p = subprocess.run(cmd, capture_output=True, text=True)
    if p.returncode != 0:
        raise AnalysisBroken(f"IR build of {name} failed: " + (p.stderr or '')[-400:])
    p = subprocess.run(['opt-14', '-passes=function(mem2reg,sroa)', ll, '-o', bc], capture_output=True, text=True)
    if p.returncode != 0:
        raise AnalysisBroken('opt-14 failed: ' + (p.stderr or '')[-300:])
    p = subprocess.run([PGMIR, bc, out + '.tmp'], capture_output=True, text=True)
    if p.returncode != 0:
        raise AnalysisBroken('pgmir failed: ' + (p.stderr or '')[-300:])
    os.replace(out + '.tmp', out)
    for f in (ll, bc):
        try:
            os.unlink(f)
        except OSError:
            pass
    return out


def rules_ir(ctx):
    import gen_units
    if not os.path.exists(PGMIR):
        raise AnalysisBroken('tool/pgmir is not built (run MANIFEST.setup_cmd)')
    obs = []
    mods = []
    name, src, _ = gen_units.units_for('quick')[0]
    mods.append(('drv_' + name, build_ir('drv_' + name, source_text=src)))
    mods.append(('cpgm', build_ir('cpgm', source_path=os.path.join(extract.REPO, 'c-interface', 'cpgm.cpp'))))
    n_index = n_iter = n_c = 0
    ext_used, ext_unlisted = set(), set()
    n_defined = 0
    for mname, path in mods:
        d = json.load(open(path))
        n_defined += d['functions_defined']
        ext_used |= set(d['externals_used'])
        ext_unlisted |= set(d['externals_unlisted'])
        by_name = {}
        for f in d['functions']:
            by_name.setdefault(f['name'], f)
            by_name.setdefault(f['name'][:100], f)       # witnesses carry the callee name cut at 100 characters
        for f in d['functions']:
            nm = f['name']
            kind = None
            if any(re.search(p, nm) for p in ITER_READERS):
                kind = 'iterator'
            elif any(re.search(p, nm) for p in INDEX_READERS):
                kind = 'index'
            elif re.match(C_READERS, nm) or re.match(C_READERS, f.get('mangled', '')):
                kind = 'c'
            if not kind:
                continue
            this = f"arg{f['sret']}"
            bad = []
            und = []
            for w in f['writes']:
                r = w['root']
                shared = False
                if r.startswith('global:'):
                    shared = True
                elif r.startswith('unknown:'):
                    und.append(w)
                    continue
                elif kind in ('index', 'c') and r.rstrip('*') == this:
                    shared = True
                if shared:
                    bad.append(w)
            if kind == 'index':
                n_index += 1
            elif kind == 'iterator':
                n_iter += 1
            else:
                n_c += 1
            short = re.sub(r'<.*>::', '<...>::', nm)[:90]
            fake = _Fake(nm, mname)
            req = 'no store through `this` (at any depth) or to a global on any call chain' if kind != 'iterator' else 'no store to a global on any call chain (the pointee of `super` is decided by the AST engine)'
            if bad:
                w = bad[0]
                # The points-to sets of this analysis are field-insensitive: a copy or move of an object that holds both a pointer to
                # the index (Iterator::super) and buffers of its own (the cursor vector) makes "the pointee of something stored in the
                # copy" include the index, although the stores go to the freshly allocated buffer.  A report whose every witness is a
                # copy/move constructor or assignment is therefore not a verdict (the AST EFFECT engine, which is field-sensitive,
                # decides those functions in both tiers).
                def copyish(w_, depth=0):
                    c_ = w_.get('callee', '')
                    m_ = re.search(r'([A-Za-z_]\w*)(<.*>)?::([A-Za-z_]\w*)\(', c_)
                    is_ctor = bool(m_) and m_.group(1) == m_.group(3) and ('const&)' in c_ or '&&)' in c_)
                    if w_.get('how') != 'call':
                        return False
                    if is_ctor or '::operator=(' in c_:
                        return True
                    # a call of another reader whose own stores through `this` all come from copies (begin() -> lower_bound())
                    g_ = by_name.get(c_)
                    if g_ is None or depth > 4:
                        return False
                    gthis = f"arg{g_['sret']}"
                    gb = [x for x in g_['writes'] if x['root'].rstrip('*') == gthis or x['root'].startswith('global:')]
                    return bool(gb) and all(copyish(x, depth + 1) for x in gb)
                st_ = UNDECIDED if all(copyish(x) for x in bad) else VIOLATED
                w = bad[0] if st_ == UNDECIDED else [x for x in bad if not copyish(x)][0]
                obs.append(Ob('EFFECT-IR', None, 0, req, f"{nm[:160]}: may store to {w['root']} via {w['how']} {w.get('callee', '')[:100]} ({os.path.basename(w['file'])}:{w['line']})" +
                              (' [through a copy/move only: field-insensitive, not a verdict]' if st_ == UNDECIDED else ''),
                              st_, arm=_arm(nm), detail={'subject': _subject(nm), 'where': f"{w['file']}:{w['line']}"}, unit=mname))
            elif und:
                w = und[0]
                obs.append(Ob('EFFECT-IR', None, 0, req, f"{nm[:160]}: {w['root'][:140]} ({os.path.basename(w['file'])}:{w['line']})", UNDECIDED, arm=_arm(nm),
                              detail={'subject': _subject(nm), 'where': f"{w['file']}:{w['line']}"}, unit=mname))
            else:
                priv = sorted({w['root'] for w in f['writes']})
                obs.append(Ob('EFFECT-IR', None, 0, req, f"{nm[:160]}: stores only to " + (', '.join(priv) if priv else 'locals'), OK, arm=_arm(nm),
                              detail={'subject': _subject(nm), 'where': mname}, unit=mname))
    if n_index < 60 or n_c < 20:
        raise AnalysisBroken(f"EFFECT-IR: too few reader entry points matched in the IR (index {n_index}, C {n_c})")
    ctx.stats['ir_externals_used'] = sorted(ext_used)
    ctx.stats['ir_externals_unlisted_anywhere_in_module'] = sorted(ext_unlisted)
    ctx.stats['ir_functions_defined'] = n_defined
    ctx.stats['ir_entry_points'] = {'index': n_index, 'iterator': n_iter, 'c': n_c}
    return obs


class _Fake:
    def __init__(self, n, u):
        self.qname = n


def _subject(nm):
    return re.sub(r'\(.*$', '', re.sub(r'<[^()]*>', '', nm))[:80]


def _arm(nm):
    return _subject(nm).split('::')[-1]
