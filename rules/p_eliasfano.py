"""EliasFanoPGMIndex::pred(): SELECT-RANGE (C10, C17).

pred(i) looks up the bucket of the (possibly incremented) argument with  ef.high_0_select((V >> ef.wl) + 1).  The
high part of an Elias-Fano code over the universe [0, size()) has one zero per bucket, ((size()-1) >> wl) + 1 of them
(sd_vector::get_buckets), and select(r) is only defined for 1 <= r <= number of zeros (sdsl asserts it; without the assert
it scans past the bit vector and returns a position outside it, from which pred() indexes ef.low).  So the value V whose
high part is taken must be a position of the universe:  V <= size() - 1  on every path that reaches the call.

The rule is a forward interval dataflow over the CFG of pred() with facts  `v <= size() + c`:
  * a branch edge refines the fact from the comparison it decides (i > size(), i >= size() - 1, i + 1 >= size(), ...),
  * ++v / v += k / v -= k shift it, any other write drops it, joins take the weaker bound,
and the obligation is read off at the `V >> ef.wl` that feeds the select argument.
"""
from cfg import graph
from common import Ob, OK, VIOLATED, UNDECIDED, AnalysisBroken
from ir import fmt_term

EF = 'pgm::EliasFanoPGMIndex'
THIS = ('this',)
EFF = ('field', 'ef', THIS)
SIZE = ('call', 'sdsl::sd_vector::size', (), EFF)
WL = ('field', 'wl', EFF)


from interval import _sc, _subs, lin, bounds_at, INF


def _lin(t):
    return lin(t, SIZE)


def rule_select_range(ctx):
    obs = []
    n_sites = 0
    for f in ctx.need(EF + '::pred', ctx.units):
        g = graph(f)
        def sel(name):
            out = []
            for c in f.calls():
                if f.n(c).get('ct') in ('sdsl::select_support_mcl::operator()', 'sdsl::select_support_mcl::select'):
                    t = f.term(c, inline=False)
                    if t[0] == 'call' and len(t) == 4 and t[3] == ('field', name, EFF) and len(t[2]) == 1:
                        out.append(c)
            return out
        sel0, sel1 = sel('high_0_select'), sel('high_1_select')
        if not sel0:
            raise AnalysisBroken(f"{f.qname}: no ef.high_0_select call (anchor of SELECT-RANGE vanished)")
        # the shift nodes `V >> ef.wl`
        shifts = {}
        for i in f.all_ids():
            nd = f.n(i)
            if nd['c'] == 'BinaryOperator' and nd['op'] == '>>' and _sc(f.term(nd['ch'][1], inline=False)) == WL:
                shifts[i] = _sc(f.term(nd['ch'][0], inline=False))
        bounds, unknown = bounds_at(f, g, set(shifts), SIZE)
        for c in sel0:
            n_sites += 1
            arg = _sc(f.term(c, inline=False)[2][0])
            plus = 0
            lin = _lin(arg)
            H = None
            if lin and isinstance(lin[0], tuple):
                H, plus = lin
            req = ('the rank passed to ef.high_0_select is at most the number of buckets ((size() - 1) >> wl) + 1: the value whose high part is taken '
                   'is a position of the universe (<= size() - 1) on every path')
            if H is None or H[0] != 'local' or plus not in (0, 1):
                obs.append(Ob('SELECT-RANGE', f, c, req, f"unrecognised rank `{fmt_term(arg)[:60]}`", UNDECIDED, arm='select0'))
                continue
            init = f.single_def(H[2])
            sh = f.strip(init, casts=True) if init else 0
            if sh not in shifts:
                obs.append(Ob('SELECT-RANGE', f, c, req, f"`{fmt_term(H)}` is not a single `V >> ef.wl`", UNDECIDED, arm='select0'))
                continue
            V = shifts[sh]
            cb = bounds.get(sh, {}).get(V, INF)
            # rank = (V >> wl) + plus <= ((size-1) >> wl) + 1
            limit = -1 if plus == 1 else 1     # plus == 0: one more bucket of slack, and wl >= 1 so +2 positions stay inside it
            what = f"high_0_select(({fmt_term(V)} >> wl){' + 1' if plus else ''})"
            if cb is not INF and cb <= limit:
                obs.append(Ob('SELECT-RANGE', f, c, req, f"{what}: {fmt_term(V)} <= size() {cb:+d} where its high part is taken", OK, arm='select0:+%d' % plus))
            elif cb is INF:
                obs.append(Ob('SELECT-RANGE', f, c, req, f"{what}: no bound on {fmt_term(V)} in terms of ef.size() reaches this point" +
                              (' (a comparison with size() has an unrecognised shape)' if unknown else ''), UNDECIDED if unknown else VIOLATED, arm='select0:+%d' % plus))
            else:
                obs.append(Ob('SELECT-RANGE', f, c, req, f"{what}: {fmt_term(V)} can be as large as size() {cb:+d} where its high part is taken, i.e. past the last bucket "
                              f"when that value crosses a multiple of 2^wl (the beyond-universe guard and the increment disagree)", VIOLATED, arm='select0:+%d' % plus))
        for c in sel1:
            n_sites += 1
            arg = _sc(f.term(c, inline=True)[2][0])
            JJ = ('call', 'sdsl::int_vector::size', (), ('field', 'low', EFF))
            ok = arg == JJ or _lin_terms(arg) == {JJ: 1}       # also `last_rank + 1` with last_rank = ef.low.size() - 1
            obs.append(Ob('SELECT-RANGE', f, c, 'the rank passed to ef.high_1_select is the number of stored elements (ef.low.size())', fmt_term(arg)[:60],
                          OK if ok else UNDECIDED, arm='select1'))
    ctx.stats['select_sites'] = n_sites
    return obs


def _lin_terms(t, sign=1, out=None):
    """flatten +/- into {atom repr: coefficient} with an integer constant under key None"""
    out = out if out is not None else {}
    t = _sc(t)
    if t[0] == 'op' and len(t) == 4 and t[1] in ('+', '-'):
        _lin_terms(t[2], sign, out)
        _lin_terms(t[3], sign if t[1] == '+' else -sign, out)
    elif t[0] == 'lit' and isinstance(t[1], int):
        out[None] = out.get(None, 0) + sign * t[1]
    else:
        out[t] = out.get(t, 0) + sign
    return {k: v for k, v in out.items() if v != 0}


def rule_beyond_value(ctx):
    """the beyond-universe branch of pred() returns the last stored element: index J-1 with J = ef.low.size() and the value
    low[J-1] + (H << wl) where H is the high part of that element - by the Elias-Fano access formula
    select1(J) - (J-1), or as the bucket of the last position of the universe ((size() - 1) >> wl)."""
    obs = []
    J = ('call', 'sdsl::int_vector::size', (), ('field', 'low', EFF))
    for f in ctx.need(EF + '::pred', ctx.units):
        g = graph(f)
        done = False
        for r in f.returns():
            # the return under the beyond-universe guard: the one control dependent on a comparison with ef.size()
            deps = [(b, lab) for (b, lab) in g.transitive_control_deps(f.block_of(r)[0]) if g.cond(b) and SIZE in list(_subs(f.term(g.cond(b), inline=False)))]
            if not deps or not any(lab is True for (_, lab) in deps):
                continue
            done = True
            t = _sc(f.term(f.n(r)['ch'][0], inline=True))
            req = 'beyond the universe pred() returns (J-1, low[J-1] + (H << wl)), J = ef.low.size(), H = high_1_select(J) - (J-1) or (size()-1) >> wl'
            if not (t[0] in ('construct', 'init') and len(t[-1] if t[0] == 'construct' else t[1:]) == 2):
                obs.append(Ob('EF-LAST', f, r, req, 'unrecognised return ' + fmt_term(t)[:80], UNDECIDED, arm='beyond'))
                continue
            a, b = (t[2] if t[0] == 'construct' else t[1:])
            idx_ok = _lin_terms(a) == {J: 1, None: -1}
            b = _sc(b)
            st, why = UNDECIDED, 'unrecognised value ' + fmt_term(b)[:80]
            segsz = [k for k in _lin_terms(a) if k is not None and k[0] == 'call' and str(k[1]).endswith('::size') and _sc(k[3]) == ('field', 'segments', ('this',))]
            if segsz:
                # the rank of the last coded key is not at a fixed distance from segments.size(): build() leaves one or two
                # sentinel-keyed segments uncoded (two when the last key is the largest non-reserved value)
                obs.append(Ob('EF-LAST', f, r, req, f"the rank `{fmt_term(a)[:50]}` is computed from segments.size(); the number of trailing segments that are not coded is one or two, "
                              f"so this selects a terminator segment when the last data key is numeric max - 1", VIOLATED, arm='beyond'))
                continue
            if _lin(b) and _lin(b)[0] == 'SIZE' and _lin(b)[1] == -1:
                # ef.size() - 1: the universe of the code is the last coded key + 1 (sd_vector built from the sorted keys), the same
                # fact the guard of this branch (i >= ef.size() - 1) relies on
                st, why = (OK, 'value = ef.size() - 1, the last coded key (the universe is last + 1)') if idx_ok else (VIOLATED, f"rank `{fmt_term(a)[:50]}` is not J - 1")
            if b[0] == 'op' and b[1] in ('+', '|') and len(b) == 4:
                lo_, hi_ = _sc(b[2]), _sc(b[3])
                if hi_[0] == 'index':
                    lo_, hi_ = hi_, lo_
                low_ok = lo_[0] == 'index' and _sc(lo_[1]) == ('field', 'low', EFF) and _lin_terms(lo_[2]) == {J: 1, None: -1}
                if hi_[0] == 'op' and hi_[1] == '<<' and _sc(hi_[3]) == WL:
                    H = _sc(hi_[2])
                    sel = ('call', 'sdsl::select_support_mcl::operator()', (J,), ('field', 'high_1_select', EFF))
                    lt = _lin_terms(H)
                    # the argument of the select up to arithmetic: high_1_select((J - 1) + 1)
                    lt = {(sel if (k is not None and k[0] == 'call' and k[1] == sel[1] and len(k) > 3 and k[3] == sel[3] and len(k[2]) == 1 and _lin_terms(k[2][0]) == {J: 1}) else k): v
                          for k, v in lt.items()}
                    if lt == {sel: 1, J: -1, None: 1}:
                        st, why = (OK, 'Elias-Fano access formula for element J-1') if low_ok and idx_ok else (VIOLATED, 'index or low part is not J-1')
                    elif H[0] == 'op' and H[1] == '>>' and _sc(H[3]) == WL and _lin(H[2]) and _lin(H[2])[0] == 'SIZE':
                        c = _lin(H[2])[1]
                        if c == -1 and low_ok and idx_ok:
                            st, why = OK, 'bucket of the last position of the universe, size() - 1'
                        else:
                            st, why = VIOLATED, (f"the high part is taken from position size(){c:+d}, not from the last stored element size()-1: one bucket too far when "
                                                 f"size() is a multiple of 2^wl" if c != -1 else 'index or low part is not J-1')
                    elif any(k is not None and k[0] == 'call' and 'select' in k[1] for k in lt):
                        st, why = VIOLATED, f"`{fmt_term(H)[:60]}` is not high_1_select(J) - (J - 1)"
            obs.append(Ob('EF-LAST', f, r, req, why, st, arm='beyond'))
        if not done:
            obs.append(Ob('EF-LAST', f, 0, 'a return under the beyond-universe guard', 'no return is control dependent on a comparison with ef.size()', UNDECIDED, arm='beyond'))
    return obs
