"""EliasFanoPGMIndex::pred(): SELECT-RANGE (C10, C17).

pred(i) looks up the bucket of the (possibly incremented) argument with  ef.high_0_select((V >> ef.wl) + 1).  The
high part of an Elias-Fano code over the universe [0, size()) has one zero per bucket, ((size()-1) >> wl) + 1 of them
(sd_vector::get_buckets), and select(r) is only defined for 1 <= r <= number of zeros (sdsl asserts it; without the assert
it scans past the bit vector and returns a position outside it, from which pred() indexes ef.low).  So the value V whose
high part is taken must be a position of the universe:  V <= size() - 1  on every path that reaches the call.

The rule is a forward interval dataflow over the CFG of pred() with facts  `v <= size() + c`:
  * a branch edge refines the fact from the comparison it decides (i > size(), i >= size() - 1, i + 1 >= size(), ...),
  * ++v / v += k / v -= k shift it, any other write drops it, joins take the weaker bound,
and the obligation is read off at the `V >> ef.wl` that feeds the select argument.
"""
from cfg import graph
from common import Ob, OK, VIOLATED, UNDECIDED, AnalysisBroken
from ir import fmt_term

EF = 'pgm::EliasFanoPGMIndex'
THIS = ('this',)
EFF = ('field', 'ef', THIS)
SIZE = ('call', 'sdsl::sd_vector::size', (), EFF)
WL = ('field', 'wl', EFF)
INF = None
_FLIP = {'<': '>', '>': '<', '<=': '>=', '>=': '<=', '==': '==', '!=': '!='}
_NEG = {'<': '>=', '>': '<=', '<=': '>', '>=': '<', '==': '!=', '!=': '=='}


def _sc(t):
    while isinstance(t, tuple) and t and t[0] == 'cast':
        t = t[2]
    return t


def _lin(t):
    """term -> (base, k) with base a variable term / SIZE / None (pure constant), value = base + k; or None"""
    t = _sc(t)
    if t[0] == 'lit' and isinstance(t[1], int):
        return (None, t[1])
    if t[0] == 'op' and len(t) == 4 and t[1] in ('+', '-'):
        a, b = _lin(t[2]), _lin(t[3])
        if a and b:
            if b[0] is None:
                return (a[0], a[1] + (b[1] if t[1] == '+' else -b[1]))
            if a[0] is None and t[1] == '+':
                return (b[0], a[1] + b[1])
        return None
    if t == SIZE:
        return ('SIZE', 0)
    if t[0] in ('param', 'local'):
        return (t, 0)
    return None


def _edge_bounds(fn, c, label):
    """[(var term, c)]: facts `var <= size() + c` implied by condition node c evaluating to `label`; second result: whether a
    comparison between a variable and size() was met in a shape that is not understood"""
    out, unknown = [], False
    c = fn.strip(c)
    if not c:
        return out, unknown
    nd = fn.n(c)
    if nd['c'] == 'UnaryOperator' and nd['op'] == '!':
        return _edge_bounds(fn, nd['ch'][0], not label)
    if nd['c'] == 'BinaryOperator' and nd['op'] in ('&&', '||'):
        if (nd['op'] == '&&') == label:
            a, ua = _edge_bounds(fn, nd['ch'][0], label)
            b, ub = _edge_bounds(fn, nd['ch'][1], label)
            return a + b, ua or ub
        return out, unknown
    t = _sc(fn.term(c, inline=False))
    if t[0] == 'op' and len(t) == 4 and t[1] in _FLIP:
        l, r, rel = _lin(t[2]), _lin(t[3]), t[1]
        mentions = SIZE in (list(_subs(t)))
        if l and r:
            if l[0] == 'SIZE':
                l, r, rel = r, l, _FLIP[rel]
            if r[0] == 'SIZE' and isinstance(l[0], tuple):
                if not label:
                    rel = _NEG[rel]
                # (v + a) rel (size + b)
                d = r[1] - l[1]
                if rel == '<':
                    out.append((l[0], d - 1))
                elif rel in ('<=', '=='):
                    out.append((l[0], d))
                return out, False
        if mentions:
            unknown = True
    return out, unknown


def _subs(t):
    yield t
    if isinstance(t, tuple):
        for x in t:
            if isinstance(x, tuple):
                yield from _subs(x)


def _bounds_at(fn, g, targets):
    """forward dataflow; returns {target node: {var term: c}} (state just before the element) and the unknown-shape flag"""
    IN = {g.entry: {}}
    work = [g.entry]
    res = {}
    unknown = False
    rounds = 0
    while work:
        rounds += 1
        if rounds > 5000:
            raise AnalysisBroken(f"{fn.qname}: bound dataflow does not converge")
        b = work.pop()
        st = dict(IN[b])
        for e in g.blocks[b]['elems']:
            if e in targets:
                old = res.get(e)
                res[e] = dict(st) if old is None else {k: max(old[k], st[k]) for k in old if k in st}
            nd = fn.n(e)
            c = nd['c']
            if c == 'UnaryOperator' and nd['op'] in ('++', '--'):
                v = _sc(fn.term(nd['ch'][0], inline=False))
                if v in st:
                    st[v] += 1 if nd['op'] == '++' else -1
            elif c == 'CompoundAssignOperator' and nd['op'] in ('+=', '-='):
                v = _sc(fn.term(nd['ch'][0], inline=False))
                k = _lin(fn.term(nd['ch'][1], inline=False))
                if v in st:
                    if k and k[0] is None:
                        st[v] += k[1] if nd['op'] == '+=' else -k[1]
                    else:
                        del st[v]
            elif c in ('BinaryOperator', 'CompoundAssignOperator') and nd['op'].endswith('=') and nd['op'] not in ('==', '!=', '<=', '>='):
                v = _sc(fn.term(nd['ch'][0], inline=False))
                st.pop(v, None)
            elif c in ('CallExpr', 'CXXMemberCallExpr', 'CXXOperatorCallExpr', 'CXXConstructExpr'):
                pm = nd.get('pmodes', [])
                off = 1 if (c == 'CXXOperatorCallExpr' and nd.get('op_member')) else 0
                for k, a in enumerate(nd.get('args', [])):
                    pk = k - off
                    if 0 <= pk < len(pm) and pm[pk] == 'ref':
                        st.pop(_sc(fn.term(a, inline=False)), None)
        cond = g.cond(b)
        for (s, lab) in g.out_edges(b):
            if s is None:
                continue
            out = dict(st)
            if cond and isinstance(lab, bool):
                facts, unk = _edge_bounds(fn, cond, lab)
                unknown = unknown or unk
                for (v, cc) in facts:
                    out[v] = cc if v not in out else min(out[v], cc)
            if s not in IN:
                IN[s] = out
                work.append(s)
            else:
                merged = {k: max(IN[s][k], out[k]) for k in IN[s] if k in out}
                if merged != IN[s]:
                    IN[s] = merged
                    work.append(s)
    return res, unknown


def rule_select_range(ctx):
    obs = []
    n_sites = 0
    for f in ctx.need(EF + '::pred', ctx.units):
        g = graph(f)
        def sel(name):
            out = []
            for c in f.calls():
                if f.n(c).get('ct') in ('sdsl::select_support_mcl::operator()', 'sdsl::select_support_mcl::select'):
                    t = f.term(c, inline=False)
                    if t[0] == 'call' and len(t) == 4 and t[3] == ('field', name, EFF) and len(t[2]) == 1:
                        out.append(c)
            return out
        sel0, sel1 = sel('high_0_select'), sel('high_1_select')
        if not sel0:
            raise AnalysisBroken(f"{f.qname}: no ef.high_0_select call (anchor of SELECT-RANGE vanished)")
        # the shift nodes `V >> ef.wl`
        shifts = {}
        for i in f.all_ids():
            nd = f.n(i)
            if nd['c'] == 'BinaryOperator' and nd['op'] == '>>' and _sc(f.term(nd['ch'][1], inline=False)) == WL:
                shifts[i] = _sc(f.term(nd['ch'][0], inline=False))
        bounds, unknown = _bounds_at(f, g, set(shifts))
        for c in sel0:
            n_sites += 1
            arg = _sc(f.term(c, inline=False)[2][0])
            plus = 0
            lin = _lin(arg)
            H = None
            if lin and isinstance(lin[0], tuple):
                H, plus = lin
            req = ('the rank passed to ef.high_0_select is at most the number of buckets ((size() - 1) >> wl) + 1: the value whose high part is taken '
                   'is a position of the universe (<= size() - 1) on every path')
            if H is None or H[0] != 'local' or plus not in (0, 1):
                obs.append(Ob('SELECT-RANGE', f, c, req, f"unrecognised rank `{fmt_term(arg)[:60]}`", UNDECIDED, arm='select0'))
                continue
            init = f.single_def(H[2])
            sh = f.strip(init, casts=True) if init else 0
            if sh not in shifts:
                obs.append(Ob('SELECT-RANGE', f, c, req, f"`{fmt_term(H)}` is not a single `V >> ef.wl`", UNDECIDED, arm='select0'))
                continue
            V = shifts[sh]
            cb = bounds.get(sh, {}).get(V, INF)
            # rank = (V >> wl) + plus <= ((size-1) >> wl) + 1
            limit = -1 if plus == 1 else 1     # plus == 0: one more bucket of slack, and wl >= 1 so +2 positions stay inside it
            what = f"high_0_select(({fmt_term(V)} >> wl){' + 1' if plus else ''})"
            if cb is not INF and cb <= limit:
                obs.append(Ob('SELECT-RANGE', f, c, req, f"{what}: {fmt_term(V)} <= size() {cb:+d} where its high part is taken", OK, arm='select0:+%d' % plus))
            elif cb is INF:
                obs.append(Ob('SELECT-RANGE', f, c, req, f"{what}: no bound on {fmt_term(V)} in terms of ef.size() reaches this point" +
                              (' (a comparison with size() has an unrecognised shape)' if unknown else ''), UNDECIDED if unknown else VIOLATED, arm='select0:+%d' % plus))
            else:
                obs.append(Ob('SELECT-RANGE', f, c, req, f"{what}: {fmt_term(V)} can be as large as size() {cb:+d} where its high part is taken, i.e. past the last bucket "
                              f"when that value crosses a multiple of 2^wl (the beyond-universe guard and the increment disagree)", VIOLATED, arm='select0:+%d' % plus))
        for c in sel1:
            n_sites += 1
            arg = _sc(f.term(c, inline=True)[2][0])
            ok = arg == ('call', 'sdsl::int_vector::size', (), ('field', 'low', EFF))
            obs.append(Ob('SELECT-RANGE', f, c, 'the rank passed to ef.high_1_select is the number of stored elements (ef.low.size())', fmt_term(arg)[:60],
                          OK if ok else UNDECIDED, arm='select1'))
    ctx.stats['select_sites'] = n_sites
    return obs
