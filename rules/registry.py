"""Which rules decide which property, at which claimed level, with which confirmed instance counts."""
import json
import os

import extract
import endguard
import p_multidim
import p_search
import p_own
import p_guards
import p_mapped
import p_effect
import p_effect_ir
import p_dynamic
import p_segmentation
import p_eliasfano
import p_cwrap
import p_memory

VERIF = os.path.dirname(os.path.dirname(os.path.abspath(__file__)))

MIN_CONSTEXPR_IFS = 11      # 16 on the pinned tree; the usual 70% floor (a clean-up may merge duplicated `if constexpr` sites)

DEFAULT_TRUSTED_BASE = [
    'clang 14 front end: template instantiation, overload resolution, constant evaluation and clang::CFG construction',
    'tool/pgmfacts.cc faithfully exports the AST/CFG (no rule logic inside)',
    'the configuration matrix of units/gen_units.py covers every `if constexpr` arm (checked on every run)',
]
DEFAULT_ASSUMPTIONS = [
    'the verdict concerns the clauses named in coverage.decided_clauses, not the behaviour as a whole (see coverage.not_decided)',
    'size_t arithmetic in the range expressions does not wrap (positions are bounded by n)',
]

_EXPECT = None


# Rules whose number of obligations follows how often the source repeats a statement (the pinned make_segmentation spells the
# duplicate-run adjustment four times, once per `if constexpr` arm and once more for the chunk tail): a clean-up that folds the
# copies legitimately produces fewer.  Their floor is the number of *kinds* of site the rule needs to see, not 70% of the count.
STRUCTURAL_FLOORS = {'RANK-AGREE': 2, 'GAP-GUARD': 1}


def expect_for(prop):
    global _EXPECT
    if _EXPECT is None:
        _EXPECT = json.load(open(os.path.join(VERIF, 'rules', 'expect.json')))
    return _EXPECT.get(prop, {})


def selftest_endguard():
    u = extract.load_selftest('endguard')
    bad, good = 0, 0
    for f in u.functions.values():
        if not f.tname.startswith('pos::'):
            continue
        r = endguard.analyse(f)
        if f.name.startswith('bad_'):
            if not r['violations']:
                return False
            bad += 1
        if f.name.startswith('good_') and (r['violations'] or r['undecided']):
            return False
        if f.name.startswith('good_'):
            good += 1
    if not (bad >= 2 and good >= 4):
        return False
    # the check-order clause on the order_* functions of the same file
    import p_memory
    ob, og = 0, 0
    for f in u.functions.values():
        if f.tname.startswith('pos::order_'):
            v = [o for o in p_memory.rule_check_order(None, [f]) if o.arm == 'order']
            if f.name.startswith('order_bad_'):
                if not v:
                    return False
                ob += 1
            else:
                if v:
                    return False
                og += 1
    return ob >= 2 and og >= 2


def selftest_iterinv():
    import iterinv
    u = extract.load_selftest('iterinv')
    bad = good = 0
    for f in u.functions.values():
        if not f.tname.startswith('pos::'):
            continue
        r = iterinv.analyse(f)
        if f.name.startswith('bad_'):
            if not r:
                return False
            bad += 1
        if f.name.startswith('good_'):
            if r:
                return False
            good += 1
    return bad >= 3 and good >= 4


PROPS = {}

PROPS['C13'] = {
    'level': 'other',
    'rules': p_multidim.rules_c13,
    'selftests': [('END-GUARD on selftest/pos/endguard.cpp', selftest_endguard)],
    'decides': [
        'EMIT-GUARD: RangeIterator publishes a point (p = Decode(*it)) only under box_zcontains(zmin, zmax, *it) == true, and operator* returns exactly p',
        'KIND: after a Z-order skip the cursor is FIRST_GE(bigmin) (not FIRST_GT) inside pgm.search(bigmin) when next examined; the initial cursor is FIRST_GE(zmin)',
        'END-GUARD: no dereference of the cursor on a path on which it was just found equal to data.end()',
    ],
    'not_decided': 'bigmin()/load() bit arithmetic, Morton encode/decode, termination of the skip loop: value-level, not decidable from the shape of the code',
    'explanation': 'Clause-level static claim for C13: three structural necessary conditions of "range() enumerates exactly the points in the box" '
                   'are decided on the instantiated AST/CFG of RangeIterator for every instantiated configuration; the numeric part (bigmin) is not claimed.',
}

PROPS['C14'] = {
    'level': 'other',
    'rules': p_multidim.rules_c14,
    'selftests': [('END-GUARD on selftest/pos/endguard.cpp', selftest_endguard)],
    'decides': [
        'TRUE-IMPLIES-EQ: contains() evaluates to true only when the element at lower_bound(encode(p)) compared equal to the query (no false positive)',
        'KIND: the compared position is FIRST_GE(encode(p)) within [search(encode(p)).lo, .hi)',
        'END-GUARD: the element is not dereferenced on the branch on which the position equals data.end()',
        'FALSE-IMPLIES-ABSENT: every way of yielding false implies absence: the lower-bound position is end(), its element differs from p, or p fails a coordinate-width predicate whose threshold is not below the constructor\'s',
    ],
    'not_decided': 'the "present => true" half rests on the inner index bracketing the lower bound (C02, numeric); not claimed here',
    'explanation': 'Clause-level static claim for C14 (the no-false-positive half and memory safety of the comparison), decided on the short-circuit CFG of contains() '
                   'for every instantiated configuration.',
}


# ------------------------------------------------------------------------------------------------ search contract family
def _only(ctx, which):
    return [ctx.cpgm] if which == 'wrapper' else ctx.units


def rules_c01(ctx):
    S = p_search
    G = p_segmentation
    return (S.rule_range_form(ctx, 'pgm', ctx.units) + S.rule_agree_eps(ctx, 'pgm', ctx.units) + S.rule_clamp(ctx, 'pgm', ctx.units) +
            S.rule_kind_pgm(ctx, ctx.units) + S.rule_keydiff_type(ctx, ctx.units) +
            [o for o in G.rule_rank_agree(ctx) if o.rule == 'RANK-AGREE'] + G.rule_index_cover(ctx) + [o for o in G.rule_omp_order(ctx) if o.arm == 'last-chunk'] + G.rule_key_arith(ctx) + S.rule_upper_level_sentinel(ctx, 'pgm', ctx.units) + G.rule_model_per_call(ctx))


def rules_c02(ctx):
    S = p_search
    return (S.rule_cap(ctx, 'pgm', ctx.units, fnames=('search', 'segment_for_key')) + [o for o in S.rule_range_form(ctx, 'pgm', ctx.units)] +
            p_segmentation.rule_closing(ctx) + [o for o in p_segmentation.rule_rank_agree(ctx) if o.rule == 'GAP-GUARD' or o.arm in ('gap', 'closing')] +
            p_segmentation.rule_key_arith(ctx) + [o for o in p_segmentation.rule_omp_order(ctx) if o.arm == 'last-chunk'] + p_segmentation.rule_seam(ctx) +
            S.rule_conv_range(ctx, 'pgm', ctx.all_units()) + p_segmentation.rule_model_per_call(ctx))


def rules_c07(ctx):
    S = p_search
    # the position estimate of a level is also the centre of the window searched in the level below: its conversion and the
    # width of `estimate + intercept` matter for the work bound as they do for the returned range
    return ([o for o in S.rule_agree_eps(ctx, 'pgm', ctx.units) if 'recursive' in o.arm] + S.rule_window_form(ctx, 'pgm', ctx.units) +
            S.rule_conv_range(ctx, 'pgm', ctx.units) + S.rule_cap(ctx, 'pgm', ctx.units, fnames=('segment_for_key',)) +
            [o for o in p_segmentation.rule_closing(ctx) if o.rule == 'SENTINEL' and str(o.arm).endswith('upper')] +
            # the estimate of every level is computed by Segment::operator(): a key difference that overflows gives an estimate far
            # from the responsible segment, and the forward scan then walks more than EpsilonRecursive + 2 segments
            S.rule_keydiff_type(ctx, ctx.units) + p_segmentation.rule_model_per_call(ctx))


def rules_c08(ctx):
    S = p_search
    return (S.rule_range_form(ctx, 'compressed') + S.rule_agree_eps(ctx, 'compressed') + S.rule_clamp(ctx, 'compressed') + S.rule_cap(ctx, 'compressed') +
            S.rule_kind_compressed(ctx) + S.rule_window_form(ctx, 'compressed') + S.rule_compressed_level(ctx) + p_segmentation.rule_precision(ctx) +
            S.rule_conv_range(ctx, 'compressed') + S.rule_keydiff_sign(ctx, 'compressed') + S.rule_level_sizes(ctx) + S.rule_upper_level_sentinel(ctx, 'compressed') + S.rule_upper_level_sentinel(ctx, 'pgm', ctx.units))


def rules_c09(ctx):
    S = p_search
    return (S.rule_range_form(ctx, 'bucketing') + S.rule_agree_eps(ctx, 'bucketing') + S.rule_clamp(ctx, 'bucketing') + S.rule_cap(ctx, 'bucketing') +
            S.rule_kind_bucketing(ctx) + S.rule_bucket_agree(ctx) + S.rule_table_width(ctx) + S.rule_conv_range(ctx, 'pgm'))


def rules_c10(ctx):
    S = p_search
    return (S.rule_range_form(ctx, 'eliasfano') + S.rule_agree_eps(ctx, 'eliasfano') + S.rule_clamp(ctx, 'eliasfano') + S.rule_cap(ctx, 'eliasfano') +
            S.rule_rebase_agree(ctx) + S.rule_conv_range(ctx, 'eliasfano') + p_eliasfano.rule_select_range(ctx) + p_eliasfano.rule_beyond_value(ctx) + S.rule_upper_level_sentinel(ctx, 'eliasfano') + S.rule_keydiff_sign(ctx, 'eliasfano'))


_SEARCH_ND = ('that every constraint point is within Epsilon of its segment, that float slopes and size_t(slope*double(k-key)) round inside the +2 slack, '
              'chunk seams and the duplicate-run adjustment: value-level, no static argument in reach')

PROPS['C01'] = {
    'level': 'other', 'rules': rules_c01,
    'decides': [
        'RANGE-FORM: search() returns {P, P<=E?0:P-E, P+E+2>=n?n:P+E+2} with E the class\'s Epsilon (decided by a piecewise-linear normal form, any equivalent spelling accepted); hence lo<=pos, hi<=n, hi-lo<=2E+2 for every P',
        'AGREE-EPS: the epsilon reaching OptimalPiecewiseLinearModel for level 0 is that same Epsilon (backward slice through build/build_level/make_segmentation_par/make_segmentation), also for MappedPGMIndex',
        'CLAMP: the raw key only feeds std::max(first_key, key); routing and model evaluation receive the clamped key',
        'KIND: every routing step of segment_for_key (EpsilonRecursive == 0, linear scan, binary search) ends in LAST_LE(key) and that result is returned',
        'TYPE: the key difference in Segment::operator() is evaluated in an unsigned, floating or wider-than-K type for every key type',
        'RANK-AGREE: every constraint point fed to the builder is a key at its own index (first-occurrence rank) or one of the two successor points; the last chunk of the parallel builder ends at n; KEY-ARITH: no key-key difference in a signed same-width type',
        'INDEX-COVER: every rank of a chunk that is not a duplicate of its predecessor reaches an add_point(in(k), k) site - decided on an abstract model of the segmentation driver (chunk bounds, loop bounds and breaks, duplicate pattern), so a key that is never fed to the builder (and therefore carries no epsilon guarantee) is found whatever the loop looks like',
    ],
    'not_decided': _SEARCH_ND,
    'explanation': 'Clause-level static claim for C01: five structural necessary conditions of "the first occurrence lies in the returned range", decided for every instantiated configuration of PGMIndex/MappedPGMIndex.',
}
PROPS['C02'] = {
    'level': 'other', 'rules': rules_c02,
    'decides': [
        'CAP: the position fed to the range arithmetic is std::min<size_t>(model of segment s at the clamped key, intercept of the successor of the same s), in search() and at every level of segment_for_key()',
        'N-CAP (part of RANGE-FORM): the upper end is capped by field n',
        'CLOSING: make_segmentation adds the point (succ(in(n-1)), n) on every path on which the chunk ends the data, and the last chunk of the parallel builder ends at n; SENTINEL: build() terminates every level with (sentinel, 0, last_n)',
        'GAP-GUARD / RANK-AGREE (successor points): after a run of duplicates the point (succ(in(i)), i) is added exactly when succ(in(i)) < in(i+1); KEY-ARITH: no key-key difference in a signed same-width type',
        'CONV-RANGE / INT-INTERCEPT: in every segment evaluator the floating estimate is bounded above by a constant before it is converted to an integer, and the integer intercept is added after the conversion, in integer arithmetic (never converted to Floating, whose mantissa is 24 bits by default)',
    ],
    'not_decided': _SEARCH_ND + '; the closing point/sentinel clauses are decided under C17/C03',
    'explanation': 'Clause-level static claim for C02: the cap that keeps gap queries from overshooting into the next segment and the cap of hi by n.',
}
PROPS['C07'] = {
    'level': 'other', 'rules': rules_c07,
    'decides': [
        'AGREE-EPS-REC: upper levels are segmented with EpsilonRecursive (the call inside build()\'s level loop passes epsilon_recursive, whose source is the template parameter)',
        'WINDOW-FORM: per level lo = level_begin + SUB(pos, EpsilonRecursive+1); in the binary-search arm hi = level_begin + ADD(pos, EpsilonRecursive, level_size) with level_size the size of the searched level: at most 2*EpsilonRecursive+3 segments are inspected in that arm',
        'CAP / SENTINEL (upper levels): the position handed to the next level down is min(model, intercept of the successor segment), and the terminator segments that close an upper level carry the size of the level below as intercept (decided on build() with all local closures inlined, with a reaching-definitions check that the size is not reassigned between the segmentation and the push) - otherwise the cap collapses the prediction through the last segment of a level and the scan restarts far from the responsible segment',
        'TYPE / AGREE-EPS model-per-call: the key difference inside Segment::operator() cannot overflow (an estimate computed from a wrapped difference is far from the responsible segment and the forward scan walks the difference), and the model of the segmentation driver is constructed from the epsilon of each call',
    ],
    'not_decided': 'the bound for the linear-scan arm (the loop runs until found; its length is the numeric epsilon guarantee) and the per-level size bound',
    'explanation': 'Clause-level static claim for C07: the two regressions the property names (wrong epsilon for an upper level, widened window) change these forms.',
}
PROPS['C08'] = {
    'level': 'other', 'rules': rules_c08,
    'decides': [
        'RANGE-FORM / CLAMP / CAP / AGREE-EPS(+REC) / WINDOW-FORM on CompressedPGMIndex::search and its constructor (root estimate capped by root_range)',
        'KIND: the segment index handed to the model derives from a LAST_LE position in all three arms (one-level, forward scan, binary search); binary searches use the clamped key; a discarded routing result is a violation',
        'SENTINEL: every CompressedLevel key array ends with the sentinel on all construction paths; SUPPORT-ORDER: sel1 is bound to the final compressed_intercepts',
        'CONV-RANGE / INT-INTERCEPT: in every segment evaluator the floating estimate is bounded above by a constant before it is converted to an integer, and the integer intercept is added after the conversion, in integer arithmetic (never converted to Floating, whose mantissa is 24 bits by default)',
        'SENTINEL-EXCLUDED: a trailing segment that starts at the sentinel is not fed to the next level (sibling agreement with PGMIndex::build); INTERCEPT-BASE / INTERCEPT-FAITHFUL: the stored intercepts are the computed ones, lowered at most to prev_level_size - 1, the base included, never raised to a data-dependent bound; PRECISION relative-abscissa: every user of the intersection point asks for it relative to an origin',
    ],
    'not_decided': 'that slope merging and intercept clamping keep every segment within Epsilon (numeric)',
    'explanation': 'Clause-level static claim for C08: the PGMIndex clauses re-established on the compressed layout.',
}
PROPS['C09'] = {
    'level': 'other', 'rules': rules_c09,
    'decides': [
        'RANGE-FORM incl. the two early exits ({0,0,0} only under key<first_key, {n,n,n} only under key>last_key), CLAMP (every other use of the key is behind both exits), CAP, AGREE-EPS, KIND (LAST_LE inside the bucket slice)',
        'BUCKET-AGREE: bucket of a key computed with the same shift constant (power-of-two sizes) or the same field step (other sizes) at build and query time, on key-first_key; slice is [top_level[j], top_level[j+1])',
        'CONV-RANGE / INT-INTERCEPT: in every segment evaluator the floating estimate is bounded above by a constant before it is converted to an integer, and the integer intercept is added after the conversion, in integer arithmetic (never converted to Floating, whose mantissa is 24 bits by default)',
        'TABLE-WIDTH: every value stored in a cell of the bit-compressed top-level table (segment indices up to and including segments.size()) fits the cell width BIT_WIDTH(M) (interval dataflow)',
    ],
    'not_decided': 'table bounds and the overflow guard arithmetic of build_top_level (numeric)',
    'explanation': 'Clause-level static claim for C09.',
}
PROPS['C10'] = {
    'level': 'other', 'rules': rules_c10,
    'decides': [
        'RANGE-FORM, CLAMP, CAP (segments[r] vs segments[r+1]), AGREE-EPS',
        'REBASE-AGREE: the constructor stores key-first_key for every segment except the sentinel, built after the rebase loop; search queries pred(k-first_key) and evaluates the model at origin+first_key',
        'SELECT-RANGE: in pred(), the value whose high part feeds ef.high_0_select is bounded by size()-1 on every path (interval dataflow over the guard and the increment), so the rank never exceeds the number of buckets; the beyond-universe branch selects the last stored element',
        'CONV-RANGE / INT-INTERCEPT: in every segment evaluator the floating estimate is bounded above by a constant before it is converted to an integer, and the integer intercept is added after the conversion, in integer arithmetic (never converted to Floating, whose mantissa is 24 bits by default)',
        'EF-LAST: beyond the universe pred() returns the last coded element by the Elias-Fano access formula; SENTINEL-EXCLUDED: the range of segment keys handed to sd_vector is delimited under a comparison with the sentinel',
    ],
    'not_decided': 'correctness of the rest of pred() over the high/low bit arrays (bit-level arithmetic on runtime values)',
    'explanation': 'Clause-level static claim for C10.',
}


PROPS['C19'] = {
    'level': 'proof', 'rules': p_own.rules_c19,
    'technique': 'static analysis: ownership/alias classification of record layouts and special member functions over the instantiated clang AST (OWN-ALIAS), plus field coverage of user-provided copy/move operations',
    'decides': [
        'OWN-ALIAS: for the six listed classes, transitively through fields, bases and container element types, every component is a value, an owning container of values, a deep-owned pointer (no copy operation copies it, every move that takes it nulls the source), a reference bound to the object itself by its default member initialiser, or an aliasing component that every provided copy/move operation re-targets to the own member after its last write',
        'FIELD-COVER: every user-provided copy/move operation of a pgm:: record transfers every field of the source (so a copy answers like its source, given that queries are functions of the object state: C16)',
    ],
    'not_decided': '-',
    'explanation': 'Full static claim for C19: a copy or move of a listed index class cannot refer to storage owned by the source, because no reachable component aliases it; '
                   'combined with FIELD-COVER and C16 (queries read only the object\'s own state) the copy answers like the source. Deleted operations are not provided and outside the property.',
    'trusted_base': DEFAULT_TRUSTED_BASE + ['the table of owning std containers in rules/p_own.py (std::vector, basic_string, pair, tuple, set, ...)',
                                            'implicit/defaulted special members copy member-wise (C++ semantics)'],
    'assumptions': ['user-supplied key/value types are themselves values', 'the driver exercises all four special operations of every listed class (checked on every run)'],
}


PROPS['C20'] = {
    'level': 'proof', 'rules': p_guards.rules_c20,
    'technique': 'static analysis: guard dominance on the instantiated CFG (throw of the documented type, under the documented condition, dominating the first effect), finite-domain evaluation of the base check, call-graph closure of segmentation callers, try/catch shape of the C boundary',
    'decides': [
        'G1/G2: PGMIndex::build and the CompressedPGMIndex constructor throw std::invalid_argument under `last element == sentinel`, dominating every segmentation call; G3: no other pgm::/cpgm function calls make_segmentation{,_par}, and every index construction goes through build()',
        'G4: DynamicPGMIndex(base,...) throws for exactly the non-powers-of-two among 2..255 (condition evaluated exhaustively) before any level is allocated; G5: the bulk-load constructor throws when the next key is smaller than the last stored key, before the pair is stored; G6: ItemA(key,value) throws under value == tombstone; G7: range() throws under lo > hi before any level is read',
        'G8: the Multidimensional constructor tests the width of every coordinate before encoding (std::runtime_error) and RangeIterator throws std::invalid_argument under zmin > zmax before searching',
        'G9: add_point throws std::logic_error under `hull non-empty && x <= last_x` before any state change, and last_x is updated to x on every accepted point; G10: the builder rejects a negative epsilon (vacuous for unsigned rank types)',
        'G11: the eight C *_create functions turn std::invalid_argument into NULL; G12: insert_or_assign constructs the (possibly throwing) Item before the first mutating call, so a rejected insert leaves the container unchanged',
    ],
    'not_decided': '-',
    'explanation': 'Full static claim for C20: each listed rejection is a dominance fact of the CFG plus a comparison of the guard condition with its specification '
                   '(by operand identity, or exhaustively for the finite-domain base check).',
    'assumptions': ['input data is sorted (the reserved value, being the largest, can only be the last element)'],
}


PROPS['C12'] = {
    'level': 'other', 'rules': p_mapped.rules_c12,
    'decides': [
        'CTOR-AGREE: the three MappedPGMIndex constructors (range, raw file, reopen) all establish n, first_key, segments, levels_offsets, data, file_bytes, header_bytes (through member initialisers, the base constructor, assignments, by-reference out-parameters and the member functions they call)',
        'SER-AGREE: the loader reads exactly the (helper kind, field) list the serialiser wrote, in order; every header write is added to header_bytes; header_bytes is patched at offset 0 after the keys; the keys are written one per element through the iterator; both sides compute file_bytes = header_bytes + n*sizeof(K) and map exactly that; begin() is data + header_bytes',
        'READONLY-REOPEN: the reopen constructor opens the stream with ios::in only (constant-evaluated openmode), and nothing in its call closure writes a stream or opens/maps the file writable (open flags O_RDONLY, mmap PROT_READ)',
        'SER-AGREE key-width: every key is written with sizeof(K) bytes whatever the value type of the range (driver instantiation with a different value type)',
    ],
    'not_decided': 'byte identity of the key area and of the segment contents between the two creating constructors (value-level); that answers are identical rests on C01/C02',
    'explanation': 'Clause-level static claim for C12: constructor, serialiser and loader agree structurally; a constructor that omits a field or a loader that disagrees with the writer breaks reopen equivalence.',
}


def rules_c16(ctx):
    obs = p_effect.rules_c16(ctx)
    if ctx.tier == 'thorough':
        obs += p_effect_ir.rules_ir(ctx)
    return obs


def extra_c16(ctx, obs):
    e = p_effect.extra(ctx, obs)
    for k in ('ir_externals_used', 'ir_externals_unlisted_anywhere_in_module', 'ir_functions_defined', 'ir_entry_points'):
        if k in ctx.stats:
            e[k] = ctx.stats[k]
    return e


PROPS['C16'] = {
    'level': 'proof', 'rules': rules_c16, 'extra': extra_c16,
    'selftests': [('EFFECT on selftest/pos/effect.cpp', p_effect.selftest)],
    'technique': 'static analysis: interprocedural write-effect analysis (abstract locations this / pointee-of-field / parameter / static storage, call-graph fixpoint of per-function summaries) over the instantiated clang AST; thorough tier adds an independent LLVM-IR store analysis',
    'decides': [
        'EFFECT: no reader entry point (search/segments_count/height of the static indexes; MappedPGMIndex contains/lower_bound/upper_bound/count/size/begin/end; '
        'MultidimensionalPGMIndex contains/range/begin/end and RangeIterator ++,*,->,==,!=; DynamicPGMIndex find/count/lower_bound/range/begin/end/size/empty and Iterator ++,*,->,==,!=; '
        'the extern "C" search/find/size/begin/lower_bound/iterator_next functions) can, through any call chain inside pgm::/sdsl::/mortonnd::, write the index object, memory reachable from it or static storage; '
        'no mutable field, non-constexpr static local or const-removing cast occurs on those paths. Writes to the iterator object itself, to locals and to out-parameters are thread-private.',
        'Because readers only read state that is immutable after construction, each call is a function of that state and its arguments (the "returns what it returns alone" clause).',
    ],
    'not_decided': 'size_in_bytes() of the Compressed / Elias-Fano variants (not among the listed query operations): it runs sdsl\'s serialiser against a null stream, whose structure-tree writes are guarded by a null test that this path-insensitive engine cannot evaluate',
    'explanation': 'Full static claim for C16: a data race needs a write to a location another thread accesses; the effect analysis shows that no reader path contains such a write. '
                   'The analysis does not rely on const qualifiers (MultidimensionalPGMIndex::contains/range are non-const): it classifies every write by the root of its access path.',
    'trusted_base': DEFAULT_TRUSTED_BASE + ['the table of external (std::/libc/builtin) callee effects in rules/effect.py; the entries actually used are listed in coverage.external_callee_table_used',
                                            'member functions returning references/pointers return sub-objects of (or memory owned by) their object'],
    'assumptions': ['user-supplied key/value types and callbacks have race-free const operations', 'each thread owns the iterator objects it advances'],
}


_DYN_ND = 'agreement with an ordered map over all histories (contents of the levels depend on the history), capacity arithmetic, the loser-tree tie-breaking over all interleavings: history/value-level'
PROPS['C05'] = {
    'level': 'other', 'rules': p_dynamic.rules_c05,
    'decides': [
        'TOMB-GUARD: merge<SkipDeleted=true> (drops a tombstone with its victim) is reached only under `i == used_levels - 1` for the very level i being merged',
        'MERGE-PRECEDENCE: in merge() the tie branch emits *first1 and advances both cursors, the skip-both branch requires SkipDeleted && first1->deleted(); at both call sites the first range is the local accumulator of newer levels and the second points into the container\'s level(i)',
        'TOMB-ESCAPE: find()/lower_bound() build an iterator to an item only on a path on which that item\'s deleted() was tested false (and, in lower_bound, its key is not in the set of keys erased in newer levels)',
        'LOOP-AGREE / KIND: levels are probed from min_level upwards while i < used_levels, empty levels skipped, the per-level probe is FIRST_GE(key) narrowed by pgm(i).search(key) of the same level under has_pgm(i); find() returns at the first level whose probe equals the key',
    ],
    'not_decided': _DYN_ND,
    'explanation': 'Clause-level static claim for C05: the structural conditions whose violation resurrects an erased key or returns a stale value.',
}
PROPS['C06'] = {
    'level': 'other', 'rules': p_dynamic.rules_c06,
    'decides': [
        'TOMB-ESCAPE: range() copies an item out only under !deleted(); Iterator::advance moves `current` only to a cursor whose item is not deleted; TOMB-GUARD: range() merges with SkipDeleted=false',
        'LOOP-AGREE: the four level loops (find, range, lower_bound, Iterator::lazy_initialize) have the same bounds, direction, emptiness skip and index-narrowing idiom',
        'KIND: lazy_initialize positions every cursor at FIRST_GT(current key); range slices [FIRST_GE(lo), FIRST_GT(hi))',
        'DERIVED: size(), empty(), count(), begin() call only begin/end/lower_bound/find and read no container state directly',
        'NARROW-SCOPE: bounds derived from pgm(i).search(k) (the epsilon window) are used only as arguments of a binary search, never to bound the forward scan of lower_bound()/range()/the iterator',
    ],
    'not_decided': _DYN_ND,
    'explanation': 'Clause-level static claim for C06.',
}
PROPS['C15'] = {
    'level': 'other', 'rules': p_dynamic.rules_c15,
    'decides': [
        'INDEX-SYNC: in pairwise_merge, insert and the bulk-load constructor every mutation of level(x), x not the buffer level, is followed on all paths (before the function returns or moves to the next level) by `if (has_pgm(x)) pgm(x) = ...`, '
        'with PGMType() when the level was emptied and PGMType(level(x).begin(), level(x).end()) when it was refilled',
        'MERGE-PRECEDENCE (emission clauses): merge() emits the smaller element of the two runs, one element on a tie, and emits in bulk only after one run is exhausted or under a guard that puts one whole run strictly before the other - necessary for a merged level to stay strictly sorted',
    ],
    'not_decided': 'sortedness of the levels as a whole, capacity bounds, "no data beyond the used levels": history and arithmetic',
    'explanation': 'Clause-level static claim for C15 (the index-in-sync clause): a stale or missing per-level index is exactly the violation of the last clause of the property, while answers stay right for most keys.',
}


PROPS['C03'] = {
    'level': 'other', 'rules': p_segmentation.rules_c03,
    'decides': [
        'NO-DROP: a point rejected by the builder is re-added (same x, y) after out(opt.get_segment()), under the false outcome only; the final out(opt.get_segment()) is on every path and outside any loop',
        'RANK-AGREE: every add has one of three shapes: (in(e), e); gap point (succ(in(i)), i) guarded by succ(in(i)) < in(i+1) (GAP-GUARD, decided by normal form); closing point (succ(in(n-1)), n) - succ is +1 or nextafter(., +inf)',
        'OMP-ORDER: inside the parallel region only chunk-private state, the reduction variable and results[i] are written; the caller\'s callback is neither used nor captured inside; it is invoked after the region in chunk order; the last chunk ends at n (proved by normal form, refuted by a concrete witness)',
        'PRECISION: the intersection point, slope range and floating-point segment are computed in long double throughout (no narrower cast or arithmetic); KEY-ARITH: no difference/sum of two keys is evaluated in a signed type of the key\'s width; GEOM-GUARDS: the two cut tests and the two hull-tightening tests of add_point are the strict comparisons of the algorithm',
        'INDEX-COVER: every rank of a chunk [start, end) is fed to the builder or duplicates its predecessor, for every chunk length (abstract model of the chunk bounds); SLOPE-ORDER / GEOM-GUARDS in the form the epsilon bound needs (a point outside the rectangle is never accepted; the tighten conditions are exact)',
    ],
    'not_decided': 'the epsilon bound itself: |line(x) - y| <= epsilon + rounding needs the exact geometry of the hull update and of get_floating_point_segment; no static argument in reach',
    'explanation': 'Clause-level static claim for C03: no point is dropped, ranks are the keys\' indices, points and segments come out in order; the numeric bound is not claimed.',
}
PROPS['C04'] = {
    'level': 'other', 'rules': p_segmentation.rules_c04,
    'decides': [
        'CUT-SITES: a segment is closed only under the false outcome of add_point or at the final flush; the driver never resets the builder',
        'REJECT-ONLY-GEOMETRIC: `return false` of add_point depends only on the two cut comparisons (never on a counter, size or index)',
        'GEOM-GUARDS: the cut tests are the strict comparisons p1-r[2] < r[2]-r[0] and p2-r[3] > r[3]-r[1] (a non-strict test cuts segments that could be extended), the tightening tests are strict likewise',
        'SLOPE-ORDER: Slope::operator< / > / == / != are exactly their own relation on the cross products, so the strict tests of add_point are strict',
        'CHUNK-COUNT: the parallel builder cuts the data into exactly `parallelism` chunks (the bound of the parallel loop is that variable; a bound that evaluates to more on a concrete (n, parallelism) is refuted by that witness)',
    ],
    'not_decided': 'that outside_line1/2 are exactly infeasibility (needs the convex-hull invariant), the segment-count bounds: value-level',
    'explanation': 'Clause-level static claim for C04: any additional cut, or a rejection that depends on something other than the geometric test, yields a non-maximal segment for some input while every test still passes.',
}


PROPS['C17'] = {
    'level': 'other', 'rules': p_memory.rules_c17,
    'selftests': [('END-GUARD on selftest/pos/endguard.cpp', selftest_endguard), ('ITER-INVALIDATION on selftest/pos/iterinv.cpp', selftest_iterinv)],
    'decides': [
        'END-GUARD over every pgm:: function and the C interface: no dereference or increment of an iterator on a path that has just established it equals end(), also across calls of member functions of the same object (a callee entered with the field at end() must re-test it first)',
        'SENTINEL: every level built by build() and every CompressedLevel key array ends with the sentinel on all construction paths, and no data key equals the sentinel (checks G1/G2 dominate the segmentation)',
        'CLAMP / CAP / N-CAP / KIND: the query key is clamped (no negative segment index), the position estimate is capped by the next intercept, hi is capped by n, the compressed segment index derives from a LAST_LE position',
        'SELECT-RANGE: EliasFanoPGMIndex::pred() hands ef.high_0_select a rank within the number of buckets on every path (the beyond-universe guard covers the incremented value)',
        'BACK-GUARD: front()/back() of a member container in a query only under an emptiness test or a recorded constructor invariant; SENTINEL-EXCLUDED (Elias-Fano constructor)',
        'ITER-INVALIDATION: no single-definition iterator into a std::vector is read after a push_back/emplace_back/insert/resize/reserve/erase/clear of that vector that its definition reaches (re-definitions respected), and no closure holding such an iterator is passed to a call together with a closure that grows the vector',
        'IN-RANGE: every read in(e) of the segmentation driver has 0 <= e < n on every path that reaches it, including the operand order of its own condition (abstract model of the driver: all chunk lengths, followed or not by more data, every duplicate pattern)',
    ],
    'not_decided': 'memory safety of the unchecked scans as a whole: it rests on numeric invariants (predictions within the window, intercepts <= n, top_level[j+1], ef.low[...] and loser-tree indices) that no static argument in reach bounds',
    'explanation': 'Clause-level static claim for C17: the structural part of memory safety (end-guards, sentinels, clamps and caps); out-of-bounds accesses that depend on numeric invariants are not claimed.',
}
PROPS['C18'] = {
    'level': 'other', 'rules': p_cwrap.rules_c18,
    'decides': [
        'WRAPPER-AGREE: PGMWrapper::search satisfies RANGE-FORM / CLAMP / CAP with E = the run-time epsilon field, which is initialised from the same constructor parameter that reaches the level-0 segmentation (from the extern "C" create function); EPSILON_RECURSIVE passed to build equals the EpsilonRecursive of the inherited routing code; the constructor establishes n, first_key, segments, levels_offsets like PGMIndex(first, last)',
        'FORWARD: each of the 16 static and 52 dynamic extern "C" functions reaches exactly the named C++ operation on its index argument with its own parameters in order; _find writes *value (and returns true) only under it != end(); _iterator_next tests end() before any dereference and reads key/value before advancing',
        'EXC-BOUNDARY: every _create has its new inside a try whose handler catches std::invalid_argument and returns nullptr; the rejection of a reserved last key that this turns into NULL is thrown inside PGMIndex::build(), which the wrapper calls directly (not in a constructor the wrapper never runs)',
    ],
    'not_decided': 'the behaviour of the wrapped classes themselves (C01/C02/C05/C06)',
    'explanation': 'Clause-level static claim for C18 on c-interface/cpgm.cpp analysed as built (macro-generated functions are analysed after expansion).',
}


PROPS['C11'] = {
    'level': 'other', 'rules': p_mapped.rules_c11,
    'decides': [
        'KIND: lower_bound(key) is FIRST_GE(key) and contains(key) is std::binary_search, both over exactly [begin() + search(key).lo, begin() + search(key).hi) for the same key',
        'KIND (upper_bound, gallop-window validity): the gallop starts from FIRST_GT(key) or FIRST_GE(key) inside the PGM range; step starts at 1 and only doubles; the loop continues only while `it + step < end()` (evaluated before the probe) and the probed element is == / <= key; the result is FIRST_GT(key) over [it + step/2, min(it + step, end())) or a valid slower window',
        'count(key): every non-constant return is distance(lower_bound(key), upper_bound(key)) in that order; a constant 0 is returned only where the path condition implies absence (lb == end() or *lb != key); the guard itself is optional',
        'DERIVED: size() is n, end() is begin() + size(), begin() is the mapping base plus header_bytes bytes (one-byte pointee)',
    ],
    'not_decided': 'that the four results equal those of the std algorithms on every sequence: this rests on the numeric epsilon guarantee (C01/C02) for the stored keys and on the arithmetic of the gallop; value-level',
    'explanation': 'Clause-level static claim for C11. (The first version of the design listed C11 as not applicable; the clauses above are structural necessary conditions of the same kind as those claimed for C02/C13 and are decided by the same engines.)',
}
