"""Which rules decide which property, at which claimed level, with which confirmed instance counts."""
import json
import os

import extract
import endguard
import p_multidim

VERIF = os.path.dirname(os.path.dirname(os.path.abspath(__file__)))

MIN_CONSTEXPR_IFS = 16

DEFAULT_TRUSTED_BASE = [
    'clang 14 front end: template instantiation, overload resolution, constant evaluation and clang::CFG construction',
    'tool/pgmfacts.cc faithfully exports the AST/CFG (no rule logic inside)',
    'the configuration matrix of units/gen_units.py covers every `if constexpr` arm (checked on every run)',
]
DEFAULT_ASSUMPTIONS = [
    'the verdict concerns the clauses named in coverage.decided_clauses, not the behaviour as a whole (see coverage.not_decided)',
    'size_t arithmetic in the range expressions does not wrap (positions are bounded by n)',
]

_EXPECT = None


def expect_for(prop):
    global _EXPECT
    if _EXPECT is None:
        _EXPECT = json.load(open(os.path.join(VERIF, 'rules', 'expect.json')))
    return _EXPECT.get(prop, {})


def selftest_endguard():
    u = extract.load_selftest('endguard')
    bad, good = 0, 0
    for f in u.functions.values():
        if not f.tname.startswith('pos::'):
            continue
        r = endguard.analyse(f)
        if f.name.startswith('bad_'):
            if not r['violations']:
                return False
            bad += 1
        if f.name.startswith('good_') and (r['violations'] or r['undecided']):
            return False
        if f.name.startswith('good_'):
            good += 1
    return bad >= 2 and good >= 4


PROPS = {}

PROPS['C13'] = {
    'level': 'other',
    'rules': p_multidim.rules_c13,
    'selftests': [('END-GUARD on selftest/pos/endguard.cpp', selftest_endguard)],
    'decides': [
        'EMIT-GUARD: RangeIterator publishes a point (p = Decode(*it)) only under box_zcontains(zmin, zmax, *it) == true, and operator* returns exactly p',
        'KIND: after a Z-order skip the cursor is FIRST_GE(bigmin) (not FIRST_GT) inside pgm.search(bigmin) when next examined; the initial cursor is FIRST_GE(zmin)',
        'END-GUARD: no dereference of the cursor on a path on which it was just found equal to data.end()',
    ],
    'not_decided': 'bigmin()/load() bit arithmetic, Morton encode/decode, termination of the skip loop: value-level, not decidable from the shape of the code',
    'explanation': 'Clause-level static claim for C13: three structural necessary conditions of "range() enumerates exactly the points in the box" '
                   'are decided on the instantiated AST/CFG of RangeIterator for every instantiated configuration; the numeric part (bigmin) is not claimed.',
}

PROPS['C14'] = {
    'level': 'other',
    'rules': p_multidim.rules_c14,
    'selftests': [('END-GUARD on selftest/pos/endguard.cpp', selftest_endguard)],
    'decides': [
        'TRUE-IMPLIES-EQ: contains() evaluates to true only when the element at lower_bound(encode(p)) compared equal to the query (no false positive)',
        'KIND: the compared position is FIRST_GE(encode(p)) within [search(encode(p)).lo, .hi)',
        'END-GUARD: the element is not dereferenced on the branch on which the position equals data.end()',
    ],
    'not_decided': 'the "present => true" half rests on the inner index bracketing the lower bound (C02, numeric); not claimed here',
    'explanation': 'Clause-level static claim for C14 (the no-false-positive half and memory safety of the comparison), decided on the short-circuit CFG of contains() '
                   'for every instantiated configuration.',
}
