"""Runs tool/pgmfacts over the driver units and /repo's own TUs; caches by content hash.

The cache key covers every file under /repo/include and /repo/c-interface, the unit source,
the compile flags and the tool binary, so an edited tree is always re-analysed while the 19
property checks of an unedited tree share one extraction.
"""
import hashlib
import json
import os
import shlex
import subprocess
import sys
import tempfile
from concurrent.futures import ThreadPoolExecutor

VERIF = os.path.dirname(os.path.dirname(os.path.abspath(__file__)))
REPO = os.environ.get('PGM_REPO', '/repo')
CACHE = os.environ.get('PGM_CACHE') or os.path.join(VERIF, '.cache')
TOOL = os.path.join(VERIF, 'tool', 'pgmfacts')

sys.path.insert(0, os.path.join(VERIF, 'units'))
sys.path.insert(0, os.path.join(VERIF, 'rules'))

from ir import Unit, AnalysisBroken  # noqa: E402


def repo_flags():
    """compile flags of the real build (from ninja's compdb when a build dir exists)"""
    flags = None
    bn = os.path.join(REPO, '_build', 'build.ninja')
    src = 'cmake defaults (CMakeLists.txt: CXX_STANDARD 17, -march=native, OpenMP)'
    if os.path.exists(bn):
        try:
            out = subprocess.run(['ninja', '-C', os.path.join(REPO, '_build'), '-t', 'compdb'], capture_output=True, text=True, timeout=60)
            db = json.loads(out.stdout)
            for e in db:
                if e['file'].endswith('cpgm.cpp') or e['file'].endswith('tests.cpp'):
                    toks = shlex.split(e['command'])
                    keep = []
                    for t in toks[1:]:
                        if t.startswith('-std=') or t.startswith('-march=') or t == '-fopenmp':
                            keep.append(t)
                    if keep:
                        flags = keep
                        src = 'ninja -t compdb of ' + os.path.join(REPO, '_build')
                        break
        except Exception:
            flags = None
    if not flags:
        flags = ['-std=gnu++17', '-march=native', '-fopenmp']
    if not any(f.startswith('-std=') for f in flags):
        flags.insert(0, '-std=gnu++17')
    flags = sorted(set(flags), key=flags.index)
    flags += ['-UNDEBUG', '-w', '-I' + os.path.join(REPO, 'include'), '-I' + os.path.join(REPO, 'c-interface')]
    return flags, src


def _hash_tree():
    h = hashlib.sha256()
    for base in ('include', 'c-interface'):
        root = os.path.join(REPO, base)
        for dp, dn, fn in sorted(os.walk(root)):
            dn.sort()
            for f in sorted(fn):
                p = os.path.join(dp, f)
                h.update(p.encode())
                with open(p, 'rb') as fh:
                    h.update(fh.read())
    with open(TOOL, 'rb') as fh:
        h.update(fh.read())
    return h.hexdigest()


_tree_hash = None


def tree_hash():
    global _tree_hash
    if _tree_hash is None:
        _tree_hash = _hash_tree()
    return _tree_hash


def extract(name, source_text=None, source_path=None, flags=None, extra_hash='', scope=None):
    """returns path of the facts JSON for one unit (cached)"""
    os.makedirs(CACHE, exist_ok=True)
    if flags is None:
        flags, _ = repo_flags()
    h = hashlib.sha256()
    h.update(tree_hash().encode())
    h.update(' '.join(flags).encode())
    h.update(extra_hash.encode())
    if source_text is not None:
        h.update(source_text.encode())
    else:
        with open(source_path, 'rb') as fh:
            h.update(fh.read())
        h.update(source_path.encode())
    key = h.hexdigest()[:24]
    out = os.path.join(CACHE, f'{name}-{key}.json')
    if os.path.exists(out):
        return out
    if source_text is not None:
        src = os.path.join(CACHE, f'{name}-{key}.cpp')
        with open(src, 'w') as fh:
            fh.write(source_text)
    else:
        src = source_path
    scope = scope or (os.path.join(REPO, 'include') + '/,' + os.path.join(REPO, 'c-interface') + '/')
    tmp = out + f'.tmp{os.getpid()}'
    cmd = [TOOL, src, '--out=' + tmp, '--scope=' + scope, '--'] + flags
    p = subprocess.run(cmd, capture_output=True, text=True)
    if p.returncode != 0 or not os.path.exists(tmp):
        if os.path.exists(tmp):
            os.unlink(tmp)
        err = (p.stderr or '')
        lines = [l for l in err.splitlines() if 'error' in l][:5]
        raise AnalysisBroken(f"unit {name} does not parse with the build flags (pgmfacts exit {p.returncode}): " + ' | '.join(lines)[:800])
    os.replace(tmp, out)
    return out


def prune_cache(keep_hash):
    """remove cache entries of other tree states (disk is limited)"""
    try:
        ents = os.listdir(CACHE)
    except FileNotFoundError:
        return
    if len(ents) < 240:
        return
    ents = sorted(ents, key=lambda e: os.path.getmtime(os.path.join(CACHE, e)))
    for e in ents[:len(ents) - 170]:
        try:
            os.unlink(os.path.join(CACHE, e))
        except OSError:
            pass


def load_units(tier, want_cpgm=True, want_repo_tus=False, jobs=16):
    """returns (units: list[Unit], info dict)"""
    import gen_units
    flags, flag_src = repo_flags()
    todo = []
    for name, src, cfgs in gen_units.units_for(tier):
        todo.append(('drv_' + name, src, None))
    if want_cpgm:
        todo.append(('cpgm', None, os.path.join(REPO, 'c-interface', 'cpgm.cpp')))
    if want_repo_tus:
        for rel in ('test/tests.cpp', 'examples/simple.cpp', 'examples/updates.cpp', 'examples/mapped.cpp',
                    'examples/multidimensional.cpp', 'examples/multiset.cpp'):
            p = os.path.join(REPO, rel)
            if os.path.exists(p):
                todo.append(('repo_' + rel.replace('/', '_').replace('.cpp', ''), None, p))

    def run(item):
        name, text, path = item
        return name, extract(name, source_text=text, source_path=path, flags=flags)

    with ThreadPoolExecutor(max_workers=jobs) as ex:
        paths = list(ex.map(run, todo))
    units = []
    for name, p in paths:
        u = Unit(p)
        u.name = name
        units.append(u)
    prune_cache(tree_hash())
    info = {'flags': flags, 'flags_source': flag_src, 'units': [n for n, _ in paths], 'tree_hash': tree_hash()[:16]}
    return units, info


def load_selftest(name):
    """extract a selftest/pos/<name>.cpp example (does not depend on /repo's tree except flags)"""
    path = os.path.join(VERIF, 'selftest', 'pos', name + '.cpp')
    flags = ['-std=gnu++17', '-UNDEBUG', '-w', '-I' + os.path.join(REPO, 'include')]
    out = extract('pos_' + name, source_path=path, flags=flags, scope=os.path.join(VERIF, 'selftest') + '/')
    u = Unit(out)
    u.name = 'pos_' + name
    return u
