"""C16: no reader entry point writes shared state (EFFECT engine, AST level)."""
import effect
from common import Ob, OK, VIOLATED, UNDECIDED, AnalysisBroken

THIS = ('this',)

STATIC_QUERIES = ['search', 'segments_count', 'height', 'size_in_bytes']
# (class tname, method names, kind): kind 'index' = *this is the shared object; 'iterator' = *this is thread-private,
# everything reached through its pointer/iterator fields is shared
ENTRY = [
    ('pgm::PGMIndex', STATIC_QUERIES + ['segment_for_key'], 'index'),
    # size_in_bytes of the Compressed / Elias-Fano variants is not among the query operations C16 lists; it runs sdsl's
    # serialiser against a null stream, which writes through a structure-tree pointer that is null on that path - a fact
    # this path-insensitive engine cannot establish, so the operation is left out rather than claimed.
    ('pgm::CompressedPGMIndex', ['search', 'segments_count', 'height'], 'index'),
    ('pgm::BucketingPGMIndex', STATIC_QUERIES + ['segment_for_key'], 'index'),
    ('pgm::EliasFanoPGMIndex', ['search', 'segments_count', 'height', 'pred'], 'index'),
    ('pgm::MappedPGMIndex', ['contains', 'lower_bound', 'upper_bound', 'count', 'size', 'begin', 'end', 'file_size_in_bytes'], 'index'),
    ('pgm::MultidimensionalPGMIndex', ['contains', 'range', 'begin', 'end', 'size_in_bytes'], 'index'),
    ('pgm::MultidimensionalPGMIndex::RangeIterator', ['operator++', 'operator*', 'operator->', 'operator==', 'operator!=', 'RangeIterator', 'advance'], 'iterator'),
    ('pgm::DynamicPGMIndex', ['find', 'count', 'lower_bound', 'range', 'begin', 'end', 'size', 'empty', 'size_in_bytes', 'index_size_in_bytes'], 'index'),
    ('pgm::DynamicPGMIndex::Iterator', ['operator++', 'operator*', 'operator->', 'operator==', 'operator!=', 'Iterator', 'lazy_initialize', 'advance'], 'iterator'),
]
# extern "C" readers: parameter 0 is the shared index object, the other parameters are caller-private
C_READERS = ['_search', '_size_in_bytes', '_find', '_size', '_begin', '_lower_bound', '_iterator_next', '_index_size_in_bytes']


def shared_root(r, kind):
    """is abstract location r shared between reader threads for an entry point of this kind?"""
    if r[0] == 'global':
        return True
    if kind == 'index':
        return r == THIS or (r[0] == 'ptr' and _base(r) == THIS)
    if kind == 'iterator':
        return r[0] == 'ptr' and _base(r) == THIS
    if kind == 'c':
        return (r == ('param', 0)) or (r[0] == 'ptr' and _base(r) == ('param', 0))
    return False


def _base(r):
    while r[0] == 'ptr':
        r = r[1]
    return r


def entry_points(u):
    out = []
    for cls, names, kind in ENTRY:
        for n in names:
            for f in u.fns(cls + '::' + n):
                if f.d.get('special') in ('copy_ctor', 'move_ctor', 'copy_assign', 'move_assign', 'dtor', 'default_ctor'):
                    continue
                if n == 'operator++' and len(f.params) == 1:
                    continue   # postfix ++ (ill-formed for DynamicPGMIndex::Iterator, unused elsewhere)
                out.append((f, kind))
    for f in u.functions.values():
        if f.d.get('extern_c') and any(f.name.endswith(s) for s in C_READERS):
            out.append((f, 'c'))
    return out


def rules_c16(ctx):
    obs = []
    ext_all = {}
    n_entries = 0
    n_closure = 0
    for u in ctx.all_units():
        eps = entry_points(u)
        if not eps:
            continue
        eng = effect.Effects(u)
        closure = eng.compute([f for f, _ in eps])
        n_closure += len(closure)
        ext_all.update(eng.ext_used)
        # per entry point: reachable functions (obligation = one per (entry, reachable function))
        for (f, kind) in eps:
            n_entries += 1
            s = eng.summary.get(f.id, {})
            bad = [(r, w) for r, w in s.items() if shared_root(r, kind)]
            unk = [(r, w) for r, w in s.items() if r[0] == 'unknown']
            reach = _reach(eng, f)
            flagged = []
            for g in reach:
                for (k, node, txt) in eng.flags.get(g.id, []):
                    if k == 'mutable':
                        flagged.append(f"{g.tname} ({g.loc(node)}): {txt}")
                    elif k == 'static_local':
                        flagged.append(f"{g.tname} ({g.loc(node)}): {txt}")
                    elif k == 'const_cast':
                        # a const-removing cast matters only if the result is written: covered by the write analysis;
                        # on a reader path we nevertheless require none
                        flagged.append(f"{g.tname} ({g.loc(node)}): {txt}")
                if g.tname.startswith('sdsl::memory_manager') or g.tname.startswith('sdsl::memory_monitor'):
                    flagged.append(f"reaches sdsl's process-global memory tracker: {g.tname}")
            req = 'no write to the index object, to memory reachable from it, or to static storage'
            if bad:
                r, w = bad[0]
                obs.append(Ob('EFFECT', f, w[0], req, f"writes {fmt_root(r)}: " + eng.chain(f.id, r), VIOLATED, arm=f.name))
            elif flagged:
                obs.append(Ob('EFFECT', f, 0, req + '; no mutable field, static local or const-removing cast on the path', flagged[0], VIOLATED, arm=f.name))
            elif unk:
                r, w = unk[0]
                obs.append(Ob('EFFECT', f, w[0], req, f"cannot classify: {r[1]}: " + eng.chain(f.id, r), UNDECIDED, arm=f.name))
            else:
                priv = sorted(fmt_root(r) for r in s)
                obs.append(Ob('EFFECT', f, 0, req,
                              f"{len(reach)} reachable functions; all writes are to " + ('locals only' if not priv else 'locals and ' + ', '.join(priv)[:120]) +
                              (' (thread-private)' if priv else ''), OK, arm=f.name))
    ctx.stats['effect_external_table_used'] = {k: v for k, v in sorted(ext_all.items())}
    ctx.stats['effect_entry_points'] = n_entries
    ctx.stats['effect_closure_functions'] = n_closure
    unlisted = [k for k, v in ext_all.items() if 'UNLISTED' in v or 'UNDEFINED' in v]
    if n_entries < 40:
        raise AnalysisBroken(f"EFFECT: only {n_entries} reader entry points found")
    return obs


def _reach(eng, f):
    seen = {f.id}
    todo = [f]
    out = []
    while todo:
        g = todo.pop()
        out.append(g)
        for i in g.calls():
            nd = g.n(i)
            h = eng.closure.get(nd.get('cd'))
            if h is not None and h.id not in seen:
                seen.add(h.id)
                todo.append(h)
    return out


def fmt_root(r):
    if r == THIS:
        return '*this'
    if r[0] == 'ptr':
        return f"{fmt_root(r[1])}->{r[2]}"
    if r[0] == 'param':
        return f"parameter #{r[1]}"
    if r[0] == 'global':
        return f"static storage `{r[1]}`"
    if r[0] == 'cap':
        return 'a captured variable'
    return str(r)


def extra(ctx, obs):
    return {'external_callee_table_used': ctx.stats.get('effect_external_table_used', {}),
            'reader_entry_points': ctx.stats.get('effect_entry_points', 0),
            'functions_in_reader_closures': ctx.stats.get('effect_closure_functions', 0)}


def selftest():
    """EFFECT must flag every bad_* reader of selftest/pos/effect.cpp and no good_* reader"""
    import extract
    u = extract.load_selftest('effect')
    eps = []
    for f in u.functions.values():
        if f.tname.startswith('pos::Idx::') and (f.name.startswith('bad_') or f.name.startswith('good_')):
            eps.append((f, 'index'))
        if f.tname.startswith('pos::It::') and (f.name.startswith('bad_') or f.name.startswith('good_')):
            eps.append((f, 'iterator'))
    eng = effect.Effects(u)
    eng.compute([f for f, _ in eps])
    nb = ng = 0
    for f, kind in eps:
        s = eng.summary.get(f.id, {})
        bad = [r for r in s if shared_root(r, kind)]
        flagged = any(k in ('mutable', 'static_local') for g in _reach(eng, f) for (k, n, t) in eng.flags.get(g.id, []))
        unk = [r for r in s if r[0] == 'unknown']
        fired = bool(bad) or flagged
        if f.name.startswith('bad_'):
            if not fired:
                return False
            nb += 1
        else:
            if fired or unk:
                return False
            ng += 1
    return nb >= 6 and ng >= 4
