"""EFFECT (AST level): which memory may a function write, in terms of its own frame?

Abstract locations ("roots"):
  ('this',)              the object *this (its fields and everything it owns by value: elements of its containers)
  ('ptr', R, f)          the pointee of pointer / reference / iterator field f of an object rooted at R
  ('param', i)           the object bound to reference parameter i, or the pointee of pointer/iterator parameter i
  ('global', name)       static storage
  ('cap', decl)          (lambda bodies) a variable captured from the enclosing function
  ('unknown', why)       the analysis cannot tell
  locals / temporaries / freshly allocated memory are private and dropped.

L(e) = roots of the storage designated by lvalue e;  P(e) = roots of what pointer/iterator value e points to.
A function's summary is the set of non-private roots it may write through, obtained from its own write sites
(assignments, ++/--, mutating operators) and from its callees' summaries mapped through the call (fixpoint over
the call graph).  Callees outside the fact base (std::, libc, builtins) are summarised by the table below, which is
part of the trusted base and printed in the evidence; an external callee that is not in the table is reported as
('unknown', name) and makes the check exit 2.
"""
from ir import fmt_term

THIS = ('this',)
LOCAL = ('local',)

ASSIGN_OPS = {'=', '+=', '-=', '*=', '/=', '%=', '|=', '&=', '^=', '<<=', '>>='}
MUT_OPS = ASSIGN_OPS | {'++', '--'}

# ------------------------------------------------------------------------------------------------ external table
# callee name without template arguments -> effect:
#   'pure'        reads its arguments only
#   'mut_obj'     writes the object it is called on (non-const container member)
#   'out:<k>'     writes through argument k (an output iterator / reference)
#   'all_args'    may write every pointer/reference/iterator argument
#   'global'      writes process-global state
PURE_MEMBERS = {'begin', 'end', 'cbegin', 'cend', 'rbegin', 'rend', 'size', 'empty', 'capacity', 'data', 'front', 'back', 'at',
                'operator[]', 'operator*', 'operator->', 'find', 'count', 'lower_bound', 'upper_bound', 'c_str', 'length', 'base', 'max_size',
                'key_comp', 'get_allocator', 'first', 'second', 'operator()', 'compare', 'substr', 'what', 'good', 'fail', 'eof', 'bad',
                'operator bool', 'operator==', 'operator!=', 'operator<', 'operator>', 'operator<=', 'operator>=', 'operator-', 'operator+',
                'bit_size', 'width', 'select', 'rank'}
MUT_MEMBERS = {'push_back', 'emplace_back', 'pop_back', 'resize', 'reserve', 'clear', 'insert', 'emplace', 'erase', 'assign', 'swap',
               'shrink_to_fit', 'operator=', 'operator+=', 'operator-=', 'operator++', 'operator--', 'append', 'emplace_hint', 'merge',
               'read', 'write', 'seekp', 'seekg', 'open', 'close', 'flush', 'operator<<', 'operator>>', 'get', 'put', 'imbue', 'str', 'fill', 'precision'}
PURE_FREE = {'std::min', 'std::max', 'std::prev', 'std::next', 'std::distance', 'std::lower_bound', 'std::upper_bound', 'std::binary_search',
             'std::equal_range', 'std::move', 'std::forward', 'std::addressof', 'std::get', 'std::tie', 'std::make_pair', 'std::make_tuple',
             'std::begin', 'std::end', 'std::abs', 'std::pow', 'std::sqrt', 'std::round', 'std::ceil', 'std::floor', 'std::log2', 'std::nextafter',
             'std::clamp', 'std::to_string', 'std::operator+', 'std::operator==', 'std::operator!=', 'std::operator<', 'std::operator>',
             'std::operator<=', 'std::operator>=', 'std::operator-', 'std::isnan', 'std::isinf', 'std::max_element', 'std::min_element',
             'std::accumulate', 'std::count', 'std::find', 'std::find_if', 'std::all_of', 'std::any_of', 'std::none_of', 'std::is_sorted',
             'std::forward_as_tuple', 'std::tuple_cat', 'std::as_const', 'std::move_if_noexcept', 'std::__niter_base', 'std::size',
             '__gnu_cxx::operator-', '__gnu_cxx::operator==', '__gnu_cxx::operator!=', '__gnu_cxx::operator<', '__gnu_cxx::operator>',
             '__gnu_cxx::operator<=', '__gnu_cxx::operator>=', '__gnu_cxx::operator+', 'std::operator|', 'std::operator&', 'std::apply', 'std::invoke',
             'std::for_each', 'strerror', 'strlen', 'memcmp', 'std::numeric_limits::max', 'std::numeric_limits::min', 'std::numeric_limits::lowest',
             'std::numeric_limits::infinity', 'std::make_index_sequence', 'std::data', 'std::cbegin', 'std::cend', 'std::isfinite', 'std::fabs',
             'std::log', 'std::exp', 'std::floor', 'std::trunc', 'std::ldexp', 'std::frexp', 'std::signbit', 'std::bit_cast', 'std::ref', 'std::cref'}
OUT_FREE = {'std::copy': [2], 'std::copy_n': [2], 'std::move_backward': [2], 'std::copy_backward': [2], 'std::fill': [0], 'std::fill_n': [0],
            'std::iota': [0], 'std::sort': [0], 'std::stable_sort': [0], 'std::swap': [0, 1], 'std::iter_swap': [0, 1], 'std::reverse': [0],
            'std::transform': [2], 'std::merge': [4], 'std::unique': [0], 'std::rotate': [0], 'std::exchange': [0], 'std::getline': [0, 1],
            'memcpy': [0], 'memmove': [0], 'memset': [0], 'std::uninitialized_copy': [2], 'std::partial_sum': [2], 'std::nth_element': [0],
            'std::inplace_merge': [0], 'std::generate': [0], 'std::replace': [0], 'std::remove': [0], 'std::remove_if': [0], 'std::tie_assign': [0]}
RET_IS_OUTPUT = {'std::copy': 2, 'std::copy_n': 2, 'std::move': 2, 'std::move_backward': 2, 'std::copy_backward': 2, 'std::transform': 2, 'std::merge': 4,
                 'std::uninitialized_copy': 2, 'std::partial_sum': 2, 'std::fill_n': 0}
REF_OUT = {'std::swap', 'std::exchange', 'std::getline', 'std::iter_swap'}
NORETURN_FREE = {'__assert_fail', 'abort', 'std::terminate', 'exit', '__builtin_unreachable', '__builtin_trap', 'std::abort'}
GLOBAL_FREE = {'rand', 'srand', 'printf', 'puts', 'fprintf', 'malloc', 'free', 'realloc', 'calloc', 'setlocale', 'time', 'clock', 'omp_set_num_threads'}
# std::move with three arguments is the algorithm (writes through the third), with one argument the cast


def _is_builtin_pure(nd):
    n = nd.get('cn', '')
    return nd.get('builtin') or n.startswith('__builtin_') or n.startswith('_pdep') or n.startswith('_pext') or n.startswith('_mm') or n.startswith('_tzcnt') or n.startswith('__tzcnt') or n.startswith('__lzcnt') or n.startswith('_lzcnt') or n.startswith('__popcnt') or n.startswith('_popcnt') or n.startswith('_bzhi') or n.startswith('_blsr')


class Effects:
    def __init__(self, unit):
        self.u = unit
        self.summary = {}       # fn id -> {root: witness}
        self.ext_used = {}      # external callee name -> classification used
        self.flags = {}         # fn id -> list of (kind, node, text)  mutable fields / const-removing casts / monitor calls
        self._L = {}
        self._P = {}

    # ------------------------------------------------------------------ roots
    def _collapse(self, r):
        # ('ptr', ('ptr', X, f), g) -> keep one level
        if r[0] == 'ptr' and r[1][0] == 'ptr':
            return ('ptr', r[1][1], '*')
        return r

    def ptr(self, roots, f):
        out = set()
        for r in roots:
            if r == LOCAL:
                out.add(('unknown', f'pointee of field {f} of a local object'))
            elif r[0] in ('unknown', 'global'):
                out.add(r)
            else:
                out.add(self._collapse(('ptr', r, f)))
        return out

    def var_info(self, fn, decl_id):
        return fn.defs.get(decl_id)

    def is_ref_type(self, tid):
        t = self.u.type(tid)
        return bool(t and t.get('ref'))

    def is_ptr_like(self, tid):
        t = self.u.base_type(tid)
        if not t:
            return False
        if t.get('ptr'):
            return True
        s = t.get('s', '')
        return 'iterator' in s or '__normal_iterator' in s

    # L: storage roots of an lvalue expression
    def L(self, fn, i, depth=0):
        key = (fn.id, i)
        if key in self._L:
            return self._L[key]
        self._L[key] = {('unknown', 'cyclic lvalue')}
        r = self._Lx(fn, i, depth)
        self._L[key] = r
        return r

    def _Lx(self, fn, i, depth):
        if depth > 40:
            return {('unknown', 'deep')}
        i = fn.strip(i, casts=True)
        if not i:
            return {LOCAL}
        nd = fn.n(i)
        c = nd['c']
        if c == 'DeclRefExpr':
            dk = nd.get('dk')
            if dk in ('global', 'static_member', 'static_local'):
                return {('global', nd.get('dq', nd['n']))}
            if dk == 'param':
                idx = next((k for k, p in enumerate(fn.params) if p['id'] == nd['d']), None)
                if idx is None:
                    if nd.get('captured'):
                        return {('cap', nd['d'])}
                    return {('unknown', 'param ' + nd['n'])}
                if self.is_ref_type(fn.params[idx]['t']):
                    return {('param', idx)}
                return {LOCAL}
            if dk in ('local', 'binding'):
                if nd.get('captured') and nd['d'] not in fn.defs:
                    return {('cap', nd['d'])}
                d = fn.defs.get(nd['d'])
                if d is None:
                    return {('cap', nd['d'])} if nd.get('captured') else {LOCAL}
                if d.get('binding_of'):
                    dd = fn.defs.get(d['binding_of'])
                    if dd and dd.get('init') and self.is_ref_type(dd.get('t', 0)):
                        return self.L(fn, dd['init'], depth + 1)
                    return {LOCAL}
                if nd.get('dref') and d.get('init'):
                    return self.L(fn, d['init'], depth + 1)
                return {LOCAL}
            if dk == 'function':
                return {LOCAL}
            return {LOCAL}
        if c == 'CXXThisExpr':
            return {LOCAL}   # the pointer value itself
        if c == 'MemberExpr':
            base = nd['ch'][0]
            if nd.get('dk') == 'static_member':
                return {('global', nd['n'])}
            if nd.get('dk') != 'field':
                return self.P(fn, base, depth + 1) if nd.get('arrow') else self.L(fn, base, depth + 1)
            owner = self.P(fn, base, depth + 1) if nd.get('arrow') else self.L(fn, base, depth + 1)
            if self.is_ref_type(nd.get('t', 0)) and False:
                return self.ptr(owner, nd['n'])
            # a reference-typed field designates another object
            ft = self.u.type(nd.get('t', 0))
            fld_is_ref = self._field_is_ref(nd)
            if fld_is_ref:
                return self.ptr(owner, nd['n'])
            return owner
        if c == 'UnaryOperator':
            if nd['op'] == '*':
                return self.P(fn, nd['ch'][0], depth + 1)
            if nd['op'] in ('++', '--') and not nd.get('postfix'):
                return self.L(fn, nd['ch'][0], depth + 1)
            if nd['op'] in ('__real', '__imag', '__extension__'):
                return self.L(fn, nd['ch'][0], depth + 1)
            return {LOCAL}
        if c == 'ArraySubscriptExpr':
            b = fn.strip(nd['ch'][0], casts=True)
            bt = self.u.type(fn.n(b).get('t', 0)) if b else None
            if bt and bt.get('arr'):
                return self.L(fn, b, depth + 1)
            return self.P(fn, nd['ch'][0], depth + 1)
        if c in ('BinaryOperator', 'CompoundAssignOperator'):
            if nd['op'] in ASSIGN_OPS:
                return self.L(fn, nd['ch'][0], depth + 1)
            if nd['op'] == ',':
                return self.L(fn, nd['ch'][1], depth + 1)
            if nd['op'] in ('.*', '->*'):
                return self.L(fn, nd['ch'][0], depth + 1)
            return {LOCAL}
        if c == 'ConditionalOperator':
            return self.L(fn, nd['ch'][1], depth + 1) | self.L(fn, nd['ch'][2], depth + 1)
        if c == 'CXXOperatorCallExpr':
            op = nd.get('op')
            args = nd.get('args', [])
            if op in ('[]',) and args:
                return self._elem(fn, args[0], depth)
            if op in ('*', '->') and len(args) == 1:
                return self.P(fn, args[0], depth + 1)
            if op in MUT_OPS and args:
                return self.L(fn, args[0], depth + 1)
            if op == '()' and args:
                return {LOCAL} if not self.is_ref_type(nd.get('t', 0)) and not nd.get('lv') else self.L(fn, args[0], depth + 1)
            return {LOCAL}
        if c == 'CXXMemberCallExpr':
            if not nd.get('lv'):
                return {LOCAL}
            obj = nd.get('obj')
            if not obj:
                return {('unknown', 'member call without object')}
            return self._elem(fn, obj, depth)
        if c == 'CallExpr':
            if not nd.get('lv'):
                return {LOCAL}
            out = set()
            for a in nd.get('args', []):
                out |= self.L(fn, a, depth + 1)
            return out or {LOCAL}
        return {LOCAL}

    def _field_is_ref(self, nd):
        # MemberExpr type is the referenced type; look the field up in its record
        for r in self.u.records.values():
            if r.get('tname') == nd.get('frec'):
                for f in r.get('fields', []):
                    if f['name'] == nd['n'] and f['id'] == nd['d']:
                        return bool(self.u.type(f['t']).get('ref'))
        return False

    def _elem(self, fn, obj, depth):
        """element / sub-object reached through an accessor of obj: owned containers keep the owner's root,
        iterator-like objects lead to their pointee"""
        o = fn.strip(obj, casts=True)
        t = self.u.base_type(fn.n(o).get('t', 0)) if o else None
        if t and (t.get('ptr') or 'iterator' in t.get('s', '')):
            return self.P(fn, obj, depth + 1)
        if self._is_arrow_obj(fn, obj):
            return self.P(fn, obj, depth + 1)
        return self.L(fn, obj, depth + 1)

    def _is_arrow_obj(self, fn, obj):
        o = fn.strip(obj, casts=True)
        t = self.u.type(fn.n(o).get('t', 0)) if o else None
        return bool(t and t.get('ptr'))

    # P: pointee roots of a pointer / iterator valued expression
    def P(self, fn, i, depth=0):
        key = (fn.id, i)
        if key in self._P:
            return self._P[key]
        self._P[key] = set()
        r = self._Px(fn, i, depth)
        self._P[key] = r
        return r

    def _Px(self, fn, i, depth):
        if depth > 40:
            return {('unknown', 'deep')}
        i = fn.strip(i, casts=True)
        if not i:
            return set()
        nd = fn.n(i)
        c = nd['c']
        if c == 'CXXThisExpr':
            return {THIS}
        if c in ('CXXNullPtrLiteralExpr', 'GNUNullExpr', 'IntegerLiteral', 'StringLiteral'):
            return set()
        if c == 'CXXNewExpr':
            return {LOCAL}
        if c == 'DeclRefExpr':
            dk = nd.get('dk')
            if dk == 'param':
                idx = next((k for k, p in enumerate(fn.params) if p['id'] == nd['d']), None)
                if idx is None:
                    return {('cap', nd['d'])} if nd.get('captured') else {('unknown', 'param')}
                return {('param', idx)}
            if dk in ('global', 'static_member', 'static_local'):
                return {('global', nd.get('dq', nd['n']))}
            if dk in ('local', 'binding'):
                d = fn.defs.get(nd['d'])
                if d is None:
                    return {('cap', nd['d'])} if nd.get('captured') else set()
                out = set()
                if d.get('binding_of'):
                    dd = fn.defs.get(d['binding_of'])
                    return self.P(fn, dd['init'], depth + 1) if dd and dd.get('init') else set()
                if d.get('init'):
                    out |= self.P(fn, d['init'], depth + 1)
                for w in d.get('writes', []):
                    wn = fn.n(w)
                    if wn['c'] == 'BinaryOperator' and wn['op'] == '=':
                        out |= self.P(fn, wn['ch'][1], depth + 1)
                    elif wn['c'] == 'CXXOperatorCallExpr' and wn.get('op') == '=' and len(wn.get('args', [])) == 2:
                        out |= self.P(fn, wn['args'][1], depth + 1)
                return out
            return set()
        if c == 'UnaryOperator':
            if nd['op'] == '&':
                return self.L(fn, nd['ch'][0], depth + 1)
            if nd['op'] in ('++', '--', '+', '-'):
                return self.P(fn, nd['ch'][0], depth + 1)
            if nd['op'] == '*':
                # pointer stored in the pointee of p
                return {self._collapse(('ptr', r, '*')) if r[0] not in ('unknown', 'global', 'local') else r for r in self.P(fn, nd['ch'][0], depth + 1)}
            return set()
        if c == 'MemberExpr':
            base = nd['ch'][0]
            if nd.get('dk') == 'field':
                owner = self.P(fn, base, depth + 1) if nd.get('arrow') else self.L(fn, base, depth + 1)
                return self.ptr(owner, nd['n'])
            return set()
        if c in ('BinaryOperator', 'CompoundAssignOperator'):
            if nd['op'] in ('+', '-', '+=', '-='):
                return self.P(fn, nd['ch'][0], depth + 1) | (self.P(fn, nd['ch'][1], depth + 1) if nd['op'] == '+' else set())
            if nd['op'] == '=':
                return self.P(fn, nd['ch'][1], depth + 1)
            if nd['op'] == ',':
                return self.P(fn, nd['ch'][1], depth + 1)
            return set()
        if c == 'ConditionalOperator':
            return self.P(fn, nd['ch'][1], depth + 1) | self.P(fn, nd['ch'][2], depth + 1)
        if c == 'ArraySubscriptExpr':
            return {self._collapse(('ptr', r, '*')) if r[0] not in ('unknown', 'global', 'local') else r for r in self.L(fn, i, depth + 1)}
        if c == 'CXXOperatorCallExpr':
            op = nd.get('op')
            args = nd.get('args', [])
            if op in ('+', '-', '++', '--', '+=', '-=') and args:
                return self.P(fn, args[0], depth + 1)
            if op == '=' and len(args) == 2:
                return self.P(fn, args[1], depth + 1)
            if op in ('[]', '*', '->') and args:
                return {self._collapse(('ptr', r, '*')) if r[0] not in ('unknown', 'global', 'local') else r for r in self.L(fn, i, depth + 1)}
            if op == '()' and args:
                out = set()
                for a in args[1:]:
                    out |= self.P(fn, a, depth + 1)
                return out
            return set()
        if c == 'CXXMemberCallExpr':
            obj = nd.get('obj')
            if not obj:
                return set()
            own = self._elem(fn, obj, depth)
            out = set(own)
            for r in own:
                if r[0] in ('this', 'param', 'ptr'):
                    out.add(self._collapse(('ptr', r, '*')))
            return out
        if c == 'CallExpr':
            # the output algorithms return an iterator into the range they wrote: it points where their output argument points
            ct_ = nd.get('ct', '')
            a_ = nd.get('args', [])
            if ct_ in RET_IS_OUTPUT and RET_IS_OUTPUT[ct_] < len(a_) and (ct_ != 'std::move' or len(a_) == 3):
                return self.P(fn, a_[RET_IS_OUTPUT[ct_]], depth + 1)
            out = set()
            for a in nd.get('args', []):
                out |= self.P(fn, a, depth + 1)
                an = fn.n(fn.strip(a, casts=True))
                if an.get('lv') and nd.get('cn') in ('begin', 'end', 'addressof', 'data', 'cbegin', 'cend', 'get'):
                    out |= self.L(fn, a, depth + 1)
            return out
        if c in ('CXXConstructExpr', 'CXXTemporaryObjectExpr', 'InitListExpr'):
            out = set()
            for a in nd.get('args', nd.get('ch', [])):
                out |= self.P(fn, a, depth + 1)
            return out
        if c == 'LambdaExpr':
            return set()
        return set()

    # ------------------------------------------------------------------ per-function direct effects
    def direct(self, fn):
        """[(roots, node, description)] direct writes, [(callee id or None, node, mapping info)] calls"""
        writes = []
        calls = []
        flags = []
        from cfg import graph
        reach = None
        if fn.cfg:
            reach = graph(fn).reach

        def live(i):
            if reach is None:
                return True
            pos = fn.block_of(i)
            return (not pos) or pos[0] in reach
        for i in fn.all_ids():
            nd = fn.n(i)
            c = nd['c']
            if not live(i):
                continue
            if c in ('BinaryOperator', 'CompoundAssignOperator') and nd['op'] in ASSIGN_OPS:
                writes.append((self.L(fn, nd['ch'][0]), i, 'assignment'))
            elif c == 'UnaryOperator' and nd['op'] in ('++', '--'):
                writes.append((self.L(fn, nd['ch'][0]), i, nd['op']))
            elif c == 'MemberExpr' and nd.get('mutable'):
                flags.append(('mutable', i, f"use of mutable field {nd['n']}"))
            elif c == 'CXXConstCastExpr':
                flags.append(('const_cast', i, 'const_cast'))
            elif c in ('CStyleCastExpr', 'CXXReinterpretCastExpr', 'CXXFunctionalCastExpr') and nd['ch']:
                dt = self.u.type(nd.get('t', 0))
                st = self.u.type(fn.n(nd['ch'][0]).get('t', 0))
                if dt and st and (dt.get('ptr') or dt.get('ref')) and (st.get('ptr') or st.get('ref')):
                    dto, sto = self.u.type(dt.get('to', 0)), self.u.type(st.get('to', 0))
                    if sto and dto and sto.get('const') and not dto.get('const'):
                        flags.append(('const_cast', i, 'cast removes const'))
            if c in ('CallExpr', 'CXXMemberCallExpr', 'CXXOperatorCallExpr', 'CXXConstructExpr', 'CXXTemporaryObjectExpr'):
                calls.append(i)
            if c == 'DeclStmt':
                for v in nd.get('vars', []):
                    if v.get('static') and not v.get('constexpr'):
                        flags.append(('static_local', i, f"non-constexpr static local {v['name']}"))
        return writes, calls, flags

    def ext_effect(self, fn, i):
        """effect of a call whose callee has no body in the fact base: list of (roots, description)"""
        nd = fn.n(i)
        c = nd['c']
        ct = nd.get('ct', '')
        cn = nd.get('cn', '')
        args = nd.get('args', [])
        out = []
        if nd.get('indirect'):
            self.ext_used['<indirect call>'] = 'unknown'
            return [({('unknown', 'indirect call')}, 'indirect call')]
        if _is_builtin_pure(nd):
            self.ext_used[ct] = 'builtin: pure'
            return []
        if c in ('CXXConstructExpr', 'CXXTemporaryObjectExpr'):
            # constructing a new object; library constructors read their arguments
            self.ext_used[ct + ' (constructor)'] = 'constructs a fresh object, reads its arguments'
            return []
        if c == 'CXXMemberCallExpr' or (c == 'CXXOperatorCallExpr' and nd.get('op_member')):
            obj = nd.get('obj') if c == 'CXXMemberCallExpr' else (args[0] if args else None)
            name = cn if c == 'CXXMemberCallExpr' else 'operator' + nd.get('op', '')
            if nd.get('cconst') or name in PURE_MEMBERS:
                self.ext_used[ct] = 'member: reads its object'
                return []
            if name in MUT_MEMBERS or (c == 'CXXOperatorCallExpr' and nd.get('op') in MUT_OPS):
                self.ext_used[ct] = 'member: writes its object'
                return [(self.L(fn, obj) if obj else {('unknown', ct)}, f"{name} on its object")]
            self.ext_used[ct] = 'UNLISTED non-const member'
            return [({('unknown', 'unlisted external member ' + ct)}, ct)]
        # free functions and non-member operators
        if c == 'CXXOperatorCallExpr':
            op = nd.get('op')
            if op in MUT_OPS and args:
                self.ext_used[ct] = 'operator: writes its first operand'
                return [(self.L(fn, args[0]), f"operator{op}")]
            self.ext_used[ct] = 'operator: pure'
            return []
        if ct == 'std::move' and len(args) == 3:
            self.ext_used['std::move (algorithm)'] = 'writes through argument 2'
            return [(self.P(fn, args[2]), 'std::move algorithm output')]
        if ct in OUT_FREE:
            self.ext_used[ct] = 'writes through arguments ' + str(OUT_FREE[ct])
            for k in OUT_FREE[ct]:
                if k < len(args):
                    # reference parameters designate the written object itself; iterator parameters point to it
                    roots = self.L(fn, args[k]) if ct in REF_OUT else self.P(fn, args[k])
                    out.append((roots, f"{ct} writes through argument {k}"))
            return out
        if ct in PURE_FREE or ct.startswith('std::numeric_limits') or ct.startswith('std::is_') or cn.startswith('operator'):
            self.ext_used[ct] = 'pure'
            return []
        if ct in NORETURN_FREE or cn in NORETURN_FREE:
            self.ext_used[ct] = 'does not return (assertion failure / abort)'
            return []
        if ct in GLOBAL_FREE or cn in GLOBAL_FREE:
            self.ext_used[ct] = 'global state'
            return [({('global', ct)}, ct)]
        if ct.startswith('mortonnd::') or ct.startswith('sdsl::') or ct.startswith('pgm::'):
            self.ext_used[ct] = 'UNDEFINED in-scope function (declared, no body)'
            return [({('unknown', 'no body for ' + ct)}, ct)]
        self.ext_used[ct] = 'UNLISTED external function'
        return [({('unknown', 'unlisted external ' + ct)}, ct)]

    # ------------------------------------------------------------------ summaries
    def compute(self, roots_fns):
        """closure + fixpoint of summaries for the functions reachable from roots_fns"""
        u = self.u
        closure = {}
        todo = list(roots_fns)
        info = {}
        while todo:
            f = todo.pop()
            if f.id in closure:
                continue
            closure[f.id] = f
            writes, calls, flags = self.direct(f)
            info[f.id] = (writes, calls)
            self.flags[f.id] = flags
            for i in calls:
                nd = f.n(i)
                callee = u.functions.get(nd.get('cd'))
                if callee is not None:
                    todo.append(callee)
                # lambdas passed to external callees
                for a in nd.get('args', []):
                    for j in f.walk(a):
                        an = f.n(j)
                        if an['c'] == 'LambdaExpr':
                            for g in u.functions.values():
                                if g.d.get('rec') and u.records.get(g.d['rec'], {}).get('id') == an.get('lam_rec') and g.name == 'operator()':
                                    todo.append(g)
            # lambdas defined in the body and called later through their variable are reached via their call sites
        self.closure = closure
        for fid in closure:
            self.summary[fid] = {}
        changed = True
        rounds = 0
        while changed and rounds < 50:
            changed = False
            rounds += 1
            for fid, f in closure.items():
                s = self.summary[fid]
                writes, calls = info[fid]
                new = {}
                for (roots, node, what) in writes:
                    for r in roots:
                        if r != LOCAL:
                            new.setdefault(r, (node, None, what))
                for i in calls:
                    nd = f.n(i)
                    callee = closure.get(nd.get('cd'))
                    if callee is None or not callee.cfg and not callee.body:
                        if nd.get('cd') in u.functions and callee is None:
                            callee = u.functions[nd['cd']]
                    if callee is not None and callee.id in self.summary:
                        for r, wit in self.summary[callee.id].items():
                            for m in self.map_root(f, i, callee, r):
                                if m != LOCAL:
                                    new.setdefault(m, (i, callee.id, f"call of {callee.tname}"))
                    else:
                        for (roots, what) in self.ext_effect(f, i):
                            for r in roots:
                                if r != LOCAL:
                                    new.setdefault(r, (i, None, what))
                        # callables handed to an external algorithm run with the caller's objects
                        for a in nd.get('args', []):
                            for j in f.walk(a):
                                an = f.n(j)
                                if an['c'] == 'LambdaExpr':
                                    for g in closure.values():
                                        if g.d.get('rec') == an.get('lam_rec') and g.name == 'operator()':
                                            for r, wit in self.summary[g.id].items():
                                                for m in self.map_lambda_root(f, i, g, r):
                                                    if m != LOCAL:
                                                        new.setdefault(m, (i, g.id, f"lambda passed to {nd.get('cn')}"))
                for r, w in new.items():
                    if r not in s:
                        s[r] = w
                        changed = True
        return closure

    def map_root(self, caller, call, callee, r):
        nd = caller.n(call)
        c = nd['c']
        args = nd.get('args', [])
        if r[0] in ('global', 'unknown'):
            return {r}
        if r[0] == 'cap':
            # captured variable of a lambda: resolvable only in the function that defines the lambda
            if callee.d.get('parent_fn') == caller.id or callee.d.get('lambda'):
                d = caller.defs.get(r[1])
                if d is not None:
                    if d.get('param'):
                        idx = next((k for k, p in enumerate(caller.params) if p['id'] == r[1]), None)
                        if idx is not None and self.is_ref_type(caller.params[idx]['t']):
                            return {('param', idx)}
                        return {LOCAL}
                    if d.get('init') and self.is_ref_type(d.get('t', 0)):
                        return self.L(caller, d['init'])
                    return {LOCAL}
                return {r}     # captured by an enclosing lambda of the caller: still a capture there
            return {('unknown', 'captured variable outside its defining function')}
        if r[0] == 'ptr':
            base = self.map_root(caller, call, callee, r[1])
            return self.ptr(base, r[2])
        if r[0] == 'this':
            if callee.d.get('lambda'):
                # `this` inside a lambda body is the enclosing object
                return {THIS} if (caller.record or caller.d.get('lambda')) else {('unknown', 'lambda this')}
            if c in ('CXXConstructExpr', 'CXXTemporaryObjectExpr'):
                return {LOCAL}
            if c == 'CXXMemberCallExpr':
                obj = nd.get('obj')
                if not obj:
                    return {('unknown', 'no object')}
                if self._is_arrow_obj(caller, obj):
                    return self.P(caller, obj)
                return self.L(caller, obj)
            if c == 'CXXOperatorCallExpr' and args:
                return self.L(caller, args[0])
            return {('unknown', 'this of a non-member call')}
        if r[0] == 'param':
            k = r[1]
            off = 1 if (c == 'CXXOperatorCallExpr' and nd.get('op_member')) else 0
            if k + off >= len(args):
                return {LOCAL}       # defaulted argument
            a = args[k + off]
            pm = nd.get('pmodes', [])
            mode = pm[k] if k < len(pm) else 'val'
            if mode in ('ref', 'cref', 'rref'):
                an = caller.n(caller.strip(a, casts=True))
                if not an.get('lv') and an['c'] not in ('DeclRefExpr', 'MemberExpr'):
                    return {LOCAL} | set()    # temporary bound to a reference
                return self.L(caller, a)
            return self.P(caller, a)
        return {('unknown', 'root ' + repr(r))}

    def map_lambda_root(self, caller, call, lam, r):
        if r[0] in ('global', 'unknown'):
            return {r}
        if r[0] == 'this':
            return {THIS}
        if r[0] == 'cap':
            return self.map_root(caller, call, lam, r)
        if r[0] == 'ptr':
            return self.ptr(self.map_lambda_root(caller, call, lam, r[1]), r[2])
        if r[0] == 'param':
            # elements of the ranges handed to the algorithm
            out = set()
            for a in caller.n(call).get('args', []):
                out |= self.P(caller, a)
                an = caller.n(caller.strip(a, casts=True))
                if an.get('lv'):
                    out |= self.L(caller, a)
            return out
        return {('unknown', 'lambda root')}

    def chain(self, fid, root, limit=8):
        """human readable witness: entry -> ... -> statement"""
        out = []
        cur, r = fid, root
        seen = set()
        while cur is not None and len(out) < limit and (cur, r) not in seen:
            seen.add((cur, r))
            f = self.closure[cur]
            w = self.summary[cur].get(r)
            if not w:
                break
            node, callee, what = w
            out.append(f"{f.tname} ({f.loc(node)}): {what}")
            if callee is None:
                break
            # find a root of the callee that maps to r
            nxt = None
            for r2 in self.summary[callee]:
                cf = self.closure[callee]
                m = self.map_lambda_root(f, node, cf, r2) if (cf.d.get('lambda') and f.n(node).get('cd') != callee) else self.map_root(f, node, cf, r2)
                if r in m:
                    nxt = r2
                    break
            cur, r = callee, nxt
            if r is None:
                break
        return ' -> '.join(out)
