"""C18: the C interface (c-interface/cpgm.cpp, analysed as built): WRAPPER-AGREE, FORWARD, EXC-BOUNDARY."""
import re

import endguard
import p_guards
import p_mapped
import p_search
from cfg import graph
from common import Ob, OK, VIOLATED, UNDECIDED, AnalysisBroken
from ir import fmt_term

THIS = ('this',)
TYPES = ('int32', 'int64', 'uint32', 'uint64')

# extern "C" name suffix -> (C++ member the function must reach on its object argument, further members allowed)
STATIC_OPS = {'search': ('search', set()), 'size_in_bytes': ('size_in_bytes', set())}
DYNAMIC_OPS = {
    'size': ('size', set()), 'size_in_bytes': ('size_in_bytes', set()), 'index_size_in_bytes': ('index_size_in_bytes', set()),
    'insert_or_assign': ('insert_or_assign', set()), 'erase': ('erase', set()), 'find': ('find', {'end'}),
    'begin': ('begin', set()), 'lower_bound': ('lower_bound', set()), 'iterator_next': (None, {'end'}),
}


def strip_cast(t):
    while isinstance(t, tuple) and t and t[0] in ('cast', 'conv'):
        t = t[2]
    return t


def subterms(t):
    if isinstance(t, tuple):
        if t and isinstance(t[0], str):
            yield t
        for x in t:
            if isinstance(x, tuple):
                yield from subterms(x)


def reachable(fn, node):
    pos = fn.block_of(node)
    return bool(pos) and pos[0] in graph(fn).reach


def rule_forward(ctx):
    obs = []
    u = ctx.cpgm
    seen = set()
    for f in u.functions.values():
        if not f.d.get('extern_c'):
            continue
        m = re.match(r'^(dynamic_)?pgm_index_(' + '|'.join(TYPES) + r')_(\w+)$', f.name)
        if not m:
            continue
        dyn, ty, op = bool(m.group(1)), m.group(2), m.group(3)
        seen.add((dyn, ty, op))
        table = DYNAMIC_OPS if dyn else STATIC_OPS
        if op in ('create', 'create_empty', 'destroy', 'iterator_destroy'):
            # construction / destruction: new of the matching wrapper type, delete of the argument
            news = [i for i in f.all_ids() if f.n(i)['c'] == 'CXXNewExpr']
            dels = [i for i in f.all_ids() if f.n(i)['c'] == 'CXXDeleteExpr']
            if op.startswith('create'):
                want = ('dynamic_' if dyn else '') + f"pgm_index_{ty}_"
                fa = f        # the function that holds the new-expression: the create function itself, or a file-local helper it returns
                sub = None
                if not news:
                    rets0 = [r for r in f.returns() if f.n(r)['ch']]
                    cnode = f.strip(f.n(rets0[0])['ch'][0], casts=True) if len(rets0) == 1 else 0
                    callee = u.functions.get(f.n(cnode).get('cd')) if cnode and f.n(cnode)['c'] == 'CallExpr' else None
                    if callee is not None and callee.file.endswith('cpgm.cpp'):
                        hn = [i for i in callee.all_ids() if callee.n(i)['c'] == 'CXXNewExpr']
                        if len(hn) == 1:
                            fa, news = callee, hn
                            sub = {('param', p['name']): strip_cast(f.term(a, inline=True)) for p, a in zip(callee.params, f.n(cnode).get('args', []))}
                ok = len(news) == 1 and want in u.tstr(fa.n(news[0]).get('alloc_t', 0))
                # the constructor receives the caller's arguments in order
                if ok and op == 'create':
                    con = [c for c in fa.calls(pred=lambda nd: nd['c'] == 'CXXConstructExpr')]
                    args = [strip_cast(fa.term(a, inline=True)) for a in fa.n(con[0])['args']] if con else []
                    if sub is not None and len({p['name'] for p in fa.params}) == 1 and len(fa.params) > 1:
                        # a parameter pack (`Args... args` -> `new T(args...)`): the expansion preserves the order of the call's arguments
                        pk = ('param', fa.params[0]['name'])
                        k_ = len(fa.params)
                        if args[:k_] == [pk] * k_ and all(a[0] == 'lit' for a in args[k_:]):
                            args = [strip_cast(f.term(a, inline=True)) for a in f.n(cnode).get('args', [])] + args[k_:]
                    elif sub is not None:
                        def rep(x):
                            if isinstance(x, tuple):
                                return sub[x] if x in sub else tuple(rep(y) for y in x)
                            return x
                        args = [strip_cast(rep(a)) for a in args]
                    pn = [('param', p['name']) for p in f.params]
                    if dyn:
                        ok = len(args) >= 2 and args[0] == pn[0] and args[1] == ('op', '+', pn[0], pn[1]) and all(a[0] == 'lit' for a in args[2:])   # remaining: the constructor's default arguments
                    else:
                        ok = args == pn
                obs.append(Ob('FORWARD', f, news[0] if (news and fa is f) else 0, f"constructs a {want} from the caller's arguments", f"{len(news)} new expression(s); arguments forwarded in order: {ok}", OK if ok else VIOLATED, arm=('dyn_' if dyn else '') + op))
            else:
                ok = len(dels) == 1
                if ok:
                    t = strip_cast(f.term(f.n(dels[0])['ch'][0], inline=True))
                    ok = any(s == ('param', f.params[0]['name']) for s in subterms(t))
                obs.append(Ob('FORWARD', f, dels[0] if dels else 0, 'deletes exactly its argument', f"{len(dels)} delete expression(s) on the parameter: {ok}", OK if ok else VIOLATED, arm=('dyn_' if dyn else '') + op))
            continue
        if op not in table:
            obs.append(Ob('FORWARD', f, 0, 'a known C entry point', f"unknown operation suffix `{op}`", UNDECIDED, arm=op))
            continue
        want, extra = table[op]
        P0 = ('param', f.params[0]['name'])
        mcalls = []
        for c in f.calls(pred=lambda nd: nd['c'] == 'CXXMemberCallExpr'):
            if not reachable(f, c):
                continue
            ot = strip_cast(f.term(f.n(c)['obj'], inline=True)) if f.n(c).get('obj') else None
            if ot == P0 or ot == ('deref', P0):
                mcalls.append(c)
        names = [f.n(c).get('cn') for c in mcalls]
        ok = True
        why = f"calls {names} on the index argument"
        if want is not None:
            main = [c for c in mcalls if f.n(c).get('cn') == want]
            if len(main) != 1 or any(n not in {want} | extra for n in names):
                ok = False
            else:
                args = [strip_cast(f.term(a, inline=True)) for a in f.n(main[0])['args']]
                pn = [('param', p['name']) for p in f.params[1:]]
                # the operation's arguments are the function's remaining parameters, in order (out-parameters excluded)
                if args != pn[:len(args)]:
                    ok = False
                    why += f"; arguments {[fmt_term(a) for a in args]} are not the parameters in order"
        else:
            ok = all(n in extra for n in names)
        obs.append(Ob('FORWARD', f, mcalls[0] if mcalls else 0, f"reaches exactly `{want or 'end'}` on its index argument with its own parameters in order", why, OK if ok else VIOLATED, arm=('dyn_' if dyn else '') + op))
        if dyn and op == 'find':
            # *value written only under it != end(); true returned there, false otherwise
            g = graph(f)
            wr = [i for i in f.all_ids() if f.n(i)['c'] == 'BinaryOperator' and f.n(i)['op'] == '=' and strip_cast(f.term(f.n(i)['ch'][0], inline=False)) == ('deref', ('param', f.params[2]['name']))]
            okw = bool(wr)
            for w in wr:
                pos = f.block_of(w)
                guarded = False
                for (b, lab) in g.transitive_control_deps(pos[0]):
                    c = g.cond(b)
                    if c:
                        ec = endguard.implications(f, c, lab)
                        if any(not is_end for (x, is_end) in ec):
                            guarded = True
                okw = okw and guarded
            rets = {}
            own_rets = [r for r in f.returns() if f.n(r)['ch']]
            if any(strip_cast(f.term(f.n(r)['ch'][0], inline=True))[0] in ('phi', 'cond') for r in own_rets):
                # the value comes from an inlined helper with several returns: each of them is a return of this function
                own_rets = [r for r in own_rets if strip_cast(f.term(f.n(r)['ch'][0], inline=True))[0] not in ('phi', 'cond')] + \
                           [i for i in f.all_ids() if f.n(i)['c'] == 'InlinedReturn' and f.n(i)['ch']]
            for r in own_rets:
                v = strip_cast(f.term(f.n(r)['ch'][0], inline=True))
                pos = f.block_of(r) or f.block_of(f.n(r)['ch'][0])
                under = any(any(not is_end for (x, is_end) in endguard.implications(f, g.cond(b), lab)) for (b, lab) in g.transitive_control_deps(pos[0]) if g.cond(b))
                rets[v] = under
            okr = rets.get(('lit', 1)) is True and rets.get(('lit', 0)) is False
            obs.append(Ob('FORWARD', f, wr[0] if wr else 0, '*value is written (and true returned) only when find() did not return end()',
                          f"write guarded by it != end(): {okw}; return values {dict((fmt_term(k), v) for k, v in rets.items())}", OK if (okw and okr) else VIOLATED, arm='dyn_find:out'))
        if dyn and op == 'iterator_next':
            g = graph(f)
            r = endguard.analyse(f)
            incs = [i for i in f.all_ids() if f.n(i)['c'] == 'CXXOperatorCallExpr' and f.n(i).get('op') == '++' and reachable(f, i)]
            reads = [i for i in f.all_ids() if f.n(i)['c'] == 'BinaryOperator' and f.n(i)['op'] == '=' and strip_cast(f.term(f.n(i)['ch'][0], inline=False))[0] == 'deref' and reachable(f, i)]
            order = bool(incs) and len(reads) == 2 and all(g.before(x, incs[0]) for x in reads)
            tested = r['comparisons'] >= 1 and not r['violations']
            fields = sorted(strip_cast(f.term(f.n(x)['ch'][1], inline=True))[1] for x in reads if strip_cast(f.term(f.n(x)['ch'][1], inline=True))[0] == 'field')
            obs.append(Ob('FORWARD', f, incs[0] if incs else 0, 'iterator_next tests end() == *iter before any dereference, copies key and value, then advances',
                          f"end test without dereference on the end branch: {tested}; key/value ({fields}) read before ++: {order}", OK if (tested and order and fields == ['first', 'second']) else VIOLATED,
                          arm='dyn_iterator_next:protocol'))
    # completeness of the table against the header's declarations
    want_all = {(False, t, o) for t in TYPES for o in ('create', 'destroy', 'search', 'size_in_bytes')} | \
               {(True, t, o) for t in TYPES for o in ('create', 'create_empty', 'destroy', 'size', 'size_in_bytes', 'index_size_in_bytes', 'insert_or_assign', 'erase', 'find', 'begin',
                                                        'lower_bound', 'iterator_next', 'iterator_destroy')}
    missing = sorted(want_all - seen)
    if missing:
        raise AnalysisBroken(f"extern C functions missing from cpgm.cpp: {missing[:5]}")
    return obs


def rule_wrapper_ctor(ctx):
    """PGMWrapper's constructor establishes what PGMIndex's range constructor establishes"""
    obs = []
    u = ctx.cpgm
    for w in u.fns('PGMWrapper::PGMWrapper'):
        if len(w.params) != 3:
            continue
        mine = p_mapped.assigned_fields(w, u)
        need = {'n', 'first_key', 'segments', 'levels_offsets', 'epsilon'}
        missing = sorted(need - set(mine))
        # first_key = n ? *a : 0
        fk = [i for i in w.all_ids() if w.n(i)['c'] == 'BinaryOperator' and w.n(i)['op'] == '=' and w.term(w.n(i)['ch'][0], inline=False) == ('field', 'first_key', THIS)]
        okf = False
        fk_unknown = False
        A_, N_ = ('param', w.params[0]['name']), ('param', w.params[1]['name'])
        if len(fk) == 1:
            t = strip_cast(w.term(w.n(fk[0])['ch'][1], inline=True))
            okf = t[0] == 'cond' and strip_cast(t[2]) == ('deref', A_) and any(s == N_ for s in subterms(t[1]))
            if not okf and t != ('deref', A_):
                fk_unknown = True
        elif len(fk) == 2:
            # if (n == 0) first_key = 0; else first_key = *a;   (either order, either spelling of the test)
            from cfg import graph as _graph
            g_ = _graph(w)

            def n_is_zero(node):
                """True / False: the assignment executes only when n == 0 / only when n != 0; None: unknown"""
                for (b, lab) in g_.transitive_control_deps(w.block_of(node)[0]):
                    c = g_.cond(b)
                    if not c:
                        continue
                    ct = strip_cast(w.term(c, inline=True))
                    if ct == N_:
                        return not lab
                    if ct[0] == 'op' and len(ct) == 4 and {strip_cast(ct[2]), strip_cast(ct[3])} == {N_, ('lit', 0)}:
                        if ct[1] == '==':
                            return lab
                        if ct[1] in ('!=', '>'):
                            return not lab
                    if ct[0] == 'un' and ct[1] == '!' and strip_cast(ct[2]) == N_:
                        return lab
                return None
            vals = {}
            for x in fk:
                z = n_is_zero(x)
                vals[z] = strip_cast(w.term(w.n(x)['ch'][1], inline=True))
            if None in vals:
                fk_unknown = True
            else:
                okf = vals.get(True) == ('lit', 0) and vals.get(False) == ('deref', A_)
        elif fk:
            fk_unknown = True
        nn = [i for i in w.all_ids() if w.n(i)['c'] == 'BinaryOperator' and w.n(i)['op'] == '=' and w.term(w.n(i)['ch'][0], inline=False) == ('field', 'n', THIS)]
        okn = bool(nn) and strip_cast(w.term(w.n(nn[0])['ch'][1], inline=True)) == ('param', w.params[1]['name'])
        bc = w.calls_to('pgm::PGMIndex::build')
        okb = False
        if bc:
            a = [strip_cast(w.term(x, inline=True)) for x in w.n(bc[0])['args']]
            A, N = ('param', w.params[0]['name']), ('param', w.params[1]['name'])
            okb = a[0] == A and a[1] == ('op', '+', A, N) and a[4] == ('field', 'segments', THIS) and a[5] == ('field', 'levels_offsets', THIS)
        ok = not missing and okf and okn and okb
        obs.append(Ob('WRAPPER-AGREE', w, 0, 'the wrapper constructor sets n, first_key (= n ? *a : 0), and builds segments/levels_offsets over [a, a+n) like PGMIndex(first, last)',
                      f"fields never assigned: {missing}; first_key form: {okf}; n = n: {okn}; build(a, a+n, ., ., segments, levels_offsets): {okb}",
                      OK if ok else (UNDECIDED if (fk_unknown and not missing and okn and okb) else VIOLATED), arm='ctor'))
    return obs


def rules_c18(ctx):
    W = [ctx.cpgm]
    S = p_search
    out = []
    for r in (S.rule_range_form, S.rule_clamp, S.rule_cap, S.rule_agree_eps):
        for o in r(ctx, 'wrapper', W):
            o.rule = 'WRAPPER-AGREE:' + o.rule
            out.append(o)
    for o in S.rule_kind_pgm(ctx, W) + S.rule_window_form(ctx, 'wrapper', W):
        o.rule = 'WRAPPER-AGREE:' + o.rule
        out.append(o)
    out += rule_wrapper_ctor(ctx)
    out += rule_forward(ctx)
    for o in p_guards.rules_c20(ctx):
        if o.arm == 'G11:c-create':
            o.rule = 'EXC-BOUNDARY'
            out.append(o)
        elif o.arm == 'G1:build-sentinel':
            # PGMWrapper does not run PGMIndex's range constructor, it calls build() itself (rule_wrapper_ctor): the exception that
            # *_create turns into NULL for a reserved last key is the one thrown inside build()
            o.rule = 'EXC-BOUNDARY'
            out.append(o)
    return out
