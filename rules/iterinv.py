"""ITER-INVALIDATION: no iterator (pointer, reference) into a std::vector is used after an operation that may reallocate or
shift that vector, and no closure holding such an iterator is handed to a call together with a closure that grows the vector.

Per function:
  * iterator variables: single-definition locals whose initialiser derives from X.begin()/end()/cbegin()/cend()/data() (possibly
    through + / - or a search call taking such iterators) - X is the canonical term of the container (reference locals expanded);
  * invalidating sites: X.push_back / emplace_back / insert / emplace / resize / reserve / assign / clear / erase / shrink_to_fit;
  * direct form: a read of the iterator variable that can execute after an invalidating site which its definition reaches, and
    that is not an argument of that very call;
  * closure form: a local closure that captures such an iterator (or captures by reference a local that is one) and a local
    closure that contains an invalidating site on the same X are both arguments of one call.
"""
from cfg import graph

ITER_SRC = ('begin', 'end', 'cbegin', 'cend', 'data', 'rbegin', 'rend')
INVALIDATING = ('push_back', 'emplace_back', 'insert', 'emplace', 'resize', 'reserve', 'assign', 'clear', 'erase', 'shrink_to_fit')


def _sc(t):
    while isinstance(t, tuple) and t and t[0] in ('cast', 'conv'):
        t = t[2]
    return t


def _subs(t):
    if isinstance(t, tuple):
        if t and isinstance(t[0], str):
            yield t
        for x in t:
            if isinstance(x, tuple):
                yield from _subs(x)


def canon(fn, t, depth=0):
    """container identity: expand reference locals bound to another container expression"""
    t = _sc(t)
    if depth < 4 and t and t[0] == 'local' and len(t) == 3:
        d = fn.defs.get(t[2], {})
        ty = fn.unit.tstr(d.get('t', 0)) if d else ''
        if d.get('init') and ty.rstrip().endswith('&'):
            return canon(fn, fn.term(d['init'], inline=False), depth + 1)
    return t


def containers_of(fn, t):
    """containers X such that term t derives from an iterator into X"""
    out = []
    for x in _subs(t):
        if x[0] == 'call' and len(x) == 4 and x[3] is not None and x[1].rsplit('::', 1)[-1] in ITER_SRC and ('vector' in x[1] or 'basic_string' in x[1]):
            out.append(canon(fn, x[3]))
    return out


def iterator_vars(fn):
    """{var id: (name, [containers], def node)} for single-definition locals holding an iterator into a vector"""
    out = {}
    for vid, d in fn.defs.items():
        if d.get('param') or not d.get('init'):
            continue
        real = [w for w in d.get('writes', []) if fn.n(w)['c'] in ('BinaryOperator', 'CompoundAssignOperator', 'UnaryOperator', 'CXXOperatorCallExpr')]
        # an iterator that is only advanced (++it, it += k) still points into the container it was taken from
        real = [w for w in real if not ((fn.n(w)['c'] in ('UnaryOperator', 'CXXOperatorCallExpr') and fn.n(w).get('op') in ('++', '--', '+=', '-=')) or
                                        (fn.n(w)['c'] == 'CompoundAssignOperator' and fn.n(w).get('op') in ('+=', '-=')))]
        if real:
            continue
        ty = fn.unit.tstr(d.get('t', 0))
        if 'vector' in ty and '__normal_iterator' not in ty and not ty.rstrip().endswith('*'):
            continue       # a vector (copy), not an iterator
        t = fn.term(d['init'], inline=False)
        cs = containers_of(fn, t)
        if cs and ('__normal_iterator' in ty or ty.rstrip().endswith('*') or 'iterator' in ty):
            out[vid] = (d['name'], cs, d['init'])
    return out


def invalidating_sites(fn):
    """[(call node, canonical container)]"""
    out = []
    for c in fn.calls(pred=lambda nd: nd.get('cn') in INVALIDATING and nd['c'] == 'CXXMemberCallExpr'):
        nd = fn.n(c)
        if nd.get('obj') and ('vector' in (nd.get('ct') or '') or 'basic_string' in (nd.get('ct') or '')):
            out.append((c, canon(fn, fn.term(nd['obj'], inline=False))))
    return out


def _after(fn, g, a, b):
    """can element b execute after element a?"""
    pa, pb = fn.block_of(a), fn.block_of(b)
    if not pa or not pb:
        return False
    if pa[0] == pb[0]:
        if pb[1] > pa[1]:
            return True
        return any(s is not None and pa[0] in g.reachable_from(s) for s in g.succ[pa[0]])
    return pb[0] in g.reachable_from(pa[0])


def _after_avoiding(fn, g, a, b, avoid):
    """can element b execute after element a on a path that does not execute element `avoid` (the re-definition) in between?"""
    pa, pb, pv = fn.block_of(a), fn.block_of(b), fn.block_of(avoid)
    if not pa or not pb:
        return False
    seen = set()
    work = [(pa[0], pa[1] + 1)]
    while work:
        blk, start = work.pop()
        if (blk, start) in seen:
            continue
        seen.add((blk, start))
        elems = g.blocks[blk]['elems']
        stop = False
        for k in range(start, len(elems)):
            if pv and blk == pv[0] and k == pv[1]:
                stop = True
                break
            if blk == pb[0] and k == pb[1]:
                return True
        if stop:
            continue
        for s in g.succ[blk]:
            if s is not None:
                work.append((s, 0))
    return False


def analyse(fn):
    """[(use node, var name, container term, invalidating node, kind)]"""
    res = []
    if not fn.cfg:
        return res
    g = graph(fn)
    ivars = iterator_vars(fn)
    sites = invalidating_sites(fn)
    if not sites:
        sites = []
    reach = g.reach
    for vid, (name, cs, dnode) in ivars.items():
        for (s, X) in sites:
            if X not in cs:
                continue
            ps = fn.block_of(s)
            if not ps or ps[0] not in reach or not _after(fn, g, dnode, s):
                continue
            inside = set(fn.walk(s))
            for i in fn.all_ids():
                nd = fn.n(i)
                if nd['c'] == 'DeclRefExpr' and nd.get('d') == vid and i not in inside:
                    pu = fn.block_of(i)
                    if pu and pu[0] in reach and _after_avoiding(fn, g, s, i, dnode):
                        res.append((i, name, X, s, 'direct'))
                        break
    # closure form
    u = fn.unit
    kids = [k for k in u.functions.values() if k.d.get('parent_fn') == fn.id and k.name == 'operator()']
    if kids:
        holders, growers = {}, {}
        for k in kids:
            line = k.d.get('line')
            # containers the closure grows
            for (s, X) in invalidating_sites(k):
                growers.setdefault(line, set()).add(repr(X))
            # iterators of the enclosing function the closure reads (captured by value or by reference)
            for i in k.all_ids():
                nd = k.n(i)
                if nd['c'] == 'DeclRefExpr' and nd.get('captured') and nd.get('d') in ivars:
                    for X in ivars[nd['d']][1]:
                        holders.setdefault(line, set()).add((repr(X), ivars[nd['d']][0]))
        if holders and growers:
            def closure_line(t):
                t = _sc(t)
                if t[0] == 'local' and len(t) == 3:
                    d = fn.defs.get(t[2], {})
                    if d.get('init') and _sc(fn.term(d['init'], inline=False))[0] == 'lambda':
                        return fn.n(d['init'])['l']
                if t[0] == 'lambda':
                    return None
                return None
            for c in fn.calls():
                nd = fn.n(c)
                pc = fn.block_of(c)
                if not pc or pc[0] not in reach:
                    continue
                lines = [closure_line(fn.term(a, inline=False)) for a in nd.get('args', [])]
                hs = [l for l in lines if l in holders]
                gs = [l for l in lines if l in growers]
                for h in hs:
                    for gl in gs:
                        for (X, vname) in holders[h]:
                            if X in growers[gl]:
                                res.append((c, vname, X, c, 'closure'))
    return res
