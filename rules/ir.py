"""Loader and helpers for the mini-IR produced by tool/pgmfacts.

A Unit holds types, records and functions of one translation unit.  Expression nodes are
plain dicts (see pgmfacts.cc); this module offers

  * Fn.strip(i)      skip wrappers that carry no meaning for the rules (parens, implicit
                     casts that neither narrow nor change signedness, temporaries, elidable
                     copies)
  * Fn.term(i)       a resolved, hashable term for an expression (nested tuples)
  * Fn.single_def(v) the unique definition of a local that is never re-assigned, mutated or
                     aliased (so that rules can look through `auto pos = ...`)
  * walkers over sub-expressions, calls, parents.
"""
import json

TRANSPARENT = {'ParenExpr', 'MaterializeTemporaryExpr', 'CXXBindTemporaryExpr', 'ExprWithCleanups',
               'ConstantExpr', 'CXXDefaultArgExpr', 'CXXDefaultInitExpr', 'FullExpr'}
FORWARDING_ONLY = {'emplace_back', 'emplace', 'emplace_front', 'make_pair', 'make_tuple', 'make_unique', 'make_shared'}
# implicit cast kinds that never change a value
VALUE_PRESERVING_CASTS = {'LValueToRValue', 'NoOp', 'FunctionToPointerDecay', 'ArrayToPointerDecay',
                          'ConstructorConversion', 'DerivedToBase', 'UncheckedDerivedToBase', 'BuiltinFnToFnPtr',
                          'NullToPointer'}
EXPLICIT_CASTS = {'CStyleCastExpr', 'CXXFunctionalCastExpr', 'CXXStaticCastExpr', 'CXXConstCastExpr',
                  'CXXReinterpretCastExpr', 'CXXDynamicCastExpr'}


_KNOWN = None


def expandable_helper(callee):
    """a function whose body is straight-line: declarations of initialised locals followed by exactly one return statement
    (no loop, branch, try or other statement) - the only kind Fn.term() substitutes for its call"""
    if not callee.body:
        return False
    b = callee.n(callee.body)
    if b['c'] != 'CompoundStmt':
        return False
    kinds_ = [callee.n(c)['c'] for c in b.get('ch', [])]
    if kinds_.count('ReturnStmt') != 1 or kinds_[-1] != 'ReturnStmt':
        return False
    if any(k not in ('DeclStmt', 'ReturnStmt') for k in kinds_):
        return False
    rets = [r for r in callee.returns() if callee.n(r)['ch']]
    return len(rets) == 1


def known_names():
    """the vocabulary frozen by rules/mk_known.py (functions and closure variables of the tree the rules were written for)"""
    global _KNOWN
    if _KNOWN is None:
        import json as _json
        import os as _os
        p = _os.path.join(_os.path.dirname(_os.path.abspath(__file__)), 'known_names.json')
        try:
            d = _json.load(open(p))
            _KNOWN = {'functions': set(d['functions']), 'closures': set(d['closures'])}
        except (OSError, ValueError):
            _KNOWN = {'functions': None, 'closures': set()}
        if _KNOWN['functions'] is None:
            class _All(set):
                def __contains__(self, x):
                    return True
            _KNOWN['functions'] = _All()
    return _KNOWN


class AnalysisBroken(Exception):
    """The analysis cannot give a verdict (anchor vanished, unrecognised shape...)."""


class Unit:
    def __init__(self, path, data=None):
        self.path = path
        d = data if data is not None else json.load(open(path))
        self.main = d['main']
        self.types = d['types']
        self.records = {r['id']: r for r in d['records'] if r}
        self.rec_by_decl = {r['decl']: r for r in self.records.values()}
        self.constexpr_ifs = d['constexpr_ifs']
        self.functions = {}
        self.by_tname = {}
        for fd in d['functions']:
            f = Fn(self, fd)
            self.functions[f.id] = f
            self.by_tname.setdefault(f.tname, []).append(f)
        self.cfg_failures = d.get('cfg_failures', 0)
        from inline import inline_unit
        self.inlined_calls = inline_unit(self)

    def type(self, tid):
        return self.types[tid - 1] if tid else None

    def tstr(self, tid):
        t = self.type(tid)
        return t['s'] if t else ''

    def base_type(self, tid):
        """type with references stripped"""
        t = self.type(tid)
        while t and t.get('ref'):
            t = self.type(t['to'])
        return t

    def record_of_type(self, tid):
        t = self.base_type(tid)
        if t and t.get('k') == 'rec':
            return self.records.get(t['rec'])
        return None

    def fns(self, tname):
        return self.by_tname.get(tname, [])

    def fns_matching(self, pred):
        return [f for f in self.functions.values() if pred(f)]


class Fn:
    def __init__(self, unit, d):
        self.unit = unit
        self.d = d
        self.id = d['id']
        self.qname = d['qname']
        self.tname = d['tname']
        self.name = d['name']
        self.targs = d.get('targs', {})
        self.file = d['file']
        self.line = d['line']
        self.nodes = d['nodes']
        self.body = d.get('body', 0)
        self.cfg = d.get('cfg')
        self.params = d.get('params', [])
        self.record = d.get('record')
        self.record_t = d.get('record_t')
        self._parents = None
        self._defs = None
        self._blockof = None

    # ------------------------------------------------------------- basic access
    def __repr__(self):
        return f"<Fn {self.qname} {self.file}:{self.line}>"

    def n(self, i):
        return self.nodes[i - 1]

    def loc(self, i=None):
        if i:
            return f"{self.file}:{self.n(i)['l']}"
        return f"{self.file}:{self.line}"

    def short(self):
        ta = ",".join(f"{k}={v}" for k, v in sorted(self.targs.items()) if len(v) < 30)
        return f"{self.tname}[{ta}]"

    def children(self, i):
        return self.n(i)['ch']

    def walk(self, i):
        """pre-order walk of node ids below and including i (does not descend into lambda bodies)"""
        if not i:
            return
        stack = [i]
        while stack:
            x = stack.pop()
            yield x
            nd = self.n(x)
            for c in reversed(nd['ch']):
                stack.append(c)

    def all_ids(self):
        return range(1, len(self.nodes) + 1)

    @property
    def parents(self):
        if self._parents is None:
            p = {}
            for i in self.all_ids():
                for c in self.n(i)['ch']:
                    p.setdefault(c, i)
            self._parents = p
        return self._parents

    def parent(self, i):
        return self.parents.get(i)

    def sparent(self, i):
        """nearest ancestor that is not a transparent wrapper / value-preserving implicit cast"""
        p = self.parent(i)
        while p:
            nd = self.n(p)
            if nd['c'] in TRANSPARENT or (nd['c'] == 'ImplicitCastExpr' and self._cast_transparent(nd)):
                p = self.parent(p)
            else:
                return p
        return None

    # ------------------------------------------------------------- stripping
    def _cast_transparent(self, nd):
        ck = nd.get('ck')
        if ck in VALUE_PRESERVING_CASTS:
            return True
        if ck == 'IntegralCast':
            # widening / same-width same-signedness conversions keep the value
            src = self.unit.type(self.n(nd['ch'][0]).get('t', 0))
            dst = self.unit.type(nd.get('t', 0))
            if src and dst and src.get('k') in ('int', 'bool') and dst.get('k') == 'int':
                sb, db = src.get('bits', 8), dst.get('bits', 0)
                ss, dsg = src.get('signed', 0), dst.get('signed', 0)
                if src.get('k') == 'bool':
                    return True
                if db > sb and (not ss or dsg):
                    return True
                if db == sb and ss == dsg:
                    return True
                # unsigned -> wider/equal signed or constants that fit
                v = self.n(nd['ch'][0]).get('v')
                if v is not None:
                    return True
            return False
        return False

    def strip(self, i, casts=False):
        """skip transparent wrappers; with casts=True also skip explicit/implicit integral casts"""
        while i:
            nd = self.n(i)
            c = nd['c']
            if c in TRANSPARENT and nd['ch']:
                i = nd['ch'][0]
            elif c == 'ImplicitCastExpr' and (casts or self._cast_transparent(nd)):
                i = nd['ch'][0]
            elif casts and c in EXPLICIT_CASTS:
                i = nd['ch'][0]
            elif c == 'CXXConstructExpr' and nd.get('ctor_kind') in ('copy', 'move') and len(nd.get('args', [])) == 1:
                i = nd['args'][0]
            else:
                return i
        return i

    def cls(self, i):
        return self.n(i)['c'] if i else None

    # ------------------------------------------------------------- definitions of locals
    def _collect_defs(self):
        """var decl id -> {'init': node or None, 'writes': [node ids that may modify it], 'decl': node}"""
        defs = {}
        for p in self.params:
            defs[p['id']] = {'init': None, 'writes': [], 'param': True, 'name': p['name'], 't': p['t']}
        for i in self.all_ids():
            nd = self.n(i)
            if nd['c'] == 'DeclStmt':
                for v in nd.get('vars', []):
                    defs[v['id']] = {'init': v['init'] or None, 'writes': [], 'decl': i, 'name': v['name'], 't': v['t'],
                                     'static': v.get('static', False), 'constexpr': v.get('constexpr', False),
                                     # a parameter of an inlined helper (synthetic binding `parameter = argument`) is always looked through; the
                                     # helper's own locals are ordinary locals of the function they were inlined into
                                     'inl': nd.get('inl', 0) if nd.get('synthetic') else 0}
                    for b in v.get('bindings', []):
                        defs[b['id']] = {'init': None, 'writes': [], 'decl': i, 'name': b['name'], 'binding_of': v['id']}
        for i in self.all_ids():
            nd = self.n(i)
            c = nd['c']
            tgt = None
            if c in ('BinaryOperator', 'CompoundAssignOperator') and nd.get('op', '').endswith('=') and nd['op'] not in ('==', '!=', '<=', '>='):
                tgt = nd['ch'][0]
            elif c == 'UnaryOperator' and nd.get('op') in ('++', '--'):
                tgt = nd['ch'][0]
            elif c == 'UnaryOperator' and nd.get('op') == '&':
                tgt = nd['ch'][0]
            elif c == 'CXXOperatorCallExpr' and nd.get('op') in ('=', '+=', '-=', '++', '--', '*=', '/=', '|=', '&=', '<<=', '>>='):
                tgt = nd['args'][0] if nd.get('args') else None
            if tgt:
                v = self.var_of(tgt)
                if v is not None and v in defs:
                    defs[v]['writes'].append(i)
            # passing to non-const reference / pointer parameters
            if c in ('CallExpr', 'CXXMemberCallExpr', 'CXXOperatorCallExpr', 'CXXConstructExpr', 'CXXTemporaryObjectExpr'):
                pm = nd.get('pmodes', [])
                args = nd.get('args', [])
                off = 1 if (c == 'CXXOperatorCallExpr' and nd.get('op_member')) else 0
                for k, a in enumerate(args):
                    pk = k - off
                    if pk < 0:
                        continue
                    mode = pm[pk] if pk < len(pm) else 'val'
                    # a non-const reference may modify the variable; a pointer parameter only if the argument is `&v`
                    # (passing the value of a pointer variable does not modify that variable)
                    sa = self.strip(a)
                    is_addr = bool(sa) and self.n(sa)['c'] == 'UnaryOperator' and self.n(sa).get('op') == '&'
                    if mode == 'ref' and nd.get('cn') in FORWARDING_ONLY and str(nd.get('ct', '')).startswith('std::'):
                        continue        # a forwarding reference (Args &&...) of a constructing call: the argument is only read
                    if mode == 'ref' and c in ('CXXConstructExpr', 'CXXTemporaryObjectExpr') and nd.get('ct') in ('std::pair::pair', 'std::tuple::tuple'):
                        continue        # pair(U1 &&, U2 &&) / tuple(UTypes &&...): the elements are copied from the arguments
                    if mode == 'ref' or (mode == 'ptr' and is_addr):
                        v = self.var_of(a)
                        if v is not None and v in defs:
                            defs[v]['writes'].append(i)
                # non-const member call on the variable
                if c == 'CXXMemberCallExpr' and not nd.get('cconst') and nd.get('obj'):
                    v = self.var_of(nd['obj'])
                    if v is not None and v in defs:
                        defs[v]['writes'].append(i)
            if c == 'LambdaExpr':
                for cap in nd.get('captures', []):
                    if cap.get('byref') and cap.get('var') in defs:
                        defs[cap['var']].setdefault('captured_byref', []).append(i)
        self._defs = defs

    @property
    def defs(self):
        if self._defs is None:
            self._collect_defs()
        return self._defs

    def var_of(self, i):
        """decl id if the (stripped) expression is a plain reference to a local/param"""
        i = self.strip(i)
        if not i:
            return None
        nd = self.n(i)
        if nd['c'] == 'DeclRefExpr' and nd.get('dk') in ('local', 'param', 'static_local', 'binding'):
            return nd['d']
        if nd['c'] == 'UnaryOperator' and nd.get('op') == '&':
            return self.var_of(nd['ch'][0])
        return None

    def single_def(self, var_id):
        """initialiser node of a local that has exactly one definition (its initialiser)"""
        d = self.defs.get(var_id)
        if not d or d.get('param') or not d.get('init') or (d.get('static') and not d.get('constexpr')):
            return None
        if d['writes'] or d.get('captured_byref'):
            return None
        return d['init']

    def through_refs(self, t, depth=0):
        """the term with every reference-typed local (`auto &r = E`) replaced by the term of the object it is bound to; a
        reference is never re-seated, so member calls and assignments through it do not change what it designates (the
        caller decides whether the variables occurring in E may have changed since the binding)"""
        if not isinstance(t, tuple) or depth > 20:
            return t
        if t and t[0] == 'local' and len(t) == 3:
            d = self.defs.get(t[2])
            if d and d.get('init') and not d.get('param'):
                ty = self.unit.type(d.get('t')) if d.get('t') else None
                if ty and ty.get('ref'):
                    return self.through_refs(self.term(d['init'], inline=True), depth + 1)
            return t
        return tuple(self.through_refs(x, depth + 1) for x in t)

    # ------------------------------------------------------------- terms
    def term(self, i, inline=True, depth=0):
        """Resolved hashable term.  With inline=True, single-definition locals are replaced by
        their initialiser (looking through `auto pos = ...`)."""
        if depth > 60:
            return ('deep',)
        i = self.strip(i)
        if not i:
            return ('none',)
        nd = self.n(i)
        c = nd['c']
        T = lambda j: self.term(j, inline, depth + 1)
        if c == 'IntegerLiteral' or c == 'CXXBoolLiteralExpr':
            return ('lit', int(nd['v'])) if 'v' in nd else ('lit', None)
        if c == 'FloatingLiteral':
            return ('flit', nd.get('fv'))
        if c == 'CXXNullPtrLiteralExpr' or c == 'GNUNullExpr':
            return ('null',)
        if c == 'StringLiteral':
            return ('str', nd.get('s'))
        if c == 'SubstNonTypeTemplateParmExpr':
            return ('tparam', nd.get('tp'), int(nd['v']) if 'v' in nd else None)
        if c == 'UnaryExprOrTypeTraitExpr':
            return ('lit', int(nd['v'])) if 'v' in nd else ('sizeof',)
        if c == 'CXXThisExpr':
            return ('this',)
        if c == 'DeclRefExpr':
            dk = nd.get('dk')
            if (dk == 'static_local' or (dk == 'local' and self.defs.get(nd['d'], {}).get('constexpr'))) and not inline:
                # a constexpr (static) local is a named compile-time constant: always looked through
                init = self.single_def(nd['d'])
                if init:
                    return self.term(init, inline, depth + 1)
            if dk == 'binding' and inline:
                # a structured binding of an aggregate that is visible after helper expansion ({a, b} or pair(a, b)): its element
                d = self.defs.get(nd['d'], {})
                parent = d.get('binding_of')
                pd = self.defs.get(parent, {}) if parent else {}
                if pd.get('init') and not pd.get('writes'):
                    sibs = sorted(k for k, v in self.defs.items() if v.get('binding_of') == parent)
                    idx = sibs.index(nd['d']) if nd['d'] in sibs else None
                    t0 = self.term(pd['init'], inline, depth + 1)
                    while t0 and t0[0] == 'cast':
                        t0 = t0[2]
                    elems = _aggregate_elems(t0)
                    if elems is not None and idx is not None and idx < len(elems) and len(elems) == len(sibs):
                        return elems[idx]
            if dk in ('local', 'binding', 'static_local') and (inline or self.defs.get(nd['d'], {}).get('inl')):
                init = self.single_def(nd['d'])
                if init:
                    return self.term(init, inline, depth + 1)
            if dk in ('param',):
                return ('param', nd['n'])
            if dk in ('local', 'static_local', 'binding'):
                return ('local', nd['n'], nd['d'])
            if dk == 'enumerator':
                return ('lit', int(nd['v'])) if 'v' in nd else ('enum', nd['n'])
            if dk in ('static_member', 'global'):
                return ('static', nd.get('dq', nd['n']), int(nd['v']) if 'v' in nd else None)
            if dk == 'function':
                return ('fn', nd.get('fq', nd['n']))
            return ('ref', nd['n'])
        if c == 'MemberExpr':
            if nd.get('dk') == 'field':
                base = T(nd['ch'][0])
                if nd['n'] in ('first', 'second'):
                    # .first / .second of an aggregate that is visible as a term (the pair a helper returns): its element
                    el = _aggregate_elems(base)
                    if el is not None and len(el) == 2:
                        return el[0] if nd['n'] == 'first' else el[1]
                return ('field', nd['n'], base)
            if nd.get('dk') == 'static_member':
                return ('static', nd['n'], int(nd['v']) if 'v' in nd else None)
            return ('member', nd['n'], T(nd['ch'][0]))
        if c in ('CallExpr', 'CXXMemberCallExpr', 'CXXOperatorCallExpr', 'UserDefinedLiteral'):
            args = tuple(T(a) for a in nd.get('args', []))
            if depth < 40:
                ex = self._expand_unknown_helper(nd, args, T, depth)
                if ex is not None:
                    return ex
            if c == 'CXXOperatorCallExpr':
                op = nd.get('op')
                if op == '*' and len(args) == 1:
                    return ('deref', args[0])
                if op == '->' and len(args) == 1:
                    return ('deref', args[0])
                if op == '[]' and len(args) == 2:
                    return ('index', args[0], args[1])
                if op == '()':
                    return ('call', nd.get('ct', '?'), args[1:], args[0])
                return ('op', op) + args
            obj = T(nd['obj']) if nd.get('obj') else None
            if nd.get('indirect'):
                return ('icall', T(nd['ch'][0]), args)
            return ('call', nd.get('ct', '?'), args, obj)
        if c == 'InlinedCall':
            v = nd.get('value', ('void',))
            if v[0] == 'one':
                return T(v[1])
            if v[0] == 'cond':
                t = T(v[2])
                for cnd, val in reversed(v[1]):
                    t = ('cond', T(cnd), T(val), t)
                return t
            if v[0] == 'phi':
                return ('phi',) + tuple(T(x) for x in v[1])
            return ('void',)
        if c in ('CXXConstructExpr', 'CXXTemporaryObjectExpr'):
            return ('construct', nd.get('rec'), tuple(T(a) for a in nd.get('args', [])))
        if c == 'UnaryOperator':
            op = nd['op']
            if op == '*':
                # `*this` inside a helper inlined from a call on another object: `this` was replaced by that object (an lvalue,
                # not a pointer), so `*this` is the object itself
                j = nd['ch'][0]
                for _ in range(4):
                    nj = self.n(j)
                    if nj.get('this_of_inlined'):
                        return T(nj['ch'][0])
                    if nj['c'] in ('ParenExpr', 'ImplicitCastExpr') and nj['ch']:
                        j = nj['ch'][0]
                    else:
                        break
                return ('deref', T(nd['ch'][0]))
            if nd.get('postfix'):
                op = 'post' + op
            return ('un', op, T(nd['ch'][0]))
        if c in ('BinaryOperator', 'CompoundAssignOperator'):
            return ('op', nd['op'], T(nd['ch'][0]), T(nd['ch'][1]))
        if c in ('ConditionalOperator',):
            return ('cond', T(nd['ch'][0]), T(nd['ch'][1]), T(nd['ch'][2]))
        if c == 'ArraySubscriptExpr':
            return ('index', T(nd['ch'][0]), T(nd['ch'][1]))
        if c == 'ImplicitCastExpr' or c in EXPLICIT_CASTS:
            ck = nd.get('ck')
            if ck == 'UserDefinedConversion':
                return ('conv', nd.get('conv'), T(nd['ch'][0]))
            if ck in VALUE_PRESERVING_CASTS:
                return T(nd['ch'][0])
            return ('cast', self.unit.tstr(nd.get('t', 0)), T(nd['ch'][0]))
        if c == 'InitListExpr':
            return ('init',) + tuple(T(x) for x in nd['ch'])
        if c == 'CXXScalarValueInitExpr':
            return ('lit', 0)
        if c == 'LambdaExpr':
            return ('lambda', nd.get('lam_op'))
        if c == 'CXXNewExpr':
            return ('new', self.unit.tstr(nd.get('alloc_t', 0))) + tuple(T(x) for x in nd['ch'])
        if c == 'CXXThrowExpr':
            return ('throw', self.unit.tstr(nd.get('tt', 0)))
        if c == 'CXXStdInitializerListExpr':
            return T(nd['ch'][0])
        return ('other', c) + tuple(T(x) for x in nd['ch'])

    # ------------------------------------------------------------- pure expression functions
    def pure_return(self):
        """term of `return e;` if the body consists of exactly that statement (a pure expression function), else None"""
        if not self.body:
            return None
        b = self.n(self.body)
        if b['c'] != 'CompoundStmt' or len(b['ch']) != 1:
            return None
        r = self.n(b['ch'][0])
        if r['c'] != 'ReturnStmt' or not r['ch']:
            return None
        return self.term(r['ch'][0], inline=False)

    def _expand_unknown_helper(self, nd, args, T, depth):
        """a call of a function or local closure that is not part of the vocabulary the rules were written against (a helper
        introduced by a later refactoring), with exactly one return statement: the returned expression with the parameters
        replaced by the arguments.  Known functions stay opaque symbols."""
        callee = self.unit.functions.get(nd.get('cd')) if nd.get('cd') else None
        if callee is None or callee.id == self.id or not callee.body:
            return None
        known = known_names()
        if nd['c'] == 'CXXOperatorCallExpr' and nd.get('op') == '()':
            a0 = self.strip(nd['args'][0]) if nd.get('args') else 0
            a0n = self.n(a0) if a0 else {}
            if a0n.get('c') != 'DeclRefExpr' or a0n.get('dk') not in ('local', 'static_local') or '(lambda)' not in callee.tname:
                return None
            if (self.tname + '|' + a0n.get('n', '')) in known['closures'] or self.tname not in known['functions']:
                return None
            actual = args[1:]
            obj = None
        elif nd['c'] in ('CallExpr', 'CXXMemberCallExpr'):
            if callee.tname in known['functions'] or not (callee.tname.startswith('pgm::') or callee.file.endswith('cpgm.cpp')):
                return None
            actual = args
            obj = T(nd['obj']) if nd.get('obj') else None
        else:
            return None
        if not expandable_helper(callee) or len(callee.params) != len(actual):
            return None
        rets = [r for r in callee.returns() if callee.n(r)['ch']]
        body = callee.term(callee.n(rets[0])['ch'][0], True, depth + 1)
        if any(isinstance(x, tuple) and x and x[0] == 'lambda' for x in _all_subterms(body)):
            return None     # the helper builds a closure of its own: leave it to the rules that know how to enter it
        sub = {('param', p['name']): a for p, a in zip(callee.params, actual)}

        def rep(x):
            if isinstance(x, tuple):
                if x in sub:
                    return sub[x]
                if x == ('this',) and obj is not None:
                    return obj
                return tuple(rep(y) for y in x)
            return x
        return rep(body)

    # ------------------------------------------------------------- searches
    def calls(self, root=None, pred=None):
        """node ids of call/construct expressions below root (default: whole function incl. ctor inits)"""
        ids = self.walk(root) if root else self.all_ids()
        out = []
        for i in ids:
            nd = self.n(i)
            if nd['c'] in ('CallExpr', 'CXXMemberCallExpr', 'CXXOperatorCallExpr', 'CXXConstructExpr', 'CXXTemporaryObjectExpr'):
                if pred is None or pred(nd):
                    out.append(i)
        return out

    def calls_to(self, ct, root=None):
        return self.calls(root, lambda nd: nd.get('ct') == ct)

    def returns(self):
        return [i for i in self.all_ids() if self.n(i)['c'] == 'ReturnStmt']

    def find(self, cls, root=None):
        ids = self.walk(root) if root else self.all_ids()
        return [i for i in ids if self.n(i)['c'] == cls]

    # ------------------------------------------------------------- CFG position of nodes
    @property
    def blockof(self):
        """node id -> (block id, index in block) for nodes that are CFG elements"""
        if self._blockof is None:
            m = {}
            if self.cfg:
                for b in self.cfg['blocks']:
                    for k, e in enumerate(b['elems']):
                        m.setdefault(e, (b['id'], k))
            self._blockof = m
        return self._blockof

    def block_of(self, i):
        """CFG position of node i, or of its nearest ancestor that is a CFG element"""
        x = i
        while x:
            if x in self.blockof:
                return self.blockof[x]
            x = self.parent(x)
        return None


def _aggregate_elems(t0):
    """elements of a term that denotes an aggregate: {a, b}, pair(a, b), make_pair(a, b), or a conditional between two such
    aggregates (the value of a helper of the form `if (c) return {a, b}; return {x, y};`): element-wise conditional"""
    while t0 and t0[0] == 'cast':
        t0 = t0[2]
    if not t0:
        return None
    if t0[0] == 'init':
        return t0[1:]
    if t0[0] == 'construct' and str(t0[1]) in ('std::pair', 'std::tuple'):
        if len(t0[2]) == 1:
            inner = _aggregate_elems(t0[2][0])       # pair(pair) copy / conversion of an aggregate
            if inner is not None:
                return inner
        return t0[2]
    if t0[0] == 'call' and str(t0[1]) in ('std::make_pair', 'std::make_tuple'):
        return tuple(x[2] if isinstance(x, tuple) and x and x[0] == 'cast' else x for x in t0[2])
    if t0[0] == 'cond' and len(t0) == 4:
        a, b = _aggregate_elems(t0[2]), _aggregate_elems(t0[3])
        if a is not None and b is not None and len(a) == len(b):
            return tuple(('cond', t0[1], x, y) for x, y in zip(a, b))
    return None


def fmt_term(t, depth=0):
    """compact human readable rendering of a term"""
    if not isinstance(t, tuple):
        return str(t)
    k = t[0]
    if k == 'lit':
        return str(t[1])
    if k == 'tparam':
        return f"{t[1]}"
    if k in ('param', 'local', 'sym'):
        return t[1]
    if k == 'field':
        b = fmt_term(t[2])
        return t[1] if b == 'this' else f"{b}.{t[1]}"
    if k == 'this':
        return 'this'
    if k == 'static':
        return t[1].split('::')[-1]
    if k == 'op' and len(t) == 4:
        return f"({fmt_term(t[2])} {t[1]} {fmt_term(t[3])})"
    if k == 'op':
        return f"op{t[1]}(" + ", ".join(fmt_term(x) for x in t[2:]) + ")"
    if k == 'un':
        return f"{t[1]}{fmt_term(t[2])}"
    if k == 'deref':
        return f"*{fmt_term(t[1])}"
    if k == 'index':
        return f"{fmt_term(t[1])}[{fmt_term(t[2])}]"
    if k == 'cond':
        return f"({fmt_term(t[1])} ? {fmt_term(t[2])} : {fmt_term(t[3])})"
    if k == 'call':
        name = t[1].split('::')[-1] if '(' not in t[1] else t[1]
        s = name + "(" + ", ".join(fmt_term(x) for x in t[2]) + ")"
        if len(t) > 3 and t[3] is not None:
            s = fmt_term(t[3]) + "." + s
        return s
    if k == 'cast':
        return f"({t[1]}){fmt_term(t[2])}"
    if k == 'construct':
        return (t[1] or '?').split('::')[-1] + "{" + ", ".join(fmt_term(x) for x in t[2]) + "}"
    if k == 'init':
        return "{" + ", ".join(fmt_term(x) for x in t[1:]) + "}"
    if k == 'conv':
        return fmt_term(t[2])
    return k + "(" + ", ".join(fmt_term(x) for x in t[1:]) + ")"


def _all_subterms(t):
    if isinstance(t, tuple):
        yield t
        for x in t:
            if isinstance(x, tuple):
                yield from _all_subterms(x)


def expand_calls(unit, t, depth=0):
    """replace calls of pure expression functions of the fact base (a body that is one `return e;`, e.g. PGM_SUB_EPS
    written as a constexpr function instead of a macro) by their body with the arguments substituted"""
    if not isinstance(t, tuple) or depth > 8:
        return t
    t = tuple(expand_calls(unit, x, depth) for x in t)
    if t and t[0] == 'call' and len(t) >= 3 and isinstance(t[1], str) and (len(t) < 4 or t[3] is None):
        for f in unit.by_tname.get(t[1], []):
            if len(f.params) != len(t[2]):
                continue
            body = f.pure_return()
            # free functions, and member functions whose one-expression body does not touch the object (static helpers)
            if f.record and (body is None or any(isinstance(x, tuple) and x == ('this',) for x in _all_subterms(body))):
                continue
            if True:
                if body is not None:
                    sub = {('param', p['name']): a for p, a in zip(f.params, t[2])}

                    def rep(x):
                        if isinstance(x, tuple):
                            if x in sub:
                                return sub[x]
                            return tuple(rep(y) for y in x)
                        return x
                    return expand_calls(unit, rep(body), depth + 1)
    return t


def resolve_calls(unit, t, depth=0, containing=('std::lower_bound', 'std::upper_bound', 'std::binary_search', 'std::equal_range')):
    """replace a call of a function of the fact base that has exactly one return statement (its single-definition locals looked
    through) by the returned expression with the arguments substituted: a helper extracted from a query is still the query"""
    if not isinstance(t, tuple) or depth > 4:
        return t
    t = tuple(resolve_calls(unit, x, depth, containing) if isinstance(x, tuple) else x for x in t)
    if t and t[0] == 'call' and len(t) >= 3 and isinstance(t[1], str) and t[1].startswith('pgm::'):
        for f in unit.by_tname.get(t[1], []):
            if len(f.params) != len(t[2]):
                continue
            rets = [r for r in f.returns() if f.n(r)['ch']]
            if len(rets) != 1:
                continue
            body = f.term(f.n(rets[0])['ch'][0], inline=True)
            # only helpers that wrap a search are looked through; other functions (encode, ...) stay opaque symbols
            if containing and not any(isinstance(x, tuple) and x and x[0] == 'call' and x[1] in containing for x in _all_subterms(body)):
                continue
            sub = {('param', p['name']): a for p, a in zip(f.params, t[2])}

            def rep(x):
                if isinstance(x, tuple):
                    if x in sub:
                        return sub[x]
                    if x == ('this',) and len(t) > 3 and t[3] is not None:
                        return t[3]
                    return tuple(rep(y) for y in x)
                return x
            return resolve_calls(unit, rep(body), depth + 1, containing)
    return t


def canon_minmax(t):
    """`a < b ? a : b` and its seven siblings as std::min(a, b) / std::max(a, b) (the defining ternaries of the two algorithms)"""
    if not isinstance(t, tuple):
        return t
    t = tuple(canon_minmax(x) if isinstance(x, tuple) else x for x in t)
    if t and t[0] == 'cond' and len(t) == 4:
        c = t[1]
        while c and c[0] == 'cast':
            c = c[2]

        def sc(x):
            while isinstance(x, tuple) and x and x[0] == 'cast':
                x = x[2]
            return x
        if c[0] == 'op' and len(c) == 4 and c[1] in ('<', '<=', '>', '>='):
            a, b, x, y = sc(c[2]), sc(c[3]), sc(t[2]), sc(t[3])
            if {repr(x), repr(y)} == {repr(a), repr(b)} and repr(a) != repr(b):
                less = c[1] in ('<', '<=')
                picks_first = repr(x) == repr(a)
                # a < b ? a : b -> min ; a < b ? b : a -> max ; a > b ? a : b -> max ; a > b ? b : a -> min
                name = 'std::min' if (less == picks_first) else 'std::max'
                return ('call', name, (a, b), None)
    return t
