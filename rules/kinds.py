"""KIND: typestate of binary-search idioms.

A search result carries an abstract bound kind relative to the searched key:
  FIRST_GE  first element >= key   (std::lower_bound, DynamicPGMIndex::lower_bound_bl)
  FIRST_GT  first element >  key   (std::upper_bound)
  LAST_LE   last element  <= key   (prev of FIRST_GT)
  LAST_LT   last element  <  key   (prev of FIRST_GE)
prev/--/-1 and next/++/+1 move between them; anything else is unknown (None).
"""
from cfg import graph

LOWER = ('std::lower_bound', 'pgm::DynamicPGMIndex::lower_bound_bl')
UPPER = ('std::upper_bound',)

SHIFT_DOWN = {'FIRST_GT': 'LAST_LE', 'FIRST_GE': 'LAST_LT'}
SHIFT_UP = {'LAST_LE': 'FIRST_GT', 'LAST_LT': 'FIRST_GE'}


def shift(k, d):
    if k is None:
        return None
    kind, key, lo, hi = k
    m = SHIFT_DOWN if d < 0 else SHIFT_UP
    if kind in m:
        return (m[kind], key, lo, hi)
    return None


def _is_one(t):
    return t == ('lit', 1)


def kind_of_term(t):
    """(kind, key term, range lo term, range hi term) or None"""
    if not isinstance(t, tuple):
        return None
    if t[0] == 'call':
        name, args = t[1], t[2]
        if name in LOWER and len(args) >= 3:
            return ('FIRST_GE', args[2], args[0], args[1])
        if name in UPPER and len(args) >= 3:
            return ('FIRST_GT', args[2], args[0], args[1])
        if name == 'std::prev' and (len(args) == 1 or (len(args) == 2 and _is_one(args[1]))):
            return shift(kind_of_term(args[0]), -1)
        if name == 'std::next' and (len(args) == 1 or (len(args) == 2 and _is_one(args[1]))):
            return shift(kind_of_term(args[0]), +1)
        return None
    if t[0] == 'op' and len(t) == 4:
        if t[1] == '-' and _is_one(t[3]):
            return shift(kind_of_term(t[2]), -1)
        if t[1] == '+' and _is_one(t[3]):
            return shift(kind_of_term(t[2]), +1)
        if t[1] == '+' and _is_one(t[2]):
            return shift(kind_of_term(t[3]), +1)
    if t[0] == 'cast':
        return kind_of_term(t[2])
    return None


def _is_incdec_target(fn, ref_node):
    """+1 / -1 if ref_node (a reference to the tracked variable) is the operand of ++/--, 'assign' if it is an
    assignment target, 'read' otherwise"""
    p = fn.sparent(ref_node)
    if not p:
        return 'read'
    nd = fn.n(p)
    c = nd['c']
    if c == 'UnaryOperator' and nd['op'] in ('++', '--') and fn.strip(nd['ch'][0]) == ref_node:
        return +1 if nd['op'] == '++' else -1
    if c == 'CXXOperatorCallExpr' and nd.get('op') in ('++', '--') and nd.get('args') and fn.strip(nd['args'][0]) == ref_node:
        return +1 if nd['op'] == '++' else -1
    if c in ('BinaryOperator', 'CompoundAssignOperator') and nd['op'] == '=' and fn.strip(nd['ch'][0]) == ref_node:
        return 'assign'
    if c == 'CXXOperatorCallExpr' and nd.get('op') == '=' and nd.get('args') and fn.strip(nd['args'][0]) == ref_node:
        return 'assign'
    if c in ('BinaryOperator', 'CompoundAssignOperator') and nd['op'] in ('+=', '-=') and fn.strip(nd['ch'][0]) == ref_node:
        return 'other_write'
    return 'read'


def kinds_at_next_read(fn, assign_node, xterm):
    """Abstractly execute from the element after `assign_node` (an assignment `X = <search>`), applying ++X/--X,
    until X is next *read* (dereferenced, compared, passed) on each path.  Returns a set of (kind tuple or None,
    read node)."""
    g = graph(fn)
    nd = fn.n(assign_node)
    rhs = nd['args'][1] if nd['c'] == 'CXXOperatorCallExpr' else nd['ch'][1]
    start = kind_of_term(fn.term(rhs, inline=True))
    pos = fn.block_of(assign_node)
    if not pos:
        return {(None, assign_node)}
    results = set()
    seen = set()
    work = [(pos[0], pos[1] + 1, start)]
    while work:
        b, idx, st = work.pop()
        if (b, idx, st) in seen:
            continue
        seen.add((b, idx, st))
        elems = g.blocks[b]['elems']
        stopped = False
        for k in range(idx, len(elems)):
            e = elems[k]
            end = fn.n(e)
            if end['c'] in ('DeclRefExpr', 'MemberExpr') and fn.term(e, inline=False) == xterm:
                role = _is_incdec_target(fn, e)
                if role == 'read':
                    results.add((st, e))
                    stopped = True
                    break
                if role in (+1, -1):
                    st = shift(st, role)
                elif role == 'assign':
                    stopped = True   # re-assigned before any read: this definition is dead on this path
                    break
                else:
                    st = None
        if stopped:
            continue
        for s in g.succ[b]:
            if s is not None:
                work.append((s, 0, st))
    return results


# ------------------------------------------------------------------------------------------------
# Flow-sensitive tracking of iterator-valued locals through the CFG.
#
# States: a kind tuple (kind, key, lo, hi); ('START',) for "a position that is only known to be a start of a
# forward scan" (e.g. the beginning of the routing window); None for unknown / conflicting.
# Edge refinement (the linear-scan idiom): leaving the loop  `for (; KEYOF(next(X)) <= K; ++X)`  on its false
# edge means next(X) is the first element > K, i.e. X is LAST_LE(K) - given that the scan started at or before
# the predecessor (numeric, stated as an assumption by the rules that use it).

START = ('START',)


def _scan_cond(fn, c):
    """(X term, key term) if condition c is `*next(X) <= K` or `next(X)->key <= K`"""
    c = fn.strip(c)
    if not c:
        return None
    t = fn.term(c, inline=False)
    if t[0] == 'op' and len(t) == 4 and t[1] == '<=':
        lhs, rhs = t[2], t[3]
        # unwrap `.key` / user conversion
        if lhs[0] == 'field' and lhs[1] == 'key':
            lhs = lhs[2]
        if lhs[0] == 'conv':
            lhs = lhs[2]
        if lhs[0] == 'deref':
            inner = lhs[1]
            if inner[0] == 'call' and inner[1] == 'std::next' and (len(inner[2]) == 1 or (len(inner[2]) == 2 and _is_one(inner[2][1]))):
                x = inner[2][0]
                if x[0] == 'local':
                    return x, rhs
    return None


def track(fn, var_ids, seed=None):
    """abstract interpretation of the locals in var_ids; returns a helper to query the state just before a CFG element node.
    seed = (node, {var: state}): interpret only what follows the CFG element `node`, starting from the given state (the states
    reached from that element alone, not joined with those of other ways into the code after it); helper.visited(node) tells
    whether the element is reachable from there."""
    g = graph(fn)
    IN = {}
    before = {}
    before_seed = {}

    def join(a, b):
        out = {}
        for v in set(a) | set(b):
            if v in a and v in b:
                out[v] = a[v] if a[v] == b[v] else None
            else:
                out[v] = a.get(v, b.get(v))
        return out

    def rhs_state(rhs_node, st):
        t = fn.term(rhs_node, inline=False)
        if t[0] == 'local' and t[2] in st:
            return st[t[2]]
        k = kind_of_term(fn.term(rhs_node, inline=True))
        if k:
            return k
        # prev/next of a tracked local
        if t[0] == 'call' and t[1] in ('std::prev', 'std::next') and t[2] and t[2][0][0] == 'local' and t[2][0][2] in st:
            s0 = st[t[2][0][2]]
            if s0 and s0 != START:
                return shift(s0, -1 if t[1] == 'std::prev' else +1)
            return None
        return START

    def process(b, st, first_idx, rec):
        """interpret block b from element first_idx on with entry state st; record the states in rec; yield (successor, state)"""
        st = dict(st)
        blk = g.blocks[b]
        for idx, e in enumerate(blk['elems']):
            if idx < first_idx:
                continue
            rec[(b, idx)] = dict(st)
            nd = fn.n(e)
            c = nd['c']
            if c == 'DeclStmt':
                for v in nd.get('vars', []):
                    if v['id'] in var_ids:
                        st[v['id']] = rhs_state(v['init'], st) if v['init'] else None
            elif (c == 'BinaryOperator' and nd['op'] == '=') or (c == 'CXXOperatorCallExpr' and nd.get('op') == '=' and len(nd.get('args', [])) == 2):
                lhs = nd['ch'][0] if c == 'BinaryOperator' else nd['args'][0]
                rhs = nd['ch'][1] if c == 'BinaryOperator' else nd['args'][1]
                v = fn.var_of(lhs)
                if v in var_ids:
                    st[v] = rhs_state(rhs, st)
            elif (c == 'UnaryOperator' and nd['op'] in ('++', '--')) or (c == 'CXXOperatorCallExpr' and nd.get('op') in ('++', '--')):
                tgt = nd['ch'][0] if c == 'UnaryOperator' else nd['args'][0]
                v = fn.var_of(tgt)
                if v in var_ids:
                    s0 = st.get(v)
                    if s0 == START:
                        st[v] = START
                    else:
                        st[v] = shift(s0, +1 if nd.get('op') == '++' else -1)
            elif c in ('CompoundAssignOperator',) or (c == 'CXXOperatorCallExpr' and nd.get('op') in ('+=', '-=')):
                tgt = nd['ch'][0] if c == 'CompoundAssignOperator' else nd['args'][0]
                v = fn.var_of(tgt)
                if v in var_ids:
                    st[v] = None
        rec[(b, len(blk['elems']))] = dict(st)
        cond = g.cond(b)
        sc = _scan_cond(fn, cond) if cond else None
        outs = []
        for (s, lab) in g.out_edges(b):
            if s is None:
                continue
            out = dict(st)
            if sc and lab is False:
                x, key = sc
                if x[2] in var_ids and out.get(x[2]) in (START,) + tuple([out.get(x[2])] if (out.get(x[2]) and out.get(x[2])[0] == 'LAST_LE') else []):
                    out[x[2]] = ('LAST_LE', key, None, None)
            outs.append((s, out))
        return outs

    work = []

    def push(s, out):
        if s not in IN:
            IN[s] = out
            work.append(s)
        else:
            j = join(IN[s], out)
            if j != IN[s]:
                IN[s] = j
                work.append(s)

    if seed is None:
        IN[g.entry] = {}
        work.append(g.entry)
    else:
        sp = fn.block_of(seed[0])
        if sp:
            for (s, out) in process(sp[0], seed[1], sp[1] + 1, before_seed):
                push(s, out)
    iters = 0
    while work and iters < 5000:
        iters += 1
        b = work.pop()
        for (s, out) in process(b, IN[b], 0, before):
            push(s, out)

    def _at(pos):
        a, b_ = before.get(pos), before_seed.get(pos)
        if a is not None and b_ is not None:
            return join(a, b_)
        return a if a is not None else b_

    def state_before(node, var_id):
        pos = fn.block_of(node)
        if not pos:
            return None
        return (_at((pos[0], pos[1])) or {}).get(var_id)

    def visited(node):
        pos = fn.block_of(node)
        return bool(pos) and _at((pos[0], pos[1])) is not None

    state_before.visited = visited
    return state_before
