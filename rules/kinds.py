"""KIND: typestate of binary-search idioms.

A search result carries an abstract bound kind relative to the searched key:
  FIRST_GE  first element >= key   (std::lower_bound, DynamicPGMIndex::lower_bound_bl)
  FIRST_GT  first element >  key   (std::upper_bound)
  LAST_LE   last element  <= key   (prev of FIRST_GT)
  LAST_LT   last element  <  key   (prev of FIRST_GE)
prev/--/-1 and next/++/+1 move between them; anything else is unknown (None).
"""
from cfg import graph

LOWER = ('std::lower_bound', 'pgm::DynamicPGMIndex::lower_bound_bl')
UPPER = ('std::upper_bound',)

SHIFT_DOWN = {'FIRST_GT': 'LAST_LE', 'FIRST_GE': 'LAST_LT'}
SHIFT_UP = {'LAST_LE': 'FIRST_GT', 'LAST_LT': 'FIRST_GE'}


def shift(k, d):
    if k is None:
        return None
    kind, key, lo, hi = k
    m = SHIFT_DOWN if d < 0 else SHIFT_UP
    if kind in m:
        return (m[kind], key, lo, hi)
    return None


def _is_one(t):
    return t == ('lit', 1)


def kind_of_term(t):
    """(kind, key term, range lo term, range hi term) or None"""
    if not isinstance(t, tuple):
        return None
    if t[0] == 'call':
        name, args = t[1], t[2]
        if name in LOWER and len(args) >= 3:
            return ('FIRST_GE', args[2], args[0], args[1])
        if name in UPPER and len(args) >= 3:
            return ('FIRST_GT', args[2], args[0], args[1])
        if name == 'std::prev' and (len(args) == 1 or (len(args) == 2 and _is_one(args[1]))):
            return shift(kind_of_term(args[0]), -1)
        if name == 'std::next' and (len(args) == 1 or (len(args) == 2 and _is_one(args[1]))):
            return shift(kind_of_term(args[0]), +1)
        return None
    if t[0] == 'op' and len(t) == 4:
        if t[1] == '-' and _is_one(t[3]):
            return shift(kind_of_term(t[2]), -1)
        if t[1] == '+' and _is_one(t[3]):
            return shift(kind_of_term(t[2]), +1)
        if t[1] == '+' and _is_one(t[2]):
            return shift(kind_of_term(t[3]), +1)
    if t[0] == 'cast':
        return kind_of_term(t[2])
    return None


def _is_incdec_target(fn, ref_node):
    """+1 / -1 if ref_node (a reference to the tracked variable) is the operand of ++/--, 'assign' if it is an
    assignment target, 'read' otherwise"""
    p = fn.sparent(ref_node)
    if not p:
        return 'read'
    nd = fn.n(p)
    c = nd['c']
    if c == 'UnaryOperator' and nd['op'] in ('++', '--') and fn.strip(nd['ch'][0]) == ref_node:
        return +1 if nd['op'] == '++' else -1
    if c == 'CXXOperatorCallExpr' and nd.get('op') in ('++', '--') and nd.get('args') and fn.strip(nd['args'][0]) == ref_node:
        return +1 if nd['op'] == '++' else -1
    if c in ('BinaryOperator', 'CompoundAssignOperator') and nd['op'] == '=' and fn.strip(nd['ch'][0]) == ref_node:
        return 'assign'
    if c == 'CXXOperatorCallExpr' and nd.get('op') == '=' and nd.get('args') and fn.strip(nd['args'][0]) == ref_node:
        return 'assign'
    if c in ('BinaryOperator', 'CompoundAssignOperator') and nd['op'] in ('+=', '-=') and fn.strip(nd['ch'][0]) == ref_node:
        return 'other_write'
    return 'read'


def kinds_at_next_read(fn, assign_node, xterm):
    """Abstractly execute from the element after `assign_node` (an assignment `X = <search>`), applying ++X/--X,
    until X is next *read* (dereferenced, compared, passed) on each path.  Returns a set of (kind tuple or None,
    read node)."""
    g = graph(fn)
    nd = fn.n(assign_node)
    rhs = nd['args'][1] if nd['c'] == 'CXXOperatorCallExpr' else nd['ch'][1]
    start = kind_of_term(fn.term(rhs, inline=True))
    pos = fn.block_of(assign_node)
    if not pos:
        return {(None, assign_node)}
    results = set()
    seen = set()
    work = [(pos[0], pos[1] + 1, start)]
    while work:
        b, idx, st = work.pop()
        if (b, idx, st) in seen:
            continue
        seen.add((b, idx, st))
        elems = g.blocks[b]['elems']
        stopped = False
        for k in range(idx, len(elems)):
            e = elems[k]
            end = fn.n(e)
            if end['c'] in ('DeclRefExpr', 'MemberExpr') and fn.term(e, inline=False) == xterm:
                role = _is_incdec_target(fn, e)
                if role == 'read':
                    results.add((st, e))
                    stopped = True
                    break
                if role in (+1, -1):
                    st = shift(st, role)
                elif role == 'assign':
                    stopped = True   # re-assigned before any read: this definition is dead on this path
                    break
                else:
                    st = None
        if stopped:
            continue
        for s in g.succ[b]:
            if s is not None:
                work.append((s, 0, st))
    return results
