"""Rules for MultidimensionalPGMIndex: C13 (range), C14 (contains)."""
import itertools

import endguard
import kinds
from cfg import graph
from common import Ob, OK, VIOLATED, UNDECIDED, AnalysisBroken
from ir import fmt_term

MD = 'pgm::MultidimensionalPGMIndex'
RI = MD + '::RangeIterator'


def _subterms(t):
    """all sub-terms (argument tuples are traversed, not yielded)"""
    if isinstance(t, tuple):
        if t and isinstance(t[0], str):
            yield t
        for x in t:
            if isinstance(x, tuple):
                yield from _subterms(x)


def _contains(t, sub):
    return any(s == sub for s in _subterms(t))


# ------------------------------------------------------------------------------------------ END-GUARD

def rule_end_guard(ctx, tnames, rule='END-GUARD', prefix=None):
    """no dereference on a path that has just established X == end() — over the named functions, or over every
    function whose name starts with prefix"""
    obs = []
    fns = []
    if prefix:
        for u in ctx.all_units():
            fns += [f for f in u.functions.values() if f.tname.startswith(prefix)]
    for tn in tnames or []:
        fns += ctx.need(tn)
    for f in fns:
        r = endguard.analyse(f)
        vio_cmp = {v[2] for v in r['violations']}
        und_cmp = {v[2] for v in r['undecided']}
        for v in r['violations']:
            obs.append(Ob(rule, f, v[0], 'no dereference of an iterator on a path on which it was just found equal to end()',
                          endguard.describe(f, v, r), VIOLATED, arm=fmt_term(v[1])))
        for v in r['undecided']:
            obs.append(Ob(rule, f, v[0], 'no dereference of an iterator on a path on which it was just found equal to end()',
                          'correlated-flag path, feasibility unknown: ' + endguard.describe(f, v), UNDECIDED, arm=fmt_term(v[1])))
        done = set()
        for (c, x) in r['cmp_sites']:
            if (c, x) in done or c in vio_cmp or c in und_cmp:
                continue
            done.add((c, x))
            obs.append(Ob(rule, f, c, 'no dereference of an iterator on a path on which it was just found equal to end()',
                          f"`{fmt_term(x)}` is compared with end() here; no dereference of it is reachable on the equal-to-end edge "
                          f"before a re-test or re-assignment", OK, arm=fmt_term(x)))
    return obs


# ------------------------------------------------------------------------------------------ C14

def _bool_formula(fn, i):
    """and/or/not tree over atoms (node ids)"""
    i = fn.strip(i)
    nd = fn.n(i)
    if nd['c'] == 'BinaryOperator' and nd['op'] in ('&&', '||'):
        return (nd['op'], _bool_formula(fn, nd['ch'][0]), _bool_formula(fn, nd['ch'][1]))
    if nd['c'] == 'UnaryOperator' and nd['op'] == '!':
        return ('!', _bool_formula(fn, nd['ch'][0]))
    if nd['c'] == 'CXXBoolLiteralExpr':
        return ('const', nd.get('v') == '1')
    return ('atom', i)


def _atoms(f):
    if f[0] == 'atom':
        return {f[1]}
    if f[0] == 'const':
        return set()
    return set().union(*[_atoms(x) for x in f[1:]])


def _eval(f, env):
    if f[0] == 'atom':
        return env[f[1]]
    if f[0] == 'const':
        return f[1]
    if f[0] == '!':
        return not _eval(f[1], env)
    if f[0] == '&&':
        return _eval(f[1], env) and _eval(f[2], env)
    return _eval(f[1], env) or _eval(f[2], env)


def _implies_atom(formula, atom):
    ats = sorted(_atoms(formula))
    if atom not in ats:
        return False
    for vals in itertools.product([False, True], repeat=len(ats)):
        env = dict(zip(ats, vals))
        if _eval(formula, env) and not env[atom]:
            return False
    return True


def rule_true_implies_eq(ctx):
    """contains() returns true only on paths on which the element at the lower-bound position compared equal to the
    query (decoded element == p, or stored code == encode(p))"""
    obs = []
    for f in ctx.need(MD + '::contains'):
        g = graph(f)
        rets = f.returns()
        if not rets:
            raise AnalysisBroken(f"{f.qname}: no return statement")
        enc = ('call', MD + '::encode', (('param', f.params[0]['name']),), None)
        par = ('param', f.params[0]['name'])
        for r in rets:
            e = f.n(r)['ch'][0] if f.n(r)['ch'] else 0
            if not e:
                continue
            form = _bool_formula(f, e)
            if form[0] == 'const' and form[1] is False:
                obs.append(Ob('TRUE-IMPLIES-EQ', f, r, 'true only if the found element equals the query', 'returns the constant false', OK, arm='ret'))
                continue
            # equality atoms: `Decode(*it) == p` or `*it == encode(p)` with `it` a FIRST_GE(encode(p)) search result
            eq_atoms = []
            for a in _atoms(form):
                t = f.term(a, inline=True)
                if t[0] == 'op' and t[1] == '==' and len(t) == 4:
                    for x, y in ((t[2], t[3]), (t[3], t[2])):
                        cand = None
                        if x[0] == 'call' and x[1].endswith('::Decode') and len(x[2]) == 1 and x[2][0][0] == 'deref' and y == par:
                            cand = x[2][0][1]
                        elif x[0] == 'deref' and y == enc:
                            cand = x[1]
                        if cand is not None:
                            k = kinds.kind_of_term(cand)
                            if k and k[0] == 'FIRST_GE' and k[1] == enc:
                                eq_atoms.append(a)
            # also accept a return that is control dependent on such an equality being true
            ok = any(_implies_atom(form, a) for a in eq_atoms)
            how = 'the returned expression implies the equality atom' if ok else ''
            if not ok:
                pos = f.block_of(r)
                if pos:
                    for (b, lab) in g.transitive_control_deps(pos[0]):
                        c = g.cond(b)
                        if c and lab is True:
                            cf = _bool_formula(f, c)
                            for a in _atoms(cf):
                                t = f.term(a, inline=True)
                                if t[0] == 'op' and t[1] == '==' and (_contains(t, par)) and _implies_atom(cf, a) and any(s[0] == 'deref' for s in _subterms(t)):
                                    ok = True
                                    how = 'the return is control dependent on the equality'
            found = fmt_term(f.term(e, inline=False))
            if ok:
                obs.append(Ob('TRUE-IMPLIES-EQ', f, r, 'contains() yields true only if the element at lower_bound(encode(p)) equals p',
                              f"`{found}`: {how}", OK, arm='ret'))
            else:
                obs.append(Ob('TRUE-IMPLIES-EQ', f, r, 'contains() yields true only if the element at lower_bound(encode(p)) equals p',
                              f"`{found}` can evaluate to true without the equality `Decode(*it) == p` (it = lower_bound(..., encode(p))) being true",
                              VIOLATED, arm='ret'))
    return obs


def rule_contains_kind(ctx):
    """the position compared in contains() is FIRST_GE(encode(p)) inside the range pgm.search(encode(p)) returned"""
    obs = []
    for f in ctx.need(MD + '::contains'):
        enc = ('call', MD + '::encode', (('param', f.params[0]['name']),), None)
        sites = f.calls(pred=lambda nd: nd.get('ct') in kinds.LOWER + kinds.UPPER)
        if not sites:
            obs.append(Ob('KIND', f, 0, 'a lower_bound search for encode(p)', 'no binary search call found', VIOLATED, arm='contains'))
            continue
        for s in sites:
            k = kinds.kind_of_term(f.term(s, inline=True))
            ok = bool(k) and k[0] == 'FIRST_GE' and k[1] == enc
            rng_ok = False
            if k:
                srch = ('call', 'pgm::PGMIndex::search', (enc,), ('field', 'pgm', ('this',)))
                rng_ok = _contains(k[2], ('field', 'lo', srch)) and _contains(k[3], ('field', 'hi', srch))
            st = OK if ok and rng_ok else VIOLATED
            obs.append(Ob('KIND', f, s, 'FIRST_GE(encode(p)) within [search(encode(p)).lo, .hi)',
                          f"{k[0] if k else 'unknown'}({fmt_term(k[1]) if k else '?'}) over [{fmt_term(k[2]) if k else '?'}, {fmt_term(k[3]) if k else '?'})",
                          st, arm='contains'))
    return obs


# ------------------------------------------------------------------------------------------ C13

def rule_emit_guard(ctx):
    """a point is emitted (field p assigned from Decode(*it)) only under box_zcontains(zmin, zmax, *it) == true"""
    obs = []
    P = ('field', 'p', ('this',))
    IT = ('field', 'it', ('this',))
    n_sites = 0
    for tn in (RI + '::advance', RI + '::RangeIterator'):
        for f in ctx.need(tn):
            if tn.endswith('::RangeIterator') and len(f.params) != 3:
                continue
            g = graph(f)
            for i in f.all_ids():
                nd = f.n(i)
                is_assign = (nd['c'] == 'CXXOperatorCallExpr' and nd.get('op') == '=') or (nd['c'] == 'BinaryOperator' and nd.get('op') == '=')
                if not is_assign:
                    continue
                t = f.term(i, inline=False)
                if t[2] != P:
                    continue
                n_sites += 1
                pos = f.block_of(i)
                guard_ok = False
                guard_txt = 'no enclosing box test'
                if pos:
                    want = (('field', 'zmin', ('this',)), ('field', 'zmax', ('this',)), ('deref', IT))
                    for (b, lab) in g.transitive_control_deps(pos[0]):
                        c = g.cond(b)
                        if not c or lab is not True:
                            continue
                        # the condition (possibly a conjunction) must imply box_zcontains(zmin, zmax, *it)
                        form_ = _bool_formula(f, c)
                        for a in _atoms(form_):
                            at = f.term(a, inline=False)
                            if at[0] == 'call' and at[1] == MD + '::box_zcontains':
                                guard_txt = fmt_term(at) + ' == true'
                                if tuple(at[2]) == want and _implies_atom(form_, a):
                                    guard_ok = True
                src_ok = t[3] == ('call', 'mortonnd::MortonNDBmi::Decode', (('deref', IT),), None)
                st = OK if (guard_ok and src_ok) else VIOLATED
                obs.append(Ob('EMIT-GUARD', f, i, 'p = Decode(*it) only under box_zcontains(zmin, zmax, *it) == true',
                              f"`{fmt_term(t)}` guarded by {guard_txt}", st, arm=f.name))
    if n_sites == 0:
        raise AnalysisBroken('EMIT-GUARD: no assignment to RangeIterator::p found')
    # operator* hands out exactly p
    for f in ctx.need(RI + '::operator*'):
        for r in f.returns():
            t = f.term(f.n(r)['ch'][0], inline=True)
            obs.append(Ob('EMIT-GUARD', f, r, 'operator* returns the guarded field p', fmt_term(t), OK if t == P else VIOLATED, arm='deref'))
    return obs


def _range_status(fn, k, key, owner):
    """is the searched range [lo, hi) guaranteed to contain the FIRST_GE/FIRST_GT position of key?
    True: the PGM range of pgm.search(key) (C02), the whole data, or [current position, end); a galloping window
    [x + step/2, min(x + step, end)) is valid for lower_bound only if the gallop loop continues on `*(x + step) < key`
    (with `<=` elements equal to the key are skipped over) -> False; anything else -> None (undecided)"""
    lo, hi = k[2], k[3]
    data = ('field', 'data', owner)
    srch = ('call', 'pgm::PGMIndex::search', (key,), ('field', 'pgm', owner))
    if _contains(lo, ('field', 'lo', srch)) and _contains(hi, ('field', 'hi', srch)):
        return True, 'range = pgm.search(bigmin)'
    is_begin = lambda t: t[0] == 'call' and t[1].endswith('::begin') and t[3] == data
    is_end = lambda t: t[0] == 'call' and t[1].endswith('::end') and t[3] == data
    if is_end(hi) and (is_begin(lo) or lo == ('field', 'it', ('this',))):
        return True, 'range = up to data.end()'
    # galloping window
    steps = [s_ for s_ in _subterms(lo) if s_[0] == 'op' and s_[1] == '/' and s_[3] == ('lit', 2)]
    if steps:
        step = steps[0][2]
        while step[0] == 'cast':
            step = step[2]
        from cfg import graph as _g
        g = _g(fn)
        for b in g.reach:
            c = g.cond(b)
            if not c:
                continue
            t = fn.term(c, inline=True)
            for s_ in _subterms(t):
                if s_[0] == 'op' and len(s_) == 4 and s_[1] in ('<', '<=', '==') and s_[2][0] == 'deref' and _contains(s_[2], step) and s_[3] == key:
                    need = '<' if k[0] == 'FIRST_GE' else '<='
                    if s_[1] == need or (k[0] == 'FIRST_GT' and s_[1] == '=='):
                        return True, f"galloping window grown while *(x + step) {s_[1]} key"
                    return False, (f"galloping window grown while *(x + step) {s_[1]} key: elements equal to the key can lie before the window start, "
                                   f"so {k[0]} inside the window misses them")
    return None, 'searched range is not recognised'


def rule_zskip_kind(ctx):
    """after a Z-order skip the cursor is FIRST_GE(bigmin) when it is next examined (bigmin may itself be stored)"""
    obs = []
    IT = ('field', 'it', ('this',))
    for f in ctx.need(RI + '::advance'):
        bm = f.calls_to(MD + '::bigmin')
        if not bm:
            raise AnalysisBroken(f"{f.qname}: call to bigmin not found")
        found_any = False
        for i in f.all_ids():
            nd = f.n(i)
            is_assign = (nd['c'] == 'CXXOperatorCallExpr' and nd.get('op') == '=') or (nd['c'] == 'BinaryOperator' and nd.get('op') == '=')
            if not is_assign:
                continue
            t = f.term(i, inline=True)
            if f.term(i, inline=False)[2] != IT:
                continue
            if not any(s[0] == 'call' and s[1] == MD + '::bigmin' for s in _subterms(t[3])):
                continue
            found_any = True
            bterm = next(s for s in _subterms(t[3]) if s[0] == 'call' and s[1] == MD + '::bigmin')
            res = kinds.kinds_at_next_read(f, i, IT)
            if not res:
                obs.append(Ob('KIND', f, i, 'FIRST_GE(bigmin) at the next examination of the cursor', 'cursor never read again', UNDECIDED, arm='zskip'))
            for (k, rd) in sorted(res, key=lambda x: x[1]):
                ok = bool(k) and k[0] == 'FIRST_GE' and k[1] == bterm
                rng, rng_txt = _range_status(f, k, bterm, ('field', 'super', ('this',))) if k else (None, '')
                st = OK if (ok and rng is True) else (VIOLATED if (not ok or rng is False) else UNDECIDED)
                obs.append(Ob('KIND', f, i, 'cursor is FIRST_GE(bigmin), searched in a range that contains that position, when next examined',
                              f"{k[0] if k else 'unknown'}({'bigmin' if k and k[1] == bterm else (fmt_term(k[1]) if k else '?')}) at the next read (line {f.n(rd)['l']}); {rng_txt}",
                              st, arm='zskip'))
        if not found_any:
            raise AnalysisBroken(f"{f.qname}: no assignment of the cursor from a search for bigmin found")
    # constructor: initial position is FIRST_GE(zmin)
    for f in ctx.need(RI + '::RangeIterator'):
        if len(f.params) != 3:
            continue
        for i in f.all_ids():
            nd = f.n(i)
            is_assign = (nd['c'] == 'CXXOperatorCallExpr' and nd.get('op') == '=') or (nd['c'] == 'BinaryOperator' and nd.get('op') == '=')
            if not is_assign or f.term(i, inline=False)[2] != IT:
                continue
            k = kinds.kind_of_term(f.term(i, inline=True)[3])
            zmin = ('field', 'zmin', ('this',))
            ok = bool(k) and k[0] == 'FIRST_GE' and k[1] == zmin
            obs.append(Ob('KIND', f, i, 'initial cursor is FIRST_GE(zmin)', f"{k[0] if k else 'unknown'}({fmt_term(k[1]) if k else '?'})",
                          OK if ok else VIOLATED, arm='ctor'))
    return obs


def rules_c13(ctx):
    return (rule_emit_guard(ctx) + rule_zskip_kind(ctx) +
            rule_end_guard(ctx, [RI + '::advance', RI + '::RangeIterator', RI + '::operator++']))


def rules_c14(ctx):
    return rule_true_implies_eq(ctx) + rule_contains_kind(ctx) + rule_end_guard(ctx, [MD + '::contains'])
