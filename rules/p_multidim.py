"""Rules for MultidimensionalPGMIndex: C13 (range), C14 (contains)."""
import itertools

import endguard
import kinds
from cfg import graph
from common import Ob, OK, VIOLATED, UNDECIDED, AnalysisBroken
from ir import fmt_term, resolve_calls

MD = 'pgm::MultidimensionalPGMIndex'
RI = MD + '::RangeIterator'


def _subterms(t):
    """all sub-terms (argument tuples are traversed, not yielded)"""
    if isinstance(t, tuple):
        if t and isinstance(t[0], str):
            yield t
        for x in t:
            if isinstance(x, tuple):
                yield from _subterms(x)


def _contains(t, sub):
    return any(s == sub for s in _subterms(t))


# ------------------------------------------------------------------------------------------ END-GUARD

def rule_end_guard(ctx, tnames, rule='END-GUARD', prefix=None):
    """no dereference on a path that has just established X == end() — over the named functions, or over every
    function whose name starts with prefix"""
    obs = []
    fns = []
    if prefix:
        for u in ctx.all_units():
            fns += [f for f in u.functions.values() if f.tname.startswith(prefix)]
    for tn in tnames or []:
        fns += ctx.need(tn)
    for f in fns:
        r = endguard.analyse(f)
        vio_cmp = {v[2] for v in r['violations']}
        und_cmp = {v[2] for v in r['undecided']}
        for v in r['violations']:
            obs.append(Ob(rule, f, v[0], 'no dereference of an iterator on a path on which it was just found equal to end()',
                          endguard.describe(f, v, r), VIOLATED, arm=fmt_term(v[1])))
        for v in r['undecided']:
            obs.append(Ob(rule, f, v[0], 'no dereference of an iterator on a path on which it was just found equal to end()',
                          'correlated-flag path, feasibility unknown: ' + endguard.describe(f, v), UNDECIDED, arm=fmt_term(v[1])))
        done = set()
        for (c, x) in r['cmp_sites']:
            if (c, x) in done or c in vio_cmp or c in und_cmp:
                continue
            done.add((c, x))
            obs.append(Ob(rule, f, c, 'no dereference of an iterator on a path on which it was just found equal to end()',
                          f"`{fmt_term(x)}` is compared with end() here; no dereference of it is reachable on the equal-to-end edge "
                          f"before a re-test or re-assignment", OK, arm=fmt_term(x)))
    return obs


# ------------------------------------------------------------------------------------------ C14

def _bool_formula(fn, i):
    """and/or/not tree over atoms (node ids)"""
    i = fn.strip(i)
    nd = fn.n(i)
    if nd['c'] == 'BinaryOperator' and nd['op'] in ('&&', '||'):
        return (nd['op'], _bool_formula(fn, nd['ch'][0]), _bool_formula(fn, nd['ch'][1]))
    if nd['c'] == 'UnaryOperator' and nd['op'] == '!':
        return ('!', _bool_formula(fn, nd['ch'][0]))
    if nd['c'] == 'CXXBoolLiteralExpr':
        return ('const', nd.get('v') == '1')
    return ('atom', i)


def _atoms(f):
    if f[0] == 'atom':
        return {f[1]}
    if f[0] == 'const':
        return set()
    return set().union(*[_atoms(x) for x in f[1:]])


def _eval(f, env):
    if f[0] == 'atom':
        return env[f[1]]
    if f[0] == 'const':
        return f[1]
    if f[0] == '!':
        return not _eval(f[1], env)
    if f[0] == '&&':
        return _eval(f[1], env) and _eval(f[2], env)
    return _eval(f[1], env) or _eval(f[2], env)


def _implies_atom(formula, atom):
    ats = sorted(_atoms(formula))
    if atom not in ats:
        return False
    for vals in itertools.product([False, True], repeat=len(ats)):
        env = dict(zip(ats, vals))
        if _eval(formula, env) and not env[atom]:
            return False
    return True


def rule_true_implies_eq(ctx):
    """contains() returns true only on paths on which the element at the lower-bound position compared equal to the
    query (decoded element == p, or stored code == encode(p))"""
    obs = []
    for f in ctx.need(MD + '::contains'):
        g = graph(f)
        rets = f.returns()
        if not rets:
            raise AnalysisBroken(f"{f.qname}: no return statement")
        enc = ('call', MD + '::encode', (('param', f.params[0]['name']),), None)
        par = ('param', f.params[0]['name'])
        for r in rets:
            e = f.n(r)['ch'][0] if f.n(r)['ch'] else 0
            if not e:
                continue
            form = _bool_formula(f, e)
            if form[0] == 'const' and form[1] is False:
                obs.append(Ob('TRUE-IMPLIES-EQ', f, r, 'true only if the found element equals the query', 'returns the constant false', OK, arm='ret'))
                continue
            # equality atoms: `Decode(*it) == p` or `*it == encode(p)` with `it` a FIRST_GE(encode(p)) search result
            eq_atoms = []
            unknown_cand = False
            for a in _atoms(form):
                t = f.term(a, inline=True)
                if t[0] == 'op' and t[1] == '==' and len(t) == 4:
                    for x, y in ((t[2], t[3]), (t[3], t[2])):
                        cand = None
                        decoded = False
                        if x[0] == 'call' and x[1].endswith('::Decode') and len(x[2]) == 1 and x[2][0][0] == 'deref' and y == par:
                            cand = x[2][0][1]
                            decoded = True
                        elif x[0] == 'deref' and y == enc:
                            cand = x[1]
                        elif x[0] == 'call' and x[1].endswith('::Decode') and len(x[2]) == 1 and x[2][0][0] == 'index' and _sc(x[2][0][1]) == ('field', 'data', ('this',)) and y == par:
                            # the decoded element at *some index* of the container equal to p is a stored point equal to p (that the
                            # index is inside the container is C17's obligation, that it is the right one FALSE-IMPLIES-ABSENT's and KIND's)
                            eq_atoms.append(a)
                        if cand is not None:
                            k = kinds.kind_of_term(cand) or kinds.kind_of_term(resolve_calls(f.unit, cand))
                            if k and k[0] == 'FIRST_GE' and k[1] in (enc, resolve_calls(f.unit, enc)):
                                eq_atoms.append(a)
                            elif k and decoded and _contains(k[2], ('field', 'data', ('this',))) and _contains(k[3], ('field', 'data', ('this',))):
                                # the decoded element of *any* position of the container equal to p is a stored point equal to p
                                # (which position is searched is KIND's obligation, that it is an element END-GUARD's)
                                eq_atoms.append(a)
                            elif not k:
                                unknown_cand = True
            # also accept a return that is control dependent on such an equality being true
            ok = any(_implies_atom(form, a) for a in eq_atoms)
            how = 'the returned expression implies the equality atom' if ok else ''
            if not ok:
                pos = f.block_of(r)
                if pos:
                    for (b, lab) in g.transitive_control_deps(pos[0]):
                        c = g.cond(b)
                        if c and lab is True:
                            cf = _bool_formula(f, c)
                            for a in _atoms(cf):
                                t = f.term(a, inline=True)
                                if t[0] == 'op' and t[1] == '==' and (_contains(t, par)) and _implies_atom(cf, a) and any(s[0] == 'deref' for s in _subterms(t)):
                                    ok = True
                                    how = 'the return is control dependent on the equality'
            found = fmt_term(f.term(e, inline=False))
            if ok:
                obs.append(Ob('TRUE-IMPLIES-EQ', f, r, 'contains() yields true only if the element at lower_bound(encode(p)) equals p',
                              f"`{found}`: {how}", OK, arm='ret'))
            else:
                obs.append(Ob('TRUE-IMPLIES-EQ', f, r, 'contains() yields true only if the element at lower_bound(encode(p)) equals p',
                              f"`{found}` can evaluate to true without the equality `Decode(*it) == p` (it = lower_bound(..., encode(p))) being true" +
                              (' - the compared position comes from a search of unrecognised shape' if unknown_cand else ''),
                              UNDECIDED if unknown_cand else VIOLATED, arm='ret'))
    return obs


# --------------------------------------------------------------- C14, converse direction: false only if absent

def _sc(t):
    while isinstance(t, tuple) and t and t[0] == 'cast':
        t = t[2]
    return t


def _exp(t):
    """exponent term -> (symbolic part or None, integer offset)"""
    t = _sc(t)
    if t[0] == 'lit' and isinstance(t[1], int):
        return (None, t[1])
    if t[0] == 'op' and len(t) == 4 and t[1] in ('+', '-'):
        a, b = _sc(t[2]), _sc(t[3])
        if b[0] == 'lit' and isinstance(b[1], int):
            S, c = _exp(a)
            return (S, c + (b[1] if t[1] == '+' else -b[1]))
        if a[0] == 'lit' and isinstance(a[1], int) and t[1] == '+':
            S, c = _exp(b)
            return (S, c + a[1])
    return (t, 0)


def _pow2(t):
    """value term -> (S, c, b) meaning 2^(S+c) + b, or None.  sdsl::bits::lo_set[k] is 2^k - 1 (sdsl.hpp: "a 64-bit word
    with the i least significant bits set")."""
    t = _sc(t)
    if t[0] == 'index' and _sc(t[1])[0] == 'static' and _sc(t[1])[1].endswith('::lo_set'):
        S, c = _exp(t[2])
        return (S, c, -1)
    if t[0] == 'op' and len(t) == 4 and t[1] == '<<' and _sc(t[2]) in (('lit', 1),):
        S, c = _exp(t[3])
        return (S, c, 0)
    if t[0] == 'op' and len(t) == 4 and t[1] in ('+', '-') and _sc(t[3])[0] == 'lit' and isinstance(_sc(t[3])[1], int):
        p = _pow2(t[2])
        if p:
            return (p[0], p[1], p[2] + (_sc(t[3])[1] if t[1] == '+' else -_sc(t[3])[1]))
    return None


def _bit_width_of(t):
    """x if t is the bit width of x: the BIT_WIDTH macro `x == 0 ? 0 : 64 - __builtin_clzll(x)` or std::bit_width(x)"""
    t = _sc(t)
    if t[0] == 'cond' and len(t) == 4:
        c, a, b = _sc(t[1]), _sc(t[2]), _sc(t[3])
        if c[0] == 'op' and c[1] == '==' and _sc(c[3]) == ('lit', 0) and a == ('lit', 0) and b[0] == 'op' and b[1] == '-' and _sc(b[2]) == ('lit', 64):
            k = _sc(b[3])
            if k[0] == 'call' and k[1] in ('__builtin_clzll', '__builtin_clzl') and len(k[2]) == 1 and _sc(k[2][0]) == _sc(c[2]):
                return _sc(c[2])
    if t[0] == 'call' and t[1] in ('std::bit_width', 'std::__bit_width') and len(t[2]) == 1:
        return _sc(t[2][0])
    return None


_FLIP = {'<': '>', '>': '<', '<=': '>=', '>=': '<='}


def _coord_pred(t):
    """atom over one coordinate x -> ('ge'|'lt', (S, c, b)): the atom is true iff x >= / x < 2^(S+c) + b; or None"""
    t = _sc(t)
    if t[0] == 'un' and t[1] == '!':
        p = _coord_pred(t[2])
        return ({'ge': 'lt', 'lt': 'ge'}[p[0]], p[1]) if p else None
    if not (t[0] == 'op' and len(t) == 4 and t[1] in ('<', '>', '<=', '>=')):
        return None
    l, r, o = _sc(t[2]), _sc(t[3]), t[1]
    if r[0] == 'param' or _bit_width_of(r) is not None:
        l, r, o = r, l, _FLIP[o]
    w = _bit_width_of(l)
    if w is not None and w[0] == 'param':
        S, c = _exp(r)
        # bit_width(x) >= E  <=>  x >= 2^(E-1);   bit_width(x) > E  <=>  x >= 2^E   (E >= 1)
        return {'>=': ('ge', (S, c - 1, 0)), '>': ('ge', (S, c, 0)), '<': ('lt', (S, c - 1, 0)), '<=': ('lt', (S, c, 0))}[o]
    if l[0] == 'param':
        v = _pow2(r)
        if v:
            S, c, b = v
            return {'>=': ('ge', (S, c, b)), '>': ('ge', (S, c, b + 1)), '<': ('lt', (S, c, b)), '<=': ('lt', (S, c, b + 1))}[o]
    return None


def _term_formula(t):
    t = _sc(t)
    if t[0] == 'op' and len(t) == 4 and t[1] in ('&&', '||'):
        return (t[1], _term_formula(t[2]), _term_formula(t[3]))
    if t[0] == 'un' and t[1] == '!':
        return ('!', _term_formula(t[2]))
    return ('atom', t)


def _point_pred_of_formula(form, nparams):
    """('rej'|'acc', T): true iff SOME coordinate >= T / EVERY coordinate < T, every coordinate being tested"""
    neg = False
    while form[0] == '!':
        neg = not neg
        form = form[1]

    def flat(f, op):
        if f[0] == op:
            return flat(f[1], op) + flat(f[2], op)
        return [f]
    for op, kind, want in (('||', 'rej', 'ge'), ('&&', 'acc', 'lt')):
        parts = flat(form, op)
        if len(parts) > 1 or nparams == 1:
            ps = []
            for x in parts:
                n2 = False
                while x[0] == '!':
                    n2 = not n2
                    x = x[1]
                if x[0] != 'atom':
                    ps = None
                    break
                p_ = _coord_pred(x[1])
                if p_ and n2:
                    p_ = ({'ge': 'lt', 'lt': 'ge'}[p_[0]], p_[1])
                ps.append(p_)
            if ps and None not in ps and all(q[0] == want for q in ps) and len({q[1] for q in ps}) == 1 and len(ps) == nparams:
                k = kind
                if neg:
                    k = 'acc' if k == 'rej' else 'rej'
                return (k, ps[0][1])
    return None


def _lambda_of(u, encl, nparams=None):
    c = [g for g in u.functions.values() if g.tname == encl.tname + '::(lambda)::operator()' and g.qname.startswith(encl.qname)]
    return c[0] if len(c) == 1 else None


def _point_pred(u, fn, t, par, depth=0):
    """predicate over the query point `par` -> ('rej'|'acc', T) or None; follows one-return helper functions and
    std::apply over a fold lambda"""
    t = _sc(t)
    if depth > 4:
        return None
    if t[0] == 'un' and t[1] == '!':
        p = _point_pred(u, fn, t[2], par, depth + 1)
        return ('acc' if p[0] == 'rej' else 'rej', p[1]) if p else None
    if t[0] == 'call' and t[1] == 'std::apply' and len(t[2]) == 2 and t[2][0][0] == 'lambda' and _sc(t[2][1]) == par:
        lam = u.functions.get(t[2][0][1]) if len(t[2][0]) > 1 and t[2][0][1] else None      # the closure itself (it may come from an inlined helper)
        if lam is None or not lam.body:
            lam = _lambda_of(u, fn)
        if lam is None:
            # a generic closure that came with an inlined helper: its instantiation is named after that helper
            rec = fn.qname.rsplit('::', 1)[0]
            for hn in getattr(fn, 'inlined_from', None) or []:
                c = [g for g in u.fns(hn + '::(lambda)::operator()') if g.qname.startswith(rec + '::')]
                if len(c) == 1:
                    lam = c[0]
        if lam is None:
            return None
        rets = lam.returns()
        if len(rets) != 1:
            return None
        return _point_pred_of_formula(_term_formula(lam.term(lam.n(rets[0])['ch'][0], inline=True)), len(lam.params))
    if t[0] == 'call' and t[1].startswith('pgm::') and len(t[2]) == 1 and _sc(t[2][0]) == par:
        cs = [g for g in u.fns(t[1]) if g.qname.startswith(fn.qname.rsplit('::', 1)[0] + '::')] or u.fns(t[1])
        if not cs:
            return None
        g = cs[0]
        rets = g.returns()
        if len(rets) != 1 or len(g.params) != 1:
            return None
        return _point_pred(u, g, g.term(g.n(rets[0])['ch'][0], inline=True), ('param', g.params[0]['name']), depth + 1)
    return None


def _ctor_threshold(u, f):
    """T such that every stored coordinate is < T: the constructor's rejection predicate (its inner lambda's `if`)"""
    rec = f.qname.rsplit('::', 1)[0]
    for lam in u.functions.values():
        if lam.tname.startswith(MD + '::MultidimensionalPGMIndex::(lambda)') and lam.name == 'operator()' and lam.qname.startswith(rec + '::') and lam.cfg:
            g = graph(lam)
            for b in g.reach:
                c = g.cond(b)
                if c and g.blocks[b].get('term_c') == 'IfStmt':
                    p = _point_pred_of_formula(_term_formula(lam.term(c, inline=True)), len(lam.params))
                    if p and p[0] == 'rej':
                        return p[1]
    return None


def _thr_ge(a, b):
    """2^(S+c1)+b1 >= 2^(S+c2)+b2 ?  True / False / None (unknown)"""
    if a[0] != b[0]:
        return None
    if a[1] == b[1]:
        return a[2] >= b[2]
    if abs(a[2]) <= 1 and abs(b[2]) <= 1:
        # exponents differ by at least one: the powers differ by at least 2^(S+c) >= 2 for any exponent >= 1
        return a[1] > b[1]
    return None


def _fmt_thr(T):
    S, c, b = T
    e = (fmt_term(S) if S is not None else '') + (f"{c:+d}" if c or S is None else '')
    return f"2^({e})" + (f"{b:+d}" if b else '')


def rule_false_implies_absent(ctx):
    """contains() yields false only where the path implies that p is not stored: the lower-bound position is end(), the
    element there differs from p, or p fails a coordinate-width predicate that the constructor enforces on every stored
    point (rejecting threshold not below the constructor's)."""
    obs = []
    for f in ctx.need(MD + '::contains'):
        u = f.unit
        g = graph(f)
        par = ('param', f.params[0]['name'])
        enc = ('call', MD + '::encode', (par,), None)
        Tc = _ctor_threshold(u, f)
        notes = []

        def absent_when(a):
            """truth value of atom `a` (node id) that implies `p is not stored`, or None if the atom says nothing known"""
            t = _sc(f.term(a, inline=True))
            if t[0] == 'op' and len(t) == 4 and t[1] in ('==', '!='):
                for x, y in ((_sc(t[2]), _sc(t[3])), (_sc(t[3]), _sc(t[2]))):
                    if y[0] == 'call' and y[1].endswith('::end') and not y[2]:
                        k = kinds.kind_of_term(x) or kinds.kind_of_term(resolve_calls(u, x))
                        if k and k[0] == 'FIRST_GE' and k[1] in (enc, resolve_calls(u, enc)):
                            return t[1] == '=='
                    cand = None
                    if x[0] == 'call' and x[1].endswith('::Decode') and len(x[2]) == 1 and _sc(x[2][0])[0] == 'deref' and y == par:
                        cand = _sc(x[2][0])[1]
                    elif x[0] == 'deref' and y == enc:
                        cand = x[1]
                    if cand is not None:
                        k = kinds.kind_of_term(cand) or kinds.kind_of_term(resolve_calls(u, cand))
                        if k and k[0] == 'FIRST_GE' and k[1] in (enc, resolve_calls(u, enc)):
                            return t[1] == '!='
                return None
            # an empty container stores no point at all: data.empty() (or data.size() == 0) implies absence
            if t[0] == 'call' and str(t[1]).endswith('::empty') and len(t) > 3 and _sc(t[3]) == ('field', 'data', ('this',)):
                return True
            if t[0] == 'op' and len(t) == 4 and t[1] == '==':
                for x, y in ((_sc(t[2]), _sc(t[3])), (_sc(t[3]), _sc(t[2]))):
                    if y == ('lit', 0) and x[0] == 'call' and str(x[1]).endswith('::size') and len(x) > 3 and _sc(x[3]) == ('field', 'data', ('this',)):
                        return True
            pp = _point_pred(u, f, t, par)
            if pp is not None:
                if Tc is None:
                    notes.append('the constructor\'s coordinate check was not recognised')
                    return None
                ge = _thr_ge(pp[1], Tc)
                if ge is None:
                    notes.append(f"threshold {_fmt_thr(pp[1])} is not comparable with the constructor's {_fmt_thr(Tc)}")
                    return None
                if not ge:
                    notes.append(f"`{fmt_term(f.term(a, inline=False))[:60]}` rejects coordinates >= {_fmt_thr(pp[1])}, but the constructor stores "
                                 f"coordinates up to {_fmt_thr(Tc)} - 1")
                    return 'never'
                return pp[0] == 'rej'
            return None

        for r in f.returns():
            e = f.n(r)['ch'][0] if f.n(r)['ch'] else 0
            if not e:
                continue
            form = _bool_formula(f, e)
            if form[0] == 'const' and form[1] is True:
                continue
            # the path condition: conjunction of the `if` conditions the return is control dependent on
            pc = []
            pos = f.block_of(r)
            for (b, lab) in g.transitive_control_deps(pos[0]) if pos else []:
                c = g.cond(b)
                if c and g.blocks[b].get('term_c') == 'IfStmt':
                    cf = _bool_formula(f, c)
                    pc.append(cf if lab is True else ('!', cf))
            # the result is false on this path iff PC && !E
            whole = ('!', form)
            for x in pc:
                whole = ('&&', x, whole)
            ats = sorted(_atoms(whole))
            aw = {a: absent_when(a) for a in ats}
            unknown = [a for a in ats if aw[a] is None]
            bad = None
            for vals in itertools.product([False, True], repeat=len(ats)):
                env = dict(zip(ats, vals))
                if not _eval(whole, env):
                    continue
                if any(aw[a] is not None and aw[a] != 'never' and env[a] == aw[a] for a in ats):
                    continue
                bad = env
                break
            found = fmt_term(f.term(e, inline=False))[:80]
            if pc:
                found += ' under ' + ' && '.join(('' if x[0] != '!' else '!') + '(' + fmt_term(f.term((x[1] if x[0] == '!' else x)[1], inline=False))[:50] + ')' if (x[1] if x[0] == '!' else x)[0] == 'atom' else '(...)' for x in pc)
            req = 'contains() yields false only where the lower-bound position is end(), its element differs from p, or p fails a width test no stored point can fail'
            if bad is None:
                obs.append(Ob('FALSE-IMPLIES-ABSENT', f, r, req, f"`{found}`: every way of being false implies absence", OK, arm='ret'))
            else:
                culprit = [a for a in ats if aw[a] in (None, 'never') and a in bad]
                why = '; '.join(dict.fromkeys(notes)) or ('depends on `' + '`, `'.join(fmt_term(f.term(a, inline=False))[:50] for a in culprit[:2]) + '`')
                st = VIOLATED if (not unknown or any(aw[a] == 'never' for a in ats)) else UNDECIDED
                obs.append(Ob('FALSE-IMPLIES-ABSENT', f, r, req, f"`{found}` can be false for a stored point: {why}", st, arm='ret'))
    return obs


def reachable_in(fn, node):
    pos = fn.block_of(node)
    return bool(pos) and pos[0] in graph(fn).reach


def rule_data_exact(ctx):
    """the constructor stores exactly one code per input point: the vector of codes starts empty when the points are appended
    to it (a size argument in its initialiser would leave that many value-initialised codes - the origin - in the index)"""
    obs = []
    for u in ctx.units:
        for f in u.fns(MD + '::MultidimensionalPGMIndex'):
            if len(f.params) != 2 or f.d.get('special') or f.d.get('implicit'):
                continue
            kids = [g for g in u.functions.values() if g.d.get('parent_fn') == f.id or (g.d.get('parent_fn') in [k.id for k in u.functions.values() if k.d.get('parent_fn') == f.id])]
            appends = 0
            for g in [f] + kids:
                for c in g.calls(pred=lambda nd: nd.get('cn') in ('emplace_back', 'push_back', 'insert')):
                    o = g.n(c).get('obj')
                    if o and g.term(o, inline=False) == ('field', 'data', ('this',)):
                        appends += 1
                # an algorithm writing through std::back_inserter(data) / std::inserter(data, data.end()) appends as well
                for c in g.calls(pred=lambda nd: nd.get('ct') in ('std::back_inserter', 'std::inserter')):
                    a = g.n(c).get('args', [])
                    if a and _sc(g.term(a[0], inline=False)) == ('field', 'data', ('this',)):
                        appends += 1
            ini = [i for i in f.d.get('inits', []) if i.get('field') == 'data']
            sized = False
            desc = 'data is default-initialised'
            if ini:
                t = f.term(ini[0]['expr'], inline=True)
                t = _sc(t)
                if t[0] == 'construct' and len(t[2]) >= 1:
                    a0 = _sc(t[2][0])
                    # a count (integral) argument: vector(n) / vector(n, value); an iterator pair would copy the raw points
                    sized = True
                    desc = f"data is initialised with `{fmt_term(t)[:70]}`"
                else:
                    desc = f"data is initialised with `{fmt_term(t)[:40]}`"
            stores = 0
            for g in [f] + kids:
                for i in g.all_ids():
                    nd = g.n(i)
                    if nd['c'] in ('BinaryOperator', 'CXXOperatorCallExpr') and (nd.get('op') == '=') and reachable_in(g, i):
                        lhs = nd['ch'][0] if nd['c'] == 'BinaryOperator' else nd['args'][0]
                        lt = _sc(g.term(lhs, inline=False))
                        if lt[0] in ('index', 'deref') and any(x == ('field', 'data', ('this',)) for x in _subterms(lt)):
                            stores += 1
            if appends == 0 and sized and stores:
                obs.append(Ob('DATA-EXACT', f, ini[0]['expr'], 'the constructor stores exactly one code per point', desc + f"; filled by {stores} indexed store site(s), no append", OK, arm='ctor'))
            elif appends == 0:
                obs.append(Ob('DATA-EXACT', f, 0, 'the constructor appends one code per point to an initially empty vector', 'no append to data found', UNDECIDED, arm='ctor'))
            else:
                obs.append(Ob('DATA-EXACT', f, ini[0]['expr'] if ini else 0, 'the constructor appends one code per point to an initially empty vector',
                              desc + f"; {appends} append site(s)" + ('; the elements created by the initialiser stay in the index next to the appended codes' if sized else ''),
                              VIOLATED if sized else OK, arm='ctor'))
    return obs


def rule_contains_kind(ctx):
    """the position compared in contains() is FIRST_GE(encode(p)) inside the range pgm.search(encode(p)) returned"""
    obs = []
    for f in ctx.need(MD + '::contains'):
        enc = ('call', MD + '::encode', (('param', f.params[0]['name']),), None)
        sites = f.calls(pred=lambda nd: nd.get('ct') in kinds.LOWER + kinds.UPPER)
        if not sites:
            # the search may have been moved into a member helper with one return: resolve it
            helper_sites = []
            for c in f.calls():
                t0 = f.term(c, inline=True)
                tr = resolve_calls(f.unit, t0)
                if f.n(c).get('ct') not in kinds.LOWER + kinds.UPPER and kinds.kind_of_term(tr):
                    helper_sites.append((c, tr))
            if helper_sites:
                for (c, tr) in helper_sites:
                    k = kinds.kind_of_term(tr)
                    encs = (enc, resolve_calls(f.unit, enc))
                    ok = k[0] == 'FIRST_GE' and k[1] in encs
                    rng_ok = any(_contains(k[2], ('field', 'lo', ('call', 'pgm::PGMIndex::search', (e_,), ('field', 'pgm', ('this',))))) and
                                 _contains(k[3], ('field', 'hi', ('call', 'pgm::PGMIndex::search', (e_,), ('field', 'pgm', ('this',))))) for e_ in encs)
                    obs.append(Ob('KIND', f, c, 'FIRST_GE(encode(p)) within [search(encode(p)).lo, .hi)', f"{k[0]}({fmt_term(k[1])}) through a helper", OK if ok and rng_ok else VIOLATED, arm='contains'))
                continue
            calls_helpers = any((f.n(c).get('ct') or '').startswith(MD + '::') and f.n(c).get('cn') not in ('encode',) for c in f.calls())
            obs.append(Ob('KIND', f, 0, 'a lower_bound search for encode(p)', 'no binary search call found' + (' in contains() itself' if calls_helpers else ''), UNDECIDED if calls_helpers else VIOLATED, arm='contains'))
            continue
        DATA = ('field', 'data', ('this',))
        capped = ('call', 'std::clamp', (enc, ('call', 'std::vector::front', (), DATA), ('call', 'std::vector::back', (), DATA)), None)
        for s in sites:
            k = kinds.kind_of_term(f.term(s, inline=True))
            ok = bool(k) and k[0] == 'FIRST_GE' and k[1] == enc
            rng_ok = False
            if k and k[0] == 'FIRST_GE' and k[1] == capped:
                # the code routed to the nearest stored one: the same position for every code within [front, back]; outside of
                # it no stored code equals encode(p), and the comparison with p (TRUE-IMPLIES-EQ, FALSE-IMPLIES-ABSENT) decides
                srch = ('call', 'pgm::PGMIndex::search', (capped,), ('field', 'pgm', ('this',)))
                rng_ok = _contains(k[2], ('field', 'lo', srch)) and _contains(k[3], ('field', 'hi', srch))
                obs.append(Ob('KIND', f, s, 'FIRST_GE(encode(p)) within [search(encode(p)).lo, .hi)',
                              f"FIRST_GE(encode(p) capped to [data.front(), data.back()]) over [{fmt_term(k[2])}, {fmt_term(k[3])})",
                              OK if rng_ok else VIOLATED, arm='contains'))
                continue
            if k:
                srch = ('call', 'pgm::PGMIndex::search', (enc,), ('field', 'pgm', ('this',)))
                rng_ok = _contains(k[2], ('field', 'lo', srch)) and _contains(k[3], ('field', 'hi', srch))
            st = OK if ok and rng_ok else VIOLATED
            obs.append(Ob('KIND', f, s, 'FIRST_GE(encode(p)) within [search(encode(p)).lo, .hi)',
                          f"{k[0] if k else 'unknown'}({fmt_term(k[1]) if k else '?'}) over [{fmt_term(k[2]) if k else '?'}, {fmt_term(k[3]) if k else '?'})",
                          st, arm='contains'))
    return obs


def rule_contains_deref_guard(ctx):
    """contains(): the lower-bound position may be data.end() (a code larger than every stored one); its element is read only
    where the position was found different from end() - in the right operand of `pos != end() && ...` or under such a test.
    An emptiness test of the container is not that guard."""
    import endguard
    from cfg import graph as _g
    obs = []
    for f in ctx.need(MD + '::contains'):
        g = _g(f)
        n = 0
        for i in f.all_ids():
            nd = f.n(i)
            operand = None
            if nd['c'] == 'UnaryOperator' and nd.get('op') == '*':
                operand = nd['ch'][0]
            elif nd['c'] == 'CXXOperatorCallExpr' and nd.get('op') in ('*', '->') and len(nd.get('args', [])) == 1:
                operand = nd['args'][0]
            if operand is None or not reachable_in(f, i):
                continue
            k = kinds.kind_of_term(f.term(operand, inline=True))
            if not k or k[0] not in ('FIRST_GE', 'FIRST_GT'):
                continue
            n += 1
            xt, xi = f.term(operand, inline=False), f.term(operand, inline=True)
            facts = []
            # operands evaluated before the dereference in its own condition
            x = i
            p_ = f.parent(x)
            while p_:
                pn = f.n(p_)
                if pn['c'] == 'BinaryOperator' and pn.get('op') in ('&&', '||') and len(pn['ch']) == 2 and x == pn['ch'][1]:
                    facts += endguard.implications(f, pn['ch'][0], pn['op'] == '&&')
                if pn['c'] in ('CompoundStmt', 'IfStmt', 'ReturnStmt', 'InlinedReturn', 'DeclStmt'):
                    break
                x = p_
                p_ = f.parent(x)
            pos = f.block_of(i)
            if pos:
                for (b, lab) in g.transitive_control_deps(pos[0]):
                    c = g.cond(b)
                    if c and isinstance(lab, bool) and not (i in set(f.walk(c))):
                        facts += endguard.implications(f, c, lab)
            guarded = any((not is_end) and (y == xt or f_inline(f, y) == xi) for (y, is_end) in facts)
            found = 'after a test against end()' if guarded else 'without a preceding test against end(): for a code larger than every stored one the position is data.end()'
            verdict = OK if guarded else VIOLATED
            if not guarded and k[0] == 'FIRST_GE':
                # the searched code is capped at the last stored one (std::clamp(c, _, data.back()) / std::min(c, data.back())):
                # the first element not less than it exists whenever the container is not empty
                cont = _capped_at_last(k[1])
                if cont is not None and _window_over(k[2], cont) and _window_over(k[3], cont):
                    ne = _nonempty_at(f, g, pos, cont, i)
                    found = 'the searched code is capped at the last stored one' + (' and the container was found not empty' if ne else ', emptiness of the container not tested on this path')
                    verdict = OK if ne else UNDECIDED
            obs.append(Ob('END-GUARD', f, i, 'the element at the lower-bound position is read only where that position was found different from data.end()',
                          f"`*{fmt_term(xt)[:50]}` " + found, verdict, arm='contains-deref'))
        if n == 0:
            obs.append(Ob('END-GUARD', f, 0, 'the element at the lower-bound position is read only where that position was found different from data.end()',
                          'no dereference of a search result in contains()', UNDECIDED, arm='contains-deref'))
    return obs


def _strip_cast(t):
    while isinstance(t, tuple) and t and t[0] == 'cast':
        t = t[2]
    return t


def _capped_at_last(key):
    """container C if the key term is std::clamp(_, _, C.back()) or std::min(_, C.back()) (either order), else None"""
    key = _strip_cast(key)
    if not (isinstance(key, tuple) and key and key[0] == 'call'):
        return None
    name, args = key[1], [_strip_cast(a) for a in key[2]]

    def last_of(a):
        if isinstance(a, tuple) and a and a[0] == 'call' and a[1].endswith('::back') and len(a) > 3 and not a[2]:
            return a[3]
        return None
    if name == 'std::clamp' and len(args) == 3:
        return last_of(args[2])
    if name == 'std::min' and len(args) == 2:
        return last_of(args[0]) or last_of(args[1])
    return None


def _window_over(t, cont):
    """the window bound is an iterator of the container: cont.begin() [+ offset]"""
    t = _strip_cast(t)
    if isinstance(t, tuple) and t and t[0] == 'op' and len(t) == 4 and t[1] == '+':
        t = _strip_cast(t[2])
    return isinstance(t, tuple) and t and t[0] == 'call' and t[1].endswith('::begin') and len(t) > 3 and t[3] == cont


def _nonempty_at(f, g, pos, cont, at):
    """the CFG position is control dependent on the container's emptiness test being false"""
    if not pos:
        return False
    for (b, lab) in g.transitive_control_deps(pos[0]):
        c = g.cond(b)
        if not c or not isinstance(lab, bool) or at in set(f.walk(c)):
            continue
        t = _strip_cast(f.term(c, inline=True))
        neg = False
        while isinstance(t, tuple) and t and t[0] == 'op' and len(t) == 3 and t[1] == '!':
            neg = not neg
            t = _strip_cast(t[2])
        if isinstance(t, tuple) and t and t[0] == 'call' and t[1].endswith('::empty') and len(t) > 3 and t[3] == cont:
            if lab == neg:
                return True
    return False


def f_inline(f, y):
    """the term y with single-definition locals looked through"""
    if isinstance(y, tuple):
        if y and y[0] == 'local' and len(y) == 3 and f.single_def(y[2]):
            return f.term(f.single_def(y[2]), inline=True)
        return tuple(f_inline(f, z) for z in y)
    return y


# ------------------------------------------------------------------------------------------ C13

def _field_writes(f, FT):
    """nodes that may modify the member FT of *this: assignments, ++/--, compound assignments, passing by non-const reference"""
    out = []
    for i in f.all_ids():
        nd = f.n(i)
        c = nd['c']
        tgt = None
        if c in ('BinaryOperator', 'CompoundAssignOperator') and nd.get('op', '').endswith('=') and nd['op'] not in ('==', '!=', '<=', '>='):
            tgt = nd['ch'][0]
        elif c == 'UnaryOperator' and nd.get('op') in ('++', '--'):
            tgt = nd['ch'][0]
        elif c == 'CXXOperatorCallExpr' and nd.get('op') in ('=', '+=', '-=', '++', '--') and nd.get('args'):
            tgt = nd['args'][0]
        if tgt is not None and f.term(tgt, inline=False) == FT:
            out.append(i)
        if c in ('CallExpr', 'CXXMemberCallExpr') and nd.get('pmodes'):
            for k, a in enumerate(nd.get('args', [])):
                if k < len(nd['pmodes']) and nd['pmodes'][k] == 'ref' and f.term(a, inline=False) == FT:
                    out.append(i)
    return out


def _cached_elements(f, FT):
    """{local id: declaration node} of the never re-assigned locals initialised with the element at the cursor, `const T z = *it;`"""
    out = {}
    for vid, d in f.defs.items():
        init = f.single_def(vid)
        if init and d.get('decl'):
            t = f.term(init, inline=False)
            while isinstance(t, tuple) and t and t[0] == 'cast':
                t = t[2]
            if t == ('deref', FT):
                out[vid] = d['decl']
    return out


def _uncache(f, t, at, cached, writes):
    """the term with every cached element local replaced by `*it`, where the cursor is not modified between the local's
    declaration and the CFG element `at`"""
    import reach
    if not isinstance(t, tuple):
        return t
    if t and t[0] == 'local' and len(t) == 3 and t[2] in cached:
        decl = cached[t[2]]
        pa, pb = f.block_of(decl), f.block_of(at)
        if pa and pb:
            succ = reach._elem_succ(f)
            A = reach._reach_elems(succ, pa, pa)
            if pb in A:
                for w in writes:
                    pw = f.block_of(w)
                    if pw and pw != pb and pw in A and pb in reach._reach_elems(succ, pw, pa):
                        return t
                return ('deref', ('field', 'it', ('this',)))
        return t
    return tuple(_uncache(f, x, at, cached, writes) for x in t)


def rule_emit_guard(ctx):
    """a point is emitted (field p assigned from Decode(*it)) only under box_zcontains(zmin, zmax, *it) == true"""
    obs = []
    P = ('field', 'p', ('this',))
    IT = ('field', 'it', ('this',))
    n_sites = 0
    for tn in (RI + '::advance', RI + '::RangeIterator'):
        for f in ctx.need(tn):
            if tn.endswith('::RangeIterator') and len(f.params) != 3:
                continue
            g = graph(f)
            cached = _cached_elements(f, IT)
            it_writes = _field_writes(f, IT) if cached else []
            for i in f.all_ids():
                nd = f.n(i)
                is_assign = (nd['c'] == 'CXXOperatorCallExpr' and nd.get('op') == '=') or (nd['c'] == 'BinaryOperator' and nd.get('op') == '=')
                if not is_assign:
                    continue
                t = f.term(i, inline=False)
                if t[2] != P:
                    continue
                if cached:
                    t = _uncache(f, t, i, cached, it_writes)
                n_sites += 1
                pos = f.block_of(i)
                guard_ok = False
                guard_txt = 'no enclosing box test'
                if pos:
                    want = (('field', 'zmin', ('this',)), ('field', 'zmax', ('this',)), ('deref', IT))
                    for (b, lab) in g.transitive_control_deps(pos[0]):
                        c = g.cond(b)
                        if not c or not isinstance(lab, bool):
                            continue
                        # the condition (possibly a conjunction) must imply box_zcontains(zmin, zmax, *it); on the false edge it is
                        # the negated condition that must (`if (!box_zcontains(..)) advance(); else p = ...`)
                        form_ = _bool_formula(f, c)
                        if lab is False:
                            form_ = ('!', form_)
                        for a in _atoms(form_):
                            at = f.term(a, inline=False)
                            if cached:
                                # the test reads the cached element and the cursor does not move between the test and the emission
                                at = _uncache(f, at, a, cached, it_writes)
                                pa_, pi_ = f.block_of(a), f.block_of(i)
                                if pa_ and pi_ and at != f.term(a, inline=False):
                                    import reach
                                    succ_ = reach._elem_succ(f)
                                    A_ = reach._reach_elems(succ_, pa_, pa_)
                                    if any(f.block_of(w) and f.block_of(w) in A_ and pi_ in reach._reach_elems(succ_, f.block_of(w), pa_) and f.block_of(w) != pi_ for w in it_writes):
                                        at = f.term(a, inline=False)
                            if at[0] == 'call' and at[1] == MD + '::box_zcontains':
                                guard_txt = fmt_term(at) + ' == true'
                                if tuple(at[2]) == want and _implies_atom(form_, a):
                                    guard_ok = True
                src_ok = t[3] == ('call', 'mortonnd::MortonNDBmi::Decode', (('deref', IT),), None)
                st = OK if (guard_ok and src_ok) else VIOLATED
                obs.append(Ob('EMIT-GUARD', f, i, 'p = Decode(*it) only under box_zcontains(zmin, zmax, *it) == true',
                              f"`{fmt_term(t)}` guarded by {guard_txt}", st, arm=f.name))
    if n_sites == 0:
        raise AnalysisBroken('EMIT-GUARD: no assignment to RangeIterator::p found')
    # operator* hands out exactly p
    for f in ctx.need(RI + '::operator*'):
        for r in f.returns():
            t = f.term(f.n(r)['ch'][0], inline=True)
            obs.append(Ob('EMIT-GUARD', f, r, 'operator* returns the guarded field p', fmt_term(t), OK if t == P else VIOLATED, arm='deref'))
    return obs


def _range_status(fn, k, key, owner):
    """is the searched range [lo, hi) guaranteed to contain the FIRST_GE/FIRST_GT position of key?
    True: the PGM range of pgm.search(key) (C02), the whole data, or [current position, end); a galloping window
    [x + step/2, min(x + step, end)) is valid for lower_bound only if the gallop loop continues on `*(x + step) < key`
    (with `<=` elements equal to the key are skipped over) -> False; anything else -> None (undecided)"""
    lo, hi = k[2], k[3]
    data = ('field', 'data', owner)
    srch = ('call', 'pgm::PGMIndex::search', (key,), ('field', 'pgm', owner))
    if _contains(lo, ('field', 'lo', srch)) and _contains(hi, ('field', 'hi', srch)):
        return True, 'range = pgm.search(bigmin)'
    is_begin = lambda t: t[0] == 'call' and t[1].endswith('::begin') and t[3] == data
    is_end = lambda t: t[0] == 'call' and t[1].endswith('::end') and t[3] == data
    if is_end(hi) and (is_begin(lo) or lo == ('field', 'it', ('this',))):
        return True, 'range = up to data.end()'
    # galloping window
    steps = [s_ for s_ in _subterms(lo) if s_[0] == 'op' and s_[1] == '/' and s_[3] == ('lit', 2)]
    if steps:
        step = steps[0][2]
        while step[0] == 'cast':
            step = step[2]
        from cfg import graph as _g
        g = _g(fn)
        for b in g.reach:
            c = g.cond(b)
            if not c:
                continue
            t = fn.term(c, inline=True)
            for s_ in _subterms(t):
                if s_[0] == 'op' and len(s_) == 4 and s_[1] in ('<', '<=', '==') and s_[2][0] == 'deref' and _contains(s_[2], step) and s_[3] == key:
                    need = '<' if k[0] == 'FIRST_GE' else '<='
                    if s_[1] == need or (k[0] == 'FIRST_GT' and s_[1] == '=='):
                        return True, f"galloping window grown while *(x + step) {s_[1]} key"
                    return False, (f"galloping window grown while *(x + step) {s_[1]} key: elements equal to the key can lie before the window start, "
                                   f"so {k[0]} inside the window misses them")
    return None, 'searched range is not recognised'


def rule_zskip_kind(ctx):
    """after a Z-order skip the cursor is FIRST_GE(bigmin) when it is next examined (bigmin may itself be stored)"""
    obs = []
    IT = ('field', 'it', ('this',))
    zfns = [(f, True) for f in ctx.need(RI + '::advance')] + [(f, False) for f in ctx.need(RI + '::RangeIterator') if len(f.params) == 3]
    for (f, required) in zfns:
        bm = f.calls_to(MD + '::bigmin') or [i for i in f.all_ids() if f.n(i)['c'] == 'InlinedCall' and f.n(i).get('ct_inlined') == MD + '::bigmin']
        if not bm and required:
            raise AnalysisBroken(f"{f.qname}: call to bigmin not found")
        if not bm:
            continue        # the constructor skips only when the scan loop is shared with advance() (a helper inlined into both)
        found_any = False
        for i in f.all_ids():
            nd = f.n(i)
            is_assign = (nd['c'] == 'CXXOperatorCallExpr' and nd.get('op') == '=') or (nd['c'] == 'BinaryOperator' and nd.get('op') == '=')
            if not is_assign:
                continue
            t = f.term(i, inline=True)
            if f.term(i, inline=False)[2] != IT:
                continue
            if not any(s[0] == 'call' and s[1] == MD + '::bigmin' for s in _subterms(t[3])):
                continue
            found_any = True
            bterm = next(s for s in _subterms(t[3]) if s[0] == 'call' and s[1] == MD + '::bigmin')
            res = kinds.kinds_at_next_read(f, i, IT)
            if not res:
                obs.append(Ob('KIND', f, i, 'FIRST_GE(bigmin) at the next examination of the cursor', 'cursor never read again', UNDECIDED, arm='zskip'))
            for (k, rd) in sorted(res, key=lambda x: x[1]):
                ok = bool(k) and k[0] == 'FIRST_GE' and k[1] == bterm
                rng, rng_txt = _range_status(f, k, bterm, ('field', 'super', ('this',))) if k else (None, '')
                st = OK if (ok and rng is True) else (VIOLATED if (not ok or rng is False) else UNDECIDED)
                obs.append(Ob('KIND', f, i, 'cursor is FIRST_GE(bigmin), searched in a range that contains that position, when next examined',
                              f"{k[0] if k else 'unknown'}({'bigmin' if k and k[1] == bterm else (fmt_term(k[1]) if k else '?')}) at the next read (line {f.n(rd)['l']}); {rng_txt}",
                              st, arm='zskip'))
        if not found_any and required:
            raise AnalysisBroken(f"{f.qname}: no assignment of the cursor from a search for bigmin found")
    # constructor: initial position is FIRST_GE(zmin)
    for f in ctx.need(RI + '::RangeIterator'):
        if len(f.params) != 3:
            continue
        for i in f.all_ids():
            nd = f.n(i)
            is_assign = (nd['c'] == 'CXXOperatorCallExpr' and nd.get('op') == '=') or (nd['c'] == 'BinaryOperator' and nd.get('op') == '=')
            if not is_assign or f.term(i, inline=False)[2] != IT:
                continue
            rhs_ = f.term(i, inline=True)[3]
            if any(s_[0] == 'call' and s_[1] == MD + '::bigmin' for s_ in _subterms(rhs_)):
                continue        # a Z-order skip of a scan loop shared with advance(): decided above
            r0 = rhs_
            while r0[0] == 'cast':
                r0 = r0[2]
            if r0[0] == 'call' and r0[1].endswith('::end') and any(s_[0] == 'field' and s_[1] == 'data' and any(z_ in (('field', 'super', ('this',)), ('param', 'super')) for z_ in _subterms(s_)) for s_ in _subterms(r0)):
                continue        # `it = data.end()`: the exhausted state (through the member or the constructor parameter `super`)
            k = kinds.kind_of_term(rhs_)
            zmin = ('field', 'zmin', ('this',))
            ok = bool(k) and k[0] == 'FIRST_GE' and k[1] == zmin
            obs.append(Ob('KIND', f, i, 'initial cursor is FIRST_GE(zmin)', f"{k[0] if k else 'unknown'}({fmt_term(k[1]) if k else '?'})",
                          OK if ok else VIOLATED, arm='ctor'))
    return obs


def rule_upper_in_window(ctx):
    """The range pgm.search(z) returns is only guaranteed to contain the *first* occurrence of z (the lower bound).  A run of
    codes equal to z - a point stored several times - may extend past hi, so std::upper_bound restricted to that range can
    return a position inside the run: used as the end of the scan it drops the trailing copies of a point equal to the box's
    max corner.  Any FIRST_GT search whose range derives from pgm.search(...) in the multidimensional index is a violation."""
    obs = []
    n = 0
    for u in ctx.units:
        for f in u.functions.values():
            if not (f.tname.startswith(MD + '::') or f.tname == MD) or '(lambda)' in f.tname or not f.body:
                continue
            for c in f.calls(pred=lambda nd: nd.get('ct') in kinds.UPPER):
                if not reachable_in(f, c):
                    continue
                n += 1
                a = f.n(c)['args']
                ts = [f.term(x, inline=True) for x in a[:2]]
                win = [t for t in ts if any(s_[0] == 'field' and s_[1] in ('lo', 'hi') and isinstance(s_[2], tuple) and
                                            (s_[2][0] == 'call' and str(s_[2][1]).endswith('::search') or s_[2][0] == 'local') for s_ in _subterms(t))]
                obs.append(Ob('KIND', f, c, 'no upper_bound is confined to the range returned by pgm.search() (it only guarantees the first occurrence of the code)',
                              ('std::upper_bound over `' + fmt_term(win[0])[:60] + '`: a run of equal codes that extends past the window end makes the result too small') if win
                              else 'upper_bound over a range that does not come from the index', VIOLATED if win else OK, arm='upper-in-window'))
    if n == 0:
        obs.append(Ob('KIND', None, 0, 'no upper_bound is confined to the range returned by pgm.search()', 'no std::upper_bound in the multidimensional index', OK, arm='upper-in-window',
                      detail={'record': MD}))
    return obs


def rules_c13(ctx):
    return (rule_emit_guard(ctx) + rule_zskip_kind(ctx) + rule_upper_in_window(ctx) + rule_data_exact(ctx) +
            rule_end_guard(ctx, [RI + '::advance', RI + '::RangeIterator', RI + '::operator++']))


def rules_c14(ctx):
    return rule_true_implies_eq(ctx) + rule_false_implies_absent(ctx) + rule_contains_kind(ctx) + rule_data_exact(ctx) + rule_contains_deref_guard(ctx) + rule_end_guard(ctx, [MD + '::contains'])
