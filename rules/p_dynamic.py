"""DynamicPGMIndex: C05 (point queries), C06 (traversal/range/size), C15 (LSM invariants: index in sync)."""
import form
import kinds
from cfg import graph
from common import Ob, OK, VIOLATED, UNDECIDED, AnalysisBroken
from ir import fmt_term

THIS = ('this',)
D = 'pgm::DynamicPGMIndex'
IT = D + '::Iterator'


def subterms(t):
    if isinstance(t, tuple):
        if t and isinstance(t[0], str):
            yield t
        for x in t:
            if isinstance(x, tuple):
                yield from subterms(x)


def contains(t, sub):
    return any(s == sub for s in subterms(t))


def strip_cast(t):
    while isinstance(t, tuple) and t and t[0] in ('cast', 'conv'):
        t = t[2]
    return t


def reachable(fn, node):
    pos = fn.block_of(node)
    return bool(pos) and pos[0] in graph(fn).reach


def conds_of(fn, node, inline=True):
    """[(condition term, label, cond node)] of every branch the node is transitively control dependent on"""
    g = graph(fn)
    pos = fn.block_of(node)
    out = []
    if not pos:
        return out
    for (b, lab) in g.transitive_control_deps(pos[0]):
        c = g.cond(b)
        if c:
            out.append((fn.term(c, inline=inline), lab, c))
    return out


def level_index_of(t):
    """X if the term is (or is derived from) this.level(X)"""
    for s in subterms(t):
        if s[0] == 'call' and s[1] == D + '::level' and len(s[2]) == 1:
            return strip_cast(s[2][0])
    return None


# ------------------------------------------------------------------------------------------ TOMB-GUARD
def _eq_cases(t):
    try:
        cs = form.cases(t, True)
    except form.Unrecognised:
        return None
    return {frozenset(a.key() for a in g) for g in cs}


def rule_tomb_guard(ctx, fn_names=('pairwise_merge', 'range')):
    """merge<SkipDeleted = true> (which drops a tombstone together with its victim) is only reached under
    `i == used_levels - 1` for the level i being merged"""
    obs = []
    n_calls = 0
    for name in fn_names:
        for f in ctx.need(D + '::' + name, ctx.units):
            u = f.unit
            for c in f.calls_to(D + '::merge'):
                if not reachable(f, c):
                    continue
                callee = u.functions.get(f.n(c)['cd'])
                if callee is None:
                    continue
                n_calls += 1
                skip = callee.targs.get('SkipDeleted') in ('1', 'true')
                args = f.n(c)['args']
                lvl = level_index_of(f.through_refs(f.term(args[2], inline=True)))
                if not skip:
                    obs.append(Ob('TOMB-GUARD', f, c, 'tombstones are kept unless the merge goes into the last used level',
                                  f"merge<SkipDeleted=false> of level({fmt_term(lvl) if lvl else '?'})", OK, arm=name + ':keep'))
                    continue
                if lvl is None:
                    obs.append(Ob('TOMB-GUARD', f, c, 'merge<SkipDeleted=true> only for the last used level',
                                  'second range of the merge is not a level(i) range', VIOLATED, arm=name + ':drop'))
                    continue
                UL = ('field', 'used_levels', THIS)
                spec = _eq_cases(('op', '==', lvl, ('op', '-', UL, ('lit', 1))))
                ok = False
                seen = []
                for (t, lab, cn) in conds_of(f, c):
                    if lab is not True:
                        continue
                    t = strip_cast(t)
                    seen.append(fmt_term(t)[:60])
                    got = _eq_cases(_as_int_terms(t))
                    if got is not None and got == spec:
                        ok = True
                obs.append(Ob('TOMB-GUARD', f, c, f"merge<SkipDeleted=true> only under `{fmt_term(lvl)} == used_levels - 1` (the level being merged is the last used one)",
                              'guarded by ' + (' & '.join(seen) if seen else 'nothing'), OK if ok else VIOLATED, arm=name + ':drop'))
    if n_calls == 0:
        raise AnalysisBroken('TOMB-GUARD: no call of merge found')
    return obs


def _as_int_terms(t):
    """drop integral casts inside a comparison so that FORM sees plain integers"""
    if isinstance(t, tuple):
        if t and t[0] == 'cast':
            return _as_int_terms(t[2])
        return tuple(_as_int_terms(x) for x in t)
    return t


# ------------------------------------------------------------------------------------------ MERGE-PRECEDENCE
def rule_merge_precedence(ctx):
    obs = []
    fs = ctx.need(D + '::merge', ctx.units)
    for f in fs:
        g = graph(f)
        p = [x['name'] for x in f.params]
        if len(p) != 5:
            continue
        F1, L1, F2, L2, R = [('param', n) for n in p]
        skipdel = f.targs.get('SkipDeleted') in ('1', 'true')
        lt21 = lambda t: _is_lt(t, F2, F1)
        lt12 = lambda t: _is_lt(t, F1, F2)
        writes = []
        for i in f.all_ids():
            nd = f.n(i)
            if nd['c'] == 'CXXOperatorCallExpr' and nd.get('op') == '=' and reachable(f, i):
                lhs = f.term(nd['args'][0], inline=False)
                if lhs == ('deref', R):
                    rhs = strip_cast(f.term(nd['args'][1], inline=True))
                    if rhs[0] == 'call' and rhs[1] == 'std::move' and len(rhs[2]) == 1:
                        rhs = rhs[2][0]
                    writes.append((i, rhs))
        tie_ok = None
        for (i, rhs) in writes:
            cs = conds_of(f, i)
            c21 = [lab for (t, lab, cn) in cs if lt21(strip_cast(t))]
            c12 = [lab for (t, lab, cn) in cs if lt12(strip_cast(t))]
            if c21 == [True]:
                ok = rhs == ('deref', F2)
                obs.append(Ob('MERGE-PRECEDENCE', f, i, 'smaller element of the older run is emitted when *first2 < *first1', f"writes {fmt_term(rhs)}", OK if ok else VIOLATED, arm='older-smaller'))
            elif c21 == [False] and c12 == [True]:
                ok = rhs == ('deref', F1)
                obs.append(Ob('MERGE-PRECEDENCE', f, i, 'smaller element of the newer run is emitted when *first1 < *first2', f"writes {fmt_term(rhs)}", OK if ok else VIOLATED, arm='newer-smaller'))
            elif c21 == [False] and c12 == [False]:
                ok = rhs == ('deref', F1)
                tie_ok = ok
                # both cursors advance after the write
                pos = f.block_of(i)
                adv = _advances(f, g, pos[0], {F1, F2})
                obs.append(Ob('MERGE-PRECEDENCE', f, i, 'on equal keys the element of the first (newer) range wins and both cursors advance',
                              f"writes {fmt_term(rhs)}; advances {sorted(x[1] for x in adv)}", OK if (ok and adv == {F1, F2}) else VIOLATED, arm='tie'))
        if tie_ok is None and writes:
            obs.append(Ob('MERGE-PRECEDENCE', f, 0, 'a tie branch that emits the newer element', 'no write under (!(b<a) && !(a<b))', VIOLATED, arm='tie'))
        # skip-both branch: only with SkipDeleted and only when the newer element is a tombstone
        for b in g.reach:
            c = g.cond(b)
            if not c:
                continue
            t = strip_cast(f.term(c, inline=True))
            if t[0] == 'op' and t[1] == '&&' and any(s[0] == 'tparam' and s[1] == 'SkipDeleted' for s in subterms(t)):
                other = strip_cast(t[3]) if strip_cast(t[2])[0] in ('tparam', 'cast') else strip_cast(t[2])
                want = ('call', _deleted_name(other), (), ('deref', F1))
                okc = other[0] == 'call' and other[1].endswith('::deleted') and other[3] == ('deref', F1)
                obs.append(Ob('MERGE-PRECEDENCE', f, c, 'both elements are dropped only if SkipDeleted and the newer one is a tombstone',
                              fmt_term(t), OK if okc else VIOLATED, arm='skip'))
    # bulk emission: std::copy / std::move(algorithm) into `result` may run only once one of the ranges is exhausted (after the
    # loop), or under a guard that establishes that one whole range precedes the other *strictly*
    for f in fs:
        g = graph(f)
        p = [x['name'] for x in f.params]
        if len(p) != 5:
            continue
        F1, L1, F2, L2, R = [('param', n) for n in p]
        loops = [b for b in g.reach if g.cond(b) and g.blocks[b].get('term_c') in ('WhileStmt', 'ForStmt')]
        for c in f.calls(pred=lambda nd: nd.get('ct') in ('std::copy', 'std::move', 'std::copy_n') and len(nd.get('args', [])) == 3):
            if not reachable(f, c):
                continue
            pos = f.block_of(c)[0]
            # after the loop: every path to the call passes through the loop condition (all blocks of a short-circuit
            # condition count) and the call cannot re-enter the loop
            after = False
            for lb in loops:
                inside = set(f.walk(g.cond(lb)))
                head = {b for b in g.reach if g.cond(b) and (b == lb or g.cond(b) in inside)}
                if g.must_pass(g.entry, pos, head) and not any(g.paths_exist(pos, h) for h in head):
                    after = True
            conds = conds_of(f, c)
            data_guard = None
            flat = []
            for (t, lab, cn) in conds:
                # a true conjunction makes every conjunct true, a false disjunction makes every disjunct false
                st = [strip_cast(t)]
                while st:
                    x = st.pop()
                    if x[0] == 'op' and len(x) == 4 and ((x[1] == '&&' and lab is True) or (x[1] == '||' and lab is False)):
                        st += [strip_cast(x[2]), strip_cast(x[3])]
                    else:
                        flat.append((x, lab, cn))
            for (t, lab, cn) in flat:
                t0 = strip_cast(t)
                neg = False
                while t0[0] == 'un' and t0[1] == '!':
                    neg = not neg
                    t0 = strip_cast(t0[2])
                if t0[0] == 'op' and t0[1] in ('<', '<=', '>', '>=') and any(x[0] == 'deref' or (x[0] == 'call' and x[1] == 'std::prev') for x in subterms(t0)):
                    data_guard = (t0, (lab is True) != neg, t)
            req = 'elements are emitted in bulk only once one of the two ranges is exhausted, or under a guard that puts one whole range strictly before the other'
            if data_guard is None and (after or not loops):
                obs.append(Ob('MERGE-PRECEDENCE', f, c, req, 'tail copy after the merge loop', OK, arm='bulk'))
            elif data_guard is None:
                obs.append(Ob('MERGE-PRECEDENCE', f, c, req, 'bulk copy inside or before the merge loop without a recognised guard', UNDECIDED, arm='bulk'))
            else:
                t0, truth, t = data_guard
                # strict separation holds only on the *true* side of `<` / `>` (or the false side of `<=` / `>=`)
                strict = (t0[1] in ('<', '>')) == truth
                # which range comes first according to the guard: the side that is smaller
                lo_side, hi_side = (t0[2], t0[3]) if (t0[1] in ('<', '<=')) == truth else (t0[3], t0[2])
                first_rng = 1 if any(x in (F1, L1) for x in subterms(lo_side)) else 2 if any(x in (F2, L2) for x in subterms(lo_side)) else 0
                a = f.n(c)['args']
                this_rng = 1 if strip_cast(f.term(a[0], inline=False)) == F1 else 2 if strip_cast(f.term(a[0], inline=False)) == F2 else 0
                second = strip_cast(f.term(a[2], inline=False))[0] == 'call'      # its output continues another bulk emission
                order_ok = first_rng and this_rng and ((this_rng == first_rng) != second)
                msg = ('strict separation of the two ranges' if strict else 'only establishes <=: an element present in both ranges is emitted twice (the older copy survives)')
                if strict and not order_ok:
                    msg = f"range {this_rng} is emitted {'second' if second else 'first'} although the guard puts range {first_rng} first"
                obs.append(Ob('MERGE-PRECEDENCE', f, c, req, f"guard `{fmt_term(t)[:70]}` taken {'true' if truth else 'false'}: " + msg,
                              OK if (strict and order_ok) else VIOLATED, arm='bulk'))
    # call sites: first range = accumulator of newer levels, second range = the (older) level
    for name in ('pairwise_merge', 'range'):
        for f in ctx.need(D + '::' + name, ctx.units):
            for c in f.calls_to(D + '::merge'):
                if not reachable(f, c):
                    continue
                a = f.n(c)['args']
                # origin of the two ranges by the pointee analysis of the EFFECT engine: the accumulators are local
                # vectors, the second range points into the container's own level
                import effect
                eng = effect.Effects(f.unit)
                r0, r2 = eng.P(f, a[0]), eng.P(f, a[2])
                first_is_level = any(r != effect.LOCAL for r in r0) or not r0
                second_is_level = bool(r2) and effect.LOCAL not in r2 and any(r == ('this',) for r in r2) and (
                    level_index_of(f.term(a[2], inline=True)) is not None or any(level_index_of(f.term(w, inline=True)) is not None for w in _defs_of_iter(f, a[2])))
                if not second_is_level:
                    # the range may reach the call through the bindings of a window helper's result (inlined): decide on the terms -
                    # the second range is a position inside level(i), the first is not
                    t0_, t2_ = f.term(a[0], inline=True), f.term(a[2], inline=True)
                    def in_level(t, depth=0):
                        for x in subterms(t):
                            if isinstance(x, tuple) and x and x[0] == 'call' and level_index_of(x) is not None:
                                return True
                            if isinstance(x, tuple) and x and x[0] == 'local' and len(x) == 3 and depth < 3:
                                d_ = f.defs.get(x[2], {})
                                srcs = ([d_['init']] if d_.get('init') else []) + [(f.n(w)['args'][1] if f.n(w)['c'] == 'CXXOperatorCallExpr' else f.n(w)['ch'][1])
                                                                                   for w in d_.get('writes', []) if f.n(w).get('op') == '=']
                                if any(in_level(f.term(sn, inline=True), depth + 1) for sn in srcs):
                                    return True
                        return False
                    if in_level(t2_) and not in_level(t0_):
                        second_is_level = True
                        first_is_level = in_level(t0_)
                ok = (not first_is_level) and second_is_level
                obs.append(Ob('MERGE-PRECEDENCE', f, c, 'merge(newer accumulator, older level(i)): the first range holds the newer data',
                              f"first range from {fmt_term(f.term(a[0], inline=False))[:40]}, second from {fmt_term(f.term(a[2], inline=False))[:40]}",
                              OK if ok else VIOLATED, arm=name + ':order'))
    return obs


def _defs_of_iter(fn, node):
    """definitions (initialiser + assignments) of the iterator local designated by node, transitively"""
    out = []
    seen = set()
    todo = [node]
    while todo:
        n = todo.pop()
        for i in fn.walk(n):
            nd = fn.n(i)
            if nd['c'] == 'DeclRefExpr' and nd.get('dk') == 'local' and nd['d'] not in seen:
                seen.add(nd['d'])
                d = fn.defs.get(nd['d'], {})
                if d.get('init'):
                    out.append(d['init'])
                    todo.append(d['init'])
                for w in d.get('writes', []):
                    wn = fn.n(w)
                    if wn.get('op') == '=':
                        rhs = wn['args'][1] if wn['c'] == 'CXXOperatorCallExpr' else wn['ch'][1]
                        out.append(rhs)
                        todo.append(rhs)
    return out


def _deleted_name(t):
    return t[1] if t[0] == 'call' else '?'


def _is_lt(t, a, b):
    """*a < *b possibly through the item -> key conversion"""
    if not (t[0] == 'op' and len(t) == 4 and t[1] == '<'):
        return False

    def core(x):
        x = strip_cast(x)
        if x[0] == 'call' and x[1].split('::')[-1].startswith('operator ') and len(x) > 3 and x[3] is not None:
            x = strip_cast(x[3])
        if x[0] == 'field' and x[1] == 'first':
            x = strip_cast(x[2])
        return x
    return core(t[2]) == ('deref', a) and core(t[3]) == ('deref', b)


def _advances(fn, g, block, vars_):
    """which of vars_ are incremented in `block` or the straight-line blocks after it (until a branch)"""
    out = set()
    b = block
    seen = set()
    while b is not None and b not in seen:
        seen.add(b)
        for e in g.blocks[b]['elems']:
            nd = fn.n(e)
            if nd['c'] == 'CXXOperatorCallExpr' and nd.get('op') == '++' or nd['c'] == 'UnaryOperator' and nd.get('op') == '++':
                tgt = nd['args'][0] if nd['c'] == 'CXXOperatorCallExpr' else nd['ch'][0]
                t = fn.term(tgt, inline=False)
                if t in vars_:
                    out.add(t)
        ss = [s for s in g.succ[b] if s is not None]
        if len(ss) != 1 or g.blocks[b].get('cond'):
            break
        b = ss[0]
    return out


# ------------------------------------------------------------------------------------------ TOMB-ESCAPE
def _deleted_test(t, x):
    """is t the call x->deleted() ?"""
    t = strip_cast(t)
    return t[0] == 'call' and t[1].endswith('::deleted') and len(t) > 3 and t[3] == ('deref', x)


def _guarded_not_deleted(fn, node, x):
    for (t, lab, cn) in conds_of(fn, node, inline=False):
        if _deleted_test(t, x) and lab is False:
            return True
        tt = strip_cast(t)
        if tt[0] == 'un' and tt[1] == '!' and _deleted_test(tt[2], x) and lab is True:
            return True
    return False


def rule_tomb_escape_point(ctx):
    """find / lower_bound hand out an iterator to an item only if that item's deleted() was tested false"""
    obs = []
    for name in ('find', 'lower_bound'):
        for f in ctx.need(D + '::' + name, ctx.units):
            cons = [c for c in f.calls(pred=lambda nd: nd['c'] in ('CXXConstructExpr', 'CXXTemporaryObjectExpr') and nd.get('rec') == IT and len(nd.get('args', [])) == 3)]
            cons = [c for c in cons if reachable(f, c)]
            if not cons:
                raise AnalysisBroken(f"{f.qname}: no iterator construction found")
            for c in cons:
                x = f.term(f.n(c)['args'][2], inline=False)
                if x[0] != 'local':
                    obs.append(Ob('TOMB-ESCAPE', f, c, 'iterator to a live item', f"iterator built from `{fmt_term(x)[:60]}`", UNDECIDED, arm=name))
                    continue
                d = f.defs.get(x[2], {})
                direct = _guarded_not_deleted(f, c, x)
                if direct:
                    ok, why = True, f"`{x[1]}->deleted()` tested false on the path"
                else:
                    # candidate variable (lb): every assignment to it must come from a live item
                    asg = [w for w in d.get('writes', []) if f.n(w).get('op') == '=']
                    ok = bool(asg)
                    why = f"`{x[1]}` is only assigned from items whose deleted() was tested false"
                    for w in asg:
                        nd = f.n(w)
                        rhs = f.term(nd['args'][1] if nd['c'] == 'CXXOperatorCallExpr' else nd['ch'][1], inline=False)
                        if not (rhs[0] == 'local' and _guarded_not_deleted(f, w, rhs)):
                            ok = False
                            why = f"`{x[1]} = {fmt_term(rhs)}` at line {nd['l']} is not guarded by !deleted()"
                    if not asg:
                        why = f"`{x[1]}` reaches the iterator without a deleted() test"
                extra = ''
                if ok and name == 'lower_bound':
                    # keys erased in newer levels must also be excluded
                    site = c if direct else asg[0]
                    # the collection of keys erased in newer levels: a local container that receives insertions; the path must carry
                    # a membership test on it (member find/count/contains, or std::find / std::binary_search over its range)
                    colls = set()
                    for cc in f.calls(pred=lambda nd: nd.get('cn') in ('emplace', 'insert', 'push_back', 'emplace_back')):
                        o_ = f.n(cc).get('obj')
                        if o_:
                            ot = strip_cast(f.term(o_, inline=False))
                            if ot[0] == 'local':
                                colls.add(ot[:2])
                    shadow = mention = False
                    for (t, lab, cn) in conds_of(f, site):
                        for s_ in subterms(t):
                            if s_[0] != 'call':
                                continue
                            nm = s_[1].rsplit('::', 1)[-1]
                            on_member = len(s_) > 3 and s_[3] is not None and strip_cast(s_[3])[0] == 'local' and strip_cast(s_[3])[:2] in colls
                            on_range = any(x[0] == 'call' and x[1].rsplit('::', 1)[-1] in ('begin', 'end', 'cbegin', 'cend') and len(x) > 3 and x[3] is not None
                                           and strip_cast(x[3])[0] == 'local' and strip_cast(x[3])[:2] in colls for a_ in s_[2] for x in subterms(a_))
                            if (on_member and nm in ('find', 'count', 'contains')) or (on_range and nm in ('find', 'binary_search', 'count', 'any_of', 'none_of')):
                                mention = True
                                tt = strip_cast(t)
                                # `X.find(k) == X.end()` / `std::find(..) == X.end()` true, `count == 0` true, `!contains` ...: accepted when
                                # the comparison is the usual "not found" spelling; other spellings stay undecided
                                if tt[0] == 'op' and tt[1] in ('==', '!=') and nm == 'find' and (lab is True) == (tt[1] == '=='):
                                    shadow = True      # `find(k) == end()` taken true, or `find(k) != end()` taken false (early continue)
                                elif nm == 'binary_search' and not _sorted_collection(f, s_, colls):
                                    # a binary search needs a sorted range; appends made from different iterations of the level loop
                                    # are not in key order and nothing sorts the collection before it is searched
                                    obs.append(Ob('TOMB-ESCAPE', f, c, 'an iterator to an item is handed out only on a path on which the item was found not deleted (and not shadowed by a newer tombstone)',
                                                  why + '; the keys erased in newer levels are looked up by binary search in a sequence that is appended to across levels and never sorted', VIOLATED, arm=name))
                                    shadow = 'reported'
                                elif nm in ('count', 'contains', 'binary_search', 'any_of') and ((lab is True and ((tt[0] == 'op' and tt[1] == '==' and strip_cast(tt[3]) == ('lit', 0)) or (tt[0] == 'un' and tt[1] == '!'))) or (lab is False and tt[0] == 'call')):
                                    shadow = True
                                elif nm == 'none_of' and lab is True:
                                    shadow = True
                    if shadow == 'reported':
                        continue
                    if not shadow:
                        ok = False
                        extra = '; but the key is not checked against the keys erased in newer levels' if not mention else '; the test against the keys erased in newer levels has an unrecognised shape'
                        if mention:
                            obs.append(Ob('TOMB-ESCAPE', f, c, 'an iterator to an item is handed out only on a path on which the item was found not deleted (and not shadowed by a newer tombstone)',
                                          why + extra, UNDECIDED, arm=name))
                            continue
                obs.append(Ob('TOMB-ESCAPE', f, c, 'an iterator to an item is handed out only on a path on which the item was found not deleted (and not shadowed by a newer tombstone)',
                              why + extra, OK if ok else VIOLATED, arm=name))
    return obs


def _sorted_collection(f, call_term, colls):
    """is the range searched by std::binary_search known to be sorted?  An ordered container is; a sequence container is
    only if a std::sort over it precedes the search (not looked for: no such code exists) - appended to inside nested loops
    (a per-level loop around a scan) it is not."""
    for a in call_term[2]:
        for x in subterms(a):
            if x[0] == 'call' and len(x) > 3 and x[3] is not None and strip_cast(x[3])[0] == 'local':
                d = f.defs.get(strip_cast(x[3])[2], {})
                ty = f.unit.tstr(d.get('t', 0)) if d else ''
                if 'std::set' in ty or 'std::multiset' in ty or 'std::map' in ty:
                    return True
                return False
    return False


def rule_deleted_set_monotone(ctx):
    """lower_bound() walks the levels from the newest to the oldest and collects the keys of the tombstones it meets; a tombstone
    hides *every* older copy of its key (a key overwritten, pushed down and then erased has live-looking copies in two or more
    older levels), so the collection may only grow while the walk lasts: any erase / clear / extract / assignment of it is a
    violation - the second stale copy would be returned."""
    obs = []
    GROW_OR_READ = {'insert', 'emplace', 'emplace_hint', 'find', 'count', 'contains', 'end', 'cend', 'begin', 'cbegin', 'size', 'empty',
                    'lower_bound', 'upper_bound', 'equal_range', 'reserve'}
    for f in ctx.need(D + '::lower_bound', ctx.units):
        sets = {}
        for vid, d in f.defs.items():
            ty = f.unit.tstr(d.get('t', 0)) if d.get('t') else ''
            if not d.get('param') and ('std::set' in ty or 'std::unordered_set' in ty or 'std::multiset' in ty or 'std::map' in ty or 'std::unordered_map' in ty):
                sets[vid] = d.get('name')
        if not sets:
            obs.append(Ob('TOMB-ESCAPE', f, 0, 'the keys of the tombstones met so far are kept in a set for the whole walk', 'no local set found in lower_bound()', UNDECIDED, arm='deleted-set'))
            continue
        bad = None
        uses = 0
        for c in f.calls():
            nd = f.n(c)
            if not reachable(f, c):
                continue
            o = nd.get('obj')
            if nd['c'] == 'CXXMemberCallExpr' and o:
                v = f.var_of(o)
                if v in sets:
                    uses += 1
                    if nd.get('cn') not in GROW_OR_READ:
                        bad = bad or (c, f"`{sets[v]}.{nd.get('cn')}(...)` at line {nd['l']} removes tombstone keys during the walk: an older copy of the same key in a further level is no longer hidden")
            if nd['c'] == 'CXXOperatorCallExpr' and nd.get('op') == '=' and nd.get('args') and f.var_of(nd['args'][0]) in sets:
                bad = bad or (c, f"`{sets[f.var_of(nd['args'][0])]}` is re-assigned during the walk")
        obs.append(Ob('TOMB-ESCAPE', f, bad[0] if bad else 0, 'the set of tombstone keys only grows during the walk over the levels (a tombstone hides every older copy of its key)',
                      bad[1] if bad else f"{uses} use(s) of {sorted(sets.values())}: insertions and lookups only", VIOLATED if bad else OK, arm='deleted-set'))
    return obs


def rule_tomb_escape_scan(ctx):
    """range() copies out only live items; Iterator::advance publishes only a live cursor"""
    obs = []
    for f in ctx.need(D + '::range', ctx.units):
        outs = [c for c in f.calls(pred=lambda nd: nd.get('cn') in ('emplace_back', 'push_back')) if reachable(f, c) and
                f.n(c).get('obj') and f.term(f.n(c)['obj'], inline=False)[0] == 'local' and f.term(f.n(c)['obj'], inline=False)[1] == 'result']
        if not outs:
            raise AnalysisBroken(f"{f.qname}: result.emplace_back not found")
        for c in outs:
            a0 = strip_cast(f.term(f.n(c)['args'][0], inline=False))
            x = None
            obj = None
            for s in subterms(a0):
                if s[0] == 'deref' and s[1][0] == 'local':
                    x = s[1]
                # a range-based `for (auto &item : items)`: the item itself is a (reference) local
                if s[0] == 'field' and s[1] in ('first', 'second') and strip_cast(s[2])[0] == 'local':
                    obj = strip_cast(s[2])
            ok = x is not None and _guarded_not_deleted(f, c, x)
            if x is None and obj is not None:
                # `item.deleted()` tested false on the path
                for (t, lab, cn) in conds_of(f, c, inline=False):
                    tt = strip_cast(t)
                    neg = False
                    while tt[0] == 'un' and tt[1] == '!':
                        neg = not neg
                        tt = strip_cast(tt[2])
                    if tt[0] == 'call' and tt[1].endswith('::deleted') and len(tt) > 3 and strip_cast(tt[3]) == obj and ((lab is True) == neg):
                        ok = True
            obs.append(Ob('TOMB-ESCAPE', f, c, 'range() copies an item into the result only under !deleted()',
                          f"emplace_back({fmt_term(a0)[:40]}) " + ('under !deleted()' if ok else 'without a deleted() test'), OK if ok else VIOLATED, arm='range'))
    for f in ctx.need(IT + '::advance', ctx.units):
        CUR = ('field', 'current', THIS)
        asg = [i for i in f.all_ids() if f.n(i)['c'] == 'CXXOperatorCallExpr' and f.n(i).get('op') == '=' and f.term(f.n(i)['args'][0], inline=False) == CUR and reachable(f, i)]
        if not asg:
            raise AnalysisBroken(f"{f.qname}: assignment of `current` not found")
        for i in asg:
            rhs = f.term(f.n(i)['args'][1], inline=False)
            ok = False
            why = f"current = {fmt_term(rhs)}"
            if rhs[0] == 'local':
                x = ('field', 'iterator', rhs)
                ok = _guarded_not_deleted(f, i, x)
                why += ' under !' + rhs[1] + '.iterator->deleted()' if ok else ' without a deleted() test of that cursor'
            obs.append(Ob('TOMB-ESCAPE', f, i, 'the iterator moves only to a cursor whose item is not deleted', why, OK if ok else VIOLATED, arm='advance'))
    return obs


# ------------------------------------------------------------------------------------------ LOOP-AGREE
def _level_loops(fn):
    """loops `for (i = min_level; i < used_levels; ++i)`: returns list of dicts"""
    g = graph(fn)
    out = []
    for b in g.reach:
        blk = g.blocks[b]
        if blk.get('term_c') != 'ForStmt' or not blk.get('cond'):
            continue
        ct = strip_cast(fn.term(blk['cond'], inline=False))
        out.append({'block': b, 'cond': ct, 'cond_node': blk['cond']})
    return out


def rule_loop_agree(ctx):
    obs = []
    sites = [(D + '::find', 'this'), (D + '::range', 'this'), (D + '::lower_bound', 'this'), (IT + '::lazy_initialize', 'super')]
    for tn, owner in sites:
        for f in ctx.need(tn, ctx.units):
            g = graph(f)
            O = THIS if owner == 'this' else ('field', 'super', THIS)
            ML, UL = ('field', 'min_level', O), ('field', 'used_levels', O)
            loops = [l for l in _level_loops(f) if contains(l['cond'], UL)]
            if len(loops) != 1:
                obs.append(Ob('LOOP-AGREE', f, 0, 'one loop over the levels min_level .. used_levels-1', f"{len(loops)} such loops found", UNDECIDED, arm=f.name))
                continue
            l = loops[0]
            ct = _as_int_terms(l['cond'])
            var = ct[2] if ct[0] == 'op' and ct[1] == '<' else None
            ok_cond = var is not None and var[0] == 'local' and ct[3] == UL
            ok_init = ok_step = False
            if ok_cond:
                d = f.defs.get(var[2], {})
                ok_init = bool(d.get('init')) and strip_cast(f.term(d['init'], inline=False)) == ML
                ws = [w for w in d.get('writes', []) if f.n(w).get('op') in ('++', '--', '=', '+=', '-=')]
                ok_step = len(ws) == 1 and f.n(ws[0]).get('op') == '++'
            obs.append(Ob('LOOP-AGREE', f, l['cond_node'], 'levels are visited from min_level upwards (newest first) while i < used_levels, one step at a time',
                          f"init min_level: {ok_init}; condition `{fmt_term(l['cond'])}`: {ok_cond}; step ++: {ok_step}", OK if (ok_cond and ok_init and ok_step) else VIOLATED,
                          arm=f.name + ':bounds'))
            if not ok_cond:
                continue
            # emptiness skip on level(i)
            skip = False
            for b in g.reach:
                c = g.cond(b)
                if c:
                    t = strip_cast(f.term(c, inline=True))
                    if t[0] == 'call' and t[1].endswith('::empty') and level_index_of(t) is not None and _as_int_terms(level_index_of(t)) == var:
                        skip = True
            obs.append(Ob('LOOP-AGREE', f, 0, 'empty levels are skipped', f"`level(i).empty()` test present: {skip}", OK if skip else VIOLATED, arm=f.name + ':skip-empty'))
            # index narrowing: under has_pgm(i), the search range is pgm(i).search(<the key then searched>)
            for c in f.calls(pred=lambda nd: nd.get('ct') in kinds.LOWER + kinds.UPPER):
                if not reachable(f, c):
                    continue
                k = kinds.kind_of_term(f.term(c, inline=False))
                if not k:
                    continue
                key = k[1]
                # the narrowing searches feeding this call
                srch = [s for s in f.calls_to('pgm::PGMIndex::search') if reachable(f, s)]
                keys = {fmt_term(strip_cast(f.term(f.n(s)['args'][0], inline=False))) for s in srch}
                def _has_pgm_true(t, lab):
                    t = strip_cast(t)
                    while t[0] == 'un' and t[1] == '!':
                        t, lab = strip_cast(t[2]), not lab
                    return t[0] == 'call' and t[1].endswith('::has_pgm') and lab is True
                guarded = all(any(_has_pgm_true(t, lab) for (t, lab, cn) in conds_of(f, s)) for s in srch)
                same_level = all(_as_int_terms(strip_cast(f.term(f.n(s)['obj'], inline=False))[2][0]) == var if strip_cast(f.term(f.n(s)['obj'], inline=False))[0] == 'call' else False for s in srch)
                ok = bool(srch) and fmt_term(strip_cast(key)) in keys and guarded and same_level
                obs.append(Ob('LOOP-AGREE', f, c, 'under has_pgm(i) the binary search is narrowed by pgm(i).search(k) for the same key k and level i',
                              f"binary search for `{fmt_term(key)[:40]}`; narrowing searches for {sorted(keys)}; under has_pgm: {guarded}; same level: {same_level}",
                              OK if ok else VIOLATED, arm=f.name + ':narrow'))
    return obs


# ------------------------------------------------------------------------------------------ KIND (C06) and DERIVED
def rule_kind_dynamic(ctx):
    obs = []
    for f in ctx.need(IT + '::lazy_initialize', ctx.units):
        cur = ('field', 'first', ('deref', ('field', 'iterator', ('field', 'current', THIS))))
        for c in f.calls(pred=lambda nd: nd.get('ct') in kinds.LOWER + kinds.UPPER):
            if not reachable(f, c):
                continue
            k = kinds.kind_of_term(f.term(c, inline=False))
            ok = bool(k) and k[0] == 'FIRST_GT' and strip_cast(k[1]) == cur
            obs.append(Ob('KIND', f, c, 'every level cursor starts at the first key greater than the current key (FIRST_GT)',
                          f"{k[0] if k else 'unknown'}({fmt_term(k[1])[:50] if k else '?'})", OK if ok else VIOLATED, arm='lazy_initialize'))
    for f in ctx.need(D + '::range', ctx.units):
        LO, HI = ('param', f.params[0]['name']), ('param', f.params[1]['name'])
        found = {'lo': False, 'hi': False}
        for c in f.calls(pred=lambda nd: nd.get('ct') in kinds.LOWER + kinds.UPPER):
            if not reachable(f, c):
                continue
            k = kinds.kind_of_term(f.term(c, inline=False))
            if not k:
                continue
            if strip_cast(k[1]) == LO:
                found['lo'] = True
                obs.append(Ob('KIND', f, c, 'range slice starts at FIRST_GE(lo)', k[0], OK if k[0] == 'FIRST_GE' else VIOLATED, arm='range:lo'))
            elif strip_cast(k[1]) == HI:
                found['hi'] = True
                obs.append(Ob('KIND', f, c, 'range slice ends at FIRST_GT(hi) (hi inclusive)', k[0], OK if k[0] == 'FIRST_GT' else VIOLATED, arm='range:hi'))
        for w, v in found.items():
            if not v:
                obs.append(Ob('KIND', f, 0, f'a search for the {w} endpoint', 'not found', VIOLATED, arm='range:' + w))
    for name in ('find', 'lower_bound'):
        for f in ctx.need(D + '::' + name, ctx.units):
            KEY = ('param', f.params[0]['name'])
            n = 0
            # the probe may sit in a local closure of the function (a helper hoisted out of the level loop)
            closures = [l for l in f.unit.functions.values() if l.d.get('parent_fn') == f.id and l.name == 'operator()' and l.cfg]
            for fn_ in [f] + closures:
                for c in fn_.calls(pred=lambda nd: nd.get('ct') in kinds.LOWER + kinds.UPPER):
                    if not reachable(fn_, c):
                        continue
                    k = kinds.kind_of_term(fn_.term(c, inline=False))
                    n += 1
                    ok = bool(k) and k[0] == 'FIRST_GE' and strip_cast(k[1]) == KEY
                    obs.append(Ob('KIND', fn_, c, 'per-level probe is FIRST_GE(key)', f"{k[0] if k else 'unknown'}", OK if ok else (UNDECIDED if not k else VIOLATED), arm=name))
            if n == 0:
                helpers = [c for c in f.calls() if f.unit.functions.get(f.n(c).get('cd')) is not None and f.unit.functions[f.n(c)['cd']].record == f.record and f.n(c).get('cn') not in ('level', 'pgm', 'has_pgm', 'end', 'begin')]
                obs.append(Ob('KIND', f, 0, 'per-level probe is FIRST_GE(key)', 'no search found' + (' in the function itself (it calls helpers of its class)' if helpers else ''),
                              UNDECIDED if helpers else VIOLATED, arm=name))
    # find() decides at the first level whose probe hits the key
    for f in ctx.need(D + '::find', ctx.units):
        KEY = ('param', f.params[0]['name'])
        hit = False
        for r in f.returns():
            if not reachable(f, r):
                continue
            for (t, lab, cn) in conds_of(f, r):
                tt = _as_int_terms(strip_cast(t))
                for s in subterms(tt):
                    if s[0] == 'op' and s[1] == '==' and KEY in (strip_cast(s[2]), strip_cast(s[3])) and lab is True:
                        hit = True
        obs.append(Ob('KIND', f, 0, 'find() returns from inside the level loop at the first level whose FIRST_GE probe equals the key', f"return under `... == key`: {hit}", OK if hit else VIOLATED, arm='find:first-hit'))
    return obs


def rule_derived(ctx):
    """size/empty/count/begin have no state of their own: they are computed from begin/end/lower_bound/find"""
    obs = []
    allowed = {
        'size': {'begin', 'end', 'distance'},
        'empty': {'begin', 'end', 'operator=='},
        'count': {'find', 'end', 'operator==', 'operator!='},
        'begin': {'lower_bound', 'min', 'lowest'},
    }
    for name, ok_callees in allowed.items():
        for f in ctx.need(D + '::' + name, ctx.units):
            bad = []
            for c in f.calls():
                nd = f.n(c)
                if nd['c'] in ('CXXConstructExpr', 'CXXTemporaryObjectExpr'):
                    continue
                if nd.get('cn') not in ok_callees and not (nd.get('op') in ('==', '!=')):
                    bad.append(nd.get('cn'))
            fields = [f.n(i)['n'] for i in f.all_ids() if f.n(i)['c'] == 'MemberExpr' and f.n(i).get('dk') == 'field']
            ok = not bad and not fields
            obs.append(Ob('DERIVED', f, 0, f"{name}() is derived from traversal ({sorted(ok_callees)}) and reads no container state directly",
                          ('calls only ' + str(sorted({f.n(c).get('cn') for c in f.calls() if f.n(c)['c'] not in ('CXXConstructExpr', 'CXXTemporaryObjectExpr')}))) if ok else f"also uses {bad} / fields {fields}",
                          OK if ok else VIOLATED, arm=name))
    return obs


# ------------------------------------------------------------------------------------------ INDEX-SYNC (C15)
MUTATORS = {'clear', 'resize', 'shrink_to_fit', 'insert', 'push_back', 'emplace_back', 'erase', 'assign', 'operator=', 'swap', 'pop_back', 'emplace'}


def rule_index_sync(ctx):
    obs = []
    for tn in (D + '::pairwise_merge', D + '::insert', D + '::DynamicPGMIndex'):
        for f in ctx.need(tn, ctx.units):
            if tn.endswith('::DynamicPGMIndex') and (len(f.params) != 5):
                continue
            g = graph(f)
            ML = ('field', 'min_level', THIS)
            # mutation sites: non-const container member calls / assignments on level(X) or on a reference bound to it
            muts = []
            for i in f.all_ids():
                nd = f.n(i)
                if not reachable(f, i):
                    continue
                obj = None
                kind = None
                if nd['c'] == 'CXXMemberCallExpr' and nd.get('cn') in MUTATORS and nd.get('obj'):
                    obj, kind = nd['obj'], nd['cn']
                elif nd['c'] == 'CXXOperatorCallExpr' and nd.get('op') == '=' and nd.get('args'):
                    obj, kind = nd['args'][0], 'operator='
                if obj is None:
                    continue
                t = f.through_refs(f.term(obj, inline=True))
                x = None
                tt = strip_cast(t)
                if tt[0] == 'call' and tt[1] == D + '::level' and len(tt[2]) == 1:
                    x = _as_int_terms(strip_cast(tt[2][0]))
                if x is None:
                    continue
                muts.append((i, x, kind))
            # sync sites: `if (has_pgm(X)) ... pgm(X) = PGMType(...)`
            syncs = []
            for i in f.all_ids():
                nd = f.n(i)
                if nd['c'] == 'CXXOperatorCallExpr' and nd.get('op') == '=' and reachable(f, i):
                    lhs = strip_cast(f.term(nd['args'][0], inline=True))
                    if lhs[0] == 'call' and lhs[1] == D + '::pgm' and len(lhs[2]) == 1:
                        x = _as_int_terms(strip_cast(lhs[2][0]))
                        rhs = strip_cast(f.through_refs(f.term(nd['args'][1], inline=True)))
                        hp = [(t, lab, cn) for (t, lab, cn) in conds_of(f, i) if strip_cast(t)[0] == 'call' and strip_cast(t)[1] == D + '::has_pgm' and lab is True
                              and _as_int_terms(strip_cast(strip_cast(t)[2][0])) == x]
                        syncs.append({'node': i, 'x': x, 'rhs': rhs, 'guard': hp[0][2] if hp else None})
            by_x = {}
            for (i, x, kind) in muts:
                by_x.setdefault(x, []).append((i, kind))
            for x, ms in by_x.items():
                if x == ML:
                    obs.append(Ob('INDEX-SYNC', f, ms[0][0], 'the buffer level carries no index', f"{len(ms)} mutation(s) of level(min_level)", OK, arm=f.name + ':buffer'))
                    continue
                sx = [s for s in syncs if s['x'] == x]
                # positions after which level(x) is out of sync: each mutation; must reach a sync before exit / before x changes
                okall = True
                why = ''
                if not sx:
                    okall, why = False, f"level({fmt_term(x)}) is modified but pgm({fmt_term(x)}) is never rebuilt or reset"
                else:
                    assign_blocks = set()
                    hp_blocks = set()
                    for s in sx:
                        if s['guard'] is None:
                            okall, why = False, f"pgm({fmt_term(x)}) assignment at line {f.n(s['node'])['l']} is not under has_pgm({fmt_term(x)})"
                        else:
                            hp_blocks.add(f.block_of(s['guard'])[0])
                            assign_blocks.add(f.block_of(s['node'])[0])
                    # stop points: function exit and any write to a variable occurring in x (the loop step)
                    stops = {g.exit}
                    for s_ in subterms(x):
                        if s_[0] == 'local':
                            for w in f.defs.get(s_[2], {}).get('writes', []):
                                p = f.block_of(w)
                                if p:
                                    stops.add(p[0])
                    # an exception leaving a constructor leaves no object behind: its throw blocks are not ways out
                    throw_blocks = set()
                    if tn.endswith('::DynamicPGMIndex'):
                        for b_ in g.reach:
                            for e_ in g.blocks[b_]['elems']:
                                if any(f.n(j)['c'] == 'CXXThrowExpr' for j in f.walk(e_)):
                                    throw_blocks.add(b_)
                    # search from each mutation: the pgm(x) assignment ends a path, so does the FALSE edge of has_pgm(x)
                    # (no index at this level); any other way to reach a stop point leaves the level out of sync
                    for (i, kind) in ms:
                        pos = f.block_of(i)
                        seen = set()
                        todo = [pos[0]]
                        esc = False
                        while todo and not esc:
                            b = todo.pop()
                            if b in seen:
                                continue
                            seen.add(b)
                            if b in assign_blocks and b != pos[0]:
                                continue
                            if b in throw_blocks:
                                continue
                            for (sb, lab) in g.out_edges(b):
                                if sb is None:
                                    continue
                                if b in hp_blocks and lab is False:
                                    continue
                                if sb in stops and sb not in assign_blocks:
                                    esc = True
                                    break
                                todo.append(sb)
                        if esc and {k for (_, k) in ms} <= {'clear', 'shrink_to_fit'}:
                            # emptying a level and resetting its index commute: the reset may also precede the clear, as
                            # long as it happens in the same pass (search backwards to the start of the pass)
                            seenb = set()
                            todo = [pos[0]]
                            esc_back = False
                            starts = (stops - {g.exit}) | {g.entry}
                            while todo and not esc_back:
                                b = todo.pop()
                                if b in seenb:
                                    continue
                                seenb.add(b)
                                if b in assign_blocks and b != pos[0]:
                                    continue
                                if b in starts and b != pos[0]:
                                    esc_back = True
                                    break
                                for pb in g.pred[b]:
                                    if pb in hp_blocks and g.succ[pb][1] == b and g.succ[pb][0] != b:
                                        continue    # arrived through the false edge of has_pgm(x): no index at this level
                                    todo.append(pb)
                            esc = esc_back
                        if esc:
                            okall = False
                            why = (f"after `{kind}` of level({fmt_term(x)}) at line {f.n(i)['l']} the function can return (or move to the next level) "
                                   f"with has_pgm({fmt_term(x)}) true and pgm({fmt_term(x)}) not assigned")
                            break
                    # the kind of rebuild matches the last mutation
                    if okall:
                        last_kinds = {k for (_, k) in ms}
                        for s in sx:
                            rhs = s['rhs']
                            is_default = rhs[0] == 'construct' and not rhs[2]
                            is_rebuild = rhs[0] == 'construct' and len(rhs[2]) == 2 and all(level_index_of(a) is not None and _as_int_terms(level_index_of(a)) == x for a in rhs[2]) \
                                and rhs[2][0][1].endswith('::begin') and rhs[2][1][1].endswith('::end')
                            emptied = last_kinds <= {'clear', 'shrink_to_fit'}
                            if emptied and not is_default:
                                okall, why = False, f"level({fmt_term(x)}) is emptied but its index is not reset to PGMType()"
                            if not emptied and not is_rebuild:
                                okall, why = False, f"level({fmt_term(x)}) is refilled but its index is not rebuilt from level({fmt_term(x)}).begin()/end(): {fmt_term(rhs)[:70]}"
                obs.append(Ob('INDEX-SYNC', f, ms[0][0], f"every change of level({fmt_term(x)}) is followed on all paths by a reset/rebuild of pgm({fmt_term(x)}) under has_pgm",
                              why or f"{len(ms)} mutation(s), {len(sx)} guarded index assignment(s)", OK if okall else VIOLATED, arm=f.name + ':' + fmt_term(x)))
            if tn.endswith('pairwise_merge') and not by_x:
                raise AnalysisBroken(f"{f.qname}: no level mutation found")
    return obs


# ------------------------------------------------------------------------------------------ NARROW-SCOPE
SEARCH_FNS = kinds.LOWER + kinds.UPPER + ('std::binary_search', 'std::equal_range')


def _window_tainted(t, win):
    if not isinstance(t, tuple) or not t:
        return False
    if t[0] == 'call' and t[1] in SEARCH_FNS:
        return False
    if t[0] == 'field' and t[1] in ('lo', 'hi') and isinstance(t[2], tuple) and (t[2][0] == 'local' or (t[2][0] == 'call' and str(t[2][1]).endswith('::search'))):
        return True
    if t[0] == 'local' and len(t) == 3 and t[2] in win:
        return True
    return any(_window_tainted(x, win) for x in t if isinstance(x, tuple))


def rule_narrow_scope(ctx, tnames):
    """the window [lo, hi) returned by pgm(i).search(k) only guarantees where the lower bound of k lies: a bound derived from
    it may be used as an argument of a binary search (possibly through std::max/std::min), never to bound an iteration or
    a comparison of its own"""
    obs = []
    for tn in tnames:
        for f in ctx.need(tn, ctx.units):
            # window variables: locals with a definition that reads .lo / .hi of a search result
            win = {}
            srcs_of = {}
            for vid, d in f.defs.items():
                if d.get('param'):
                    continue
                srcs = ([d['init']] if d.get('init') else [])
                if d.get('binding_of') and f.defs.get(d['binding_of'], {}).get('init'):
                    srcs.append(f.defs[d['binding_of']]['init'])       # auto [first, last] = <window aggregate>
                for w in d.get('writes', []):
                    nd = f.n(w)
                    if nd.get('op') == '=':
                        srcs.append(nd['args'][1] if nd['c'] == 'CXXOperatorCallExpr' else nd['ch'][1])
                srcs_of[vid] = [f.term(sn, inline=False) for sn in srcs]
            changed = True
            while changed:
                changed = False
                for vid, ts in srcs_of.items():
                    if vid in win:
                        continue
                    for t in ts:
                        if _window_tainted(t, win):
                            # reads .lo / .hi of a search result, or another window variable (not through a binary search: its
                            # result is a position in its own right)
                            win[vid] = f.defs[vid].get('name')
                            changed = True
                            break
            n_uses = 0
            bad = []
            for i in f.all_ids():
                nd = f.n(i)
                if nd['c'] != 'DeclRefExpr' or nd.get('d') not in win or not reachable(f, i):
                    continue
                # allowed contexts: (transitively through casts, +, std::max/min) an argument of a search call; or the target of an assignment
                p_ = f.sparent(i)
                cur = i
                ok = False
                while p_:
                    pn = f.n(p_)
                    c = pn['c']
                    if c in ('CallExpr', 'CXXMemberCallExpr') and pn.get('ct') in SEARCH_FNS:
                        ok = True
                        break
                    if c == 'CallExpr' and pn.get('ct') in ('std::max', 'std::min'):
                        cur, p_ = p_, f.sparent(p_)
                        continue
                    if c in ('BinaryOperator',) and pn['op'] in ('+', '-'):
                        cur, p_ = p_, f.sparent(p_)
                        continue
                    if c == 'CXXOperatorCallExpr' and pn.get('op') in ('+', '-'):
                        cur, p_ = p_, f.sparent(p_)
                        continue
                    if (c == 'BinaryOperator' and pn['op'] == '=') or (c == 'CXXOperatorCallExpr' and pn.get('op') == '=' and len(pn.get('args', [])) == 2):
                        ok = True     # the target of an assignment, or its source: the assigned variable is a window variable itself
                        break
                    if c == 'InlinedReturn':
                        ok = True       # the value an inlined window helper returns: whatever receives it is a window variable itself
                        break
                    if c in ('InitListExpr', 'InlinedCall') or (c == 'CallExpr' and pn.get('ct') in ('std::make_pair', 'std::make_tuple')):
                        cur, p_ = p_, f.sparent(p_)
                        continue        # packed into the aggregate a window helper returns; its bindings are window variables
                    if c in ('CXXConstructExpr', 'ImplicitCastExpr', 'CStyleCastExpr', 'CXXFunctionalCastExpr', 'CXXStaticCastExpr', 'MaterializeTemporaryExpr'):
                        cur, p_ = p_, f.sparent(p_)
                        continue
                    if c == 'DeclStmt':
                        ok = True     # initialising another variable: that variable is a window variable itself if it reads lo/hi
                        break
                    break
                n_uses += 1
                if not ok:
                    ctxt = f.term(p_, inline=False) if p_ else ('none',)
                    bad.append(f"`{win[nd['d']]}` used in `{fmt_term(ctxt)[:80]}` at line {nd['l']}")
            obs.append(Ob('NARROW-SCOPE', f, 0, 'bounds derived from pgm(i).search(k) are used only as arguments of a binary search for k',
                          f"{len(win)} window variable(s), {n_uses} use(s), all inside search calls" if not bad else bad[0], OK if not bad else VIOLATED, arm=f.name))
    return obs


def rules_c05(ctx):
    return (rule_tomb_guard(ctx) + rule_merge_precedence(ctx) + rule_tomb_escape_point(ctx) + rule_deleted_set_monotone(ctx) + rule_loop_agree(ctx) + [o for o in rule_kind_dynamic(ctx) if o.arm.startswith(('find', 'lower_bound'))] +
            rule_narrow_scope(ctx, [D + '::find', D + '::lower_bound']))


def rules_c06(ctx):
    return (rule_tomb_escape_scan(ctx) + rule_deleted_set_monotone(ctx) + rule_tomb_guard(ctx, ('range',)) + rule_loop_agree(ctx) + [o for o in rule_kind_dynamic(ctx) if o.arm.startswith(('range', 'lazy'))] + rule_derived(ctx) +
            rule_narrow_scope(ctx, [D + '::lower_bound', D + '::range', IT + '::lazy_initialize']))


def rule_accum_once(ctx):
    """buffer_max_size (the LSM bound of the insertion buffer) is accumulated over the buffer levels exactly once per
    construction: counted along the constructor, the constructor it delegates to and the member functions they call."""
    obs = []
    BMS = ('field', 'buffer_max_size', THIS)
    for u in ctx.units:
        ctors = [f for f in u.fns(D + '::DynamicPGMIndex') if not f.d.get('special') and not f.d.get('implicit') and f.cfg]
        memo = {}

        def count(fn, depth=0):
            """number of accumulation groups (a `+=` site, a loop around it counting once) executed by fn, incl. callees of the same record"""
            if fn.id in memo:
                return memo[fn.id]
            memo[fn.id] = 0
            n = 0
            for i in fn.all_ids():
                nd = fn.n(i)
                if nd['c'] == 'CompoundAssignOperator' and nd['op'] == '+=' and reachable(fn, i) and strip_cast(fn.term(nd['ch'][0], inline=False)) == BMS:
                    n += 1
            if depth < 4:
                for ini in fn.d.get('inits', []):
                    if ini.get('delegating'):
                        callee = u.functions.get(fn.n(ini['expr']).get('cd'))
                        if callee is not None:
                            n += count(callee, depth + 1)
                for c in fn.calls():
                    nd = fn.n(c)
                    callee = u.functions.get(nd.get('cd'))
                    if callee is not None and callee.record == fn.record and callee.id != fn.id and reachable(fn, c) and nd['c'] == 'CXXMemberCallExpr':
                        n += count(callee, depth + 1)
            memo[fn.id] = n
            return n
        for f in ctors:
            memo.clear()
            n = count(f)
            obs.append(Ob('ACCUM-ONCE', f, 0, 'the buffer bound buffer_max_size is accumulated exactly once per construction (constructor + delegated constructor + helpers)',
                          f"{n} accumulation site(s) on the construction path of the {len(f.params)}-parameter constructor" + ('' if n == 1 else ': the bound is ' + ('never computed' if n == 0 else f"{n} times too large, the buffer is allowed to exceed its LSM capacity")),
                          OK if n == 1 else VIOLATED, arm=f"ctor{len(f.params)}"))
    if not obs:
        raise AnalysisBroken('ACCUM-ONCE: no DynamicPGMIndex constructor found')
    return obs


# ------------------------------------------------------------------------------------------ CAPACITY (target level of an insert)
def _lin(t):
    """(constant, {atom: coefficient}) of a term built from +, -, literals and casts; anything else is an atom"""
    t = strip_cast(t)
    while t[0] == 'cast':
        t = strip_cast(t[2])
    if t[0] == 'lit' and isinstance(t[1], int):
        return t[1], {}
    if t[0] == 'op' and len(t) == 4 and t[1] in ('+', '-'):
        c1, a1 = _lin(t[2])
        c2, a2 = _lin(t[3])
        sg = 1 if t[1] == '+' else -1
        out = dict(a1)
        for k, v in a2.items():
            out[k] = out.get(k, 0) + sg * v
        return c1 + sg * c2, {k: v for k, v in out.items() if v}
    return 0, {t: 1}


def rule_capacity(ctx):
    """insert(): the level chosen as the target of a merge has room for everything merged into it.  With A the running count
    (initially the full buffer plus the new item, increased by the size of every level that is skipped), a level x may be
    chosen only if A + level(x).size() <= max_size(x).  Decided from (i) the initial value of A: buffer size + c0, (ii) the
    test that chooses the level, normalised to A + level(x).size() - max_size(x) + c (<|<=) 0; required c0 + c_eff >= 1, where
    c_eff = c for <= and c + 1 for <.  Without the +1 a level whose free room equals the merged size is chosen and ends up one
    entry above its capacity base^i."""
    obs = []
    what = 'the level chosen as merge target has room for the buffer, the new item and every level merged into it: A + level(x).size() <= max_size(x) with A counting the new item'
    for f in ctx.need('pgm::DynamicPGMIndex::insert'):
        g = graph(f)
        is_max = lambda a: a[0] == 'call' and str(a[1]).endswith('::max_size')
        is_size = lambda a: a[0] == 'call' and str(a[1]).endswith('::size') and a[3] is not None and strip_cast(a[3])[0] == 'call' and str(strip_cast(a[3])[1]).endswith('::level')
        tests = []
        for i in f.all_ids():
            nd = f.n(i)
            if nd['c'] == 'BinaryOperator' and nd['op'] in ('<', '<=', '>', '>=') and reachable(f, i):
                t = f.term(i, inline=True)
                c1, a1 = _lin(t[2])
                c2, a2 = _lin(t[3])
                at = dict(a1)
                for k, v in a2.items():
                    at[k] = at.get(k, 0) - v
                at = {k: v for k, v in at.items() if v}
                if any(is_max(k) for k in at):
                    tests.append((i, nd['op'], c1 - c2, at))
        if not tests:
            obs.append(Ob('CAPACITY', f, 0, what, 'no comparison against max_size(.) found in insert()', UNDECIDED, arm='target'))
            continue
        for (i, op, c, at) in tests:
            mx = [k for k in at if is_max(k)]
            sz = [k for k in at if is_size(k)]
            acc = [k for k in at if k[0] == 'local' and len(k) == 3]
            if len(mx) != 1 or len(sz) != 1 or len(acc) != 1 or len(at) != 3 or at[mx[0]] * at[sz[0]] != -1 or at[acc[0]] != at[sz[0]]:
                obs.append(Ob('CAPACITY', f, i, what, f"unrecognised capacity test `{fmt_term(f.term(i, inline=False))[:90]}`", UNDECIDED, arm='target'))
                continue
            if strip_cast(mx[0][2][0]) != strip_cast(strip_cast(sz[0][3])[2][0]):
                obs.append(Ob('CAPACITY', f, i, what, f"the test compares the size of level `{fmt_term(strip_cast(sz[0][3])[2][0])}` with the capacity of level `{fmt_term(mx[0][2][0])}`", VIOLATED, arm='target'))
                continue
            # orientation: expr = s * (A + size - max) + c   op   0
            sgn = at[acc[0]]
            A = acc[0]
            d = f.defs.get(A[2], {})
            adds = [w for w in d.get('writes', []) if f.n(w)['c'] == 'CompoundAssignOperator' and f.n(w).get('op') == '+=']
            other = [w for w in d.get('writes', []) if w not in adds]
            # initial value: the initialiser, or the single plain assignment that precedes the loop
            init = d.get('init')
            if not init and len(other) == 1 and f.n(other[0])['c'] == 'BinaryOperator' and f.n(other[0]).get('op') == '=':
                init = f.n(other[0])['ch'][1]
                other = []
            if not init or other or not adds:
                obs.append(Ob('CAPACITY', f, i, what, f"the running count `{A[1]}` is not `initial value, then += level(.).size()`", UNDECIDED, arm='target'))
                continue
            c0, a0 = _lin(f.term(init, inline=True))
            base_ok = len(a0) == 1 and list(a0.values()) == [1] and (list(a0)[0] == ('field', 'buffer_max_size', ('this',)) or
                                                                    (is_size(list(a0)[0]) and strip_cast(strip_cast(list(a0)[0][3])[2][0]) == ('field', 'min_level', ('this',))))
            if not base_ok:
                obs.append(Ob('CAPACITY', f, init, what, f"initial count `{fmt_term(f.term(init, inline=False))[:60]}` is not the buffer size plus a constant", UNDECIDED, arm='target'))
                continue
            bad_add = [w for w in adds if not any(is_size(x) for x in _lin(f.term(f.n(w)['ch'][1], inline=True))[1])]
            if bad_add:
                obs.append(Ob('CAPACITY', f, bad_add[0], what, f"the running count is increased by `{fmt_term(f.term(f.n(bad_add[0])['ch'][1], inline=False))[:50]}`, not by the size of the skipped level", UNDECIDED, arm='target'))
                continue
            # which edge of the test goes on to the next level (reaches a `+=` without passing the test again)?
            pb = f.block_of(i)
            tb = None
            def eff(cn):
                # the operand that decides the branch: for `a && b` as a loop/if condition the block that evaluates b has the
                # whole conjunction as its terminator condition
                cn = f.strip(cn)
                while cn and f.n(cn)['c'] == 'BinaryOperator' and f.n(cn)['op'] in ('&&', '||'):
                    cn = f.strip(f.n(cn)['ch'][1])
                return cn
            for b in g.reach:
                if g.cond(b) and eff(g.cond(b)) == i and f.block_of(i) and f.block_of(i)[0] == b:
                    tb = b
            if tb is None:
                obs.append(Ob('CAPACITY', f, i, what, 'the capacity test is not a branch condition of its own (part of a larger condition)', UNDECIDED, arm='target'))
                continue
            addb = {f.block_of(w)[0] for w in adds if f.block_of(w)}
            def reaches(e):
                return e is not None and (e in addb or bool(g.reachable_from(e, blocked={tb}) & addb))
            et, ef = g.succ[tb][0], g.succ[tb][1]
            rt, rf = reaches(et), reaches(ef)
            if rt == rf:
                obs.append(Ob('CAPACITY', f, i, what, 'cannot tell which edge of the capacity test moves on to the next level', UNDECIDED, arm='target'))
                continue
            choose_on_true = rf
            # condition under which the level is chosen, as  (A + size - max) + c'  rel  0
            rel = op if choose_on_true else {'<': '>=', '<=': '>', '>': '<=', '>=': '<'}[op]
            cc = c
            if sgn < 0:
                rel = {'<': '>', '<=': '>=', '>': '<', '>=': '<='}[rel]
                cc = -c
            if rel not in ('<', '<='):
                obs.append(Ob('CAPACITY', f, i, what, f"the level is chosen when `{fmt_term(f.term(i, inline=False))[:80]}` is {'true' if choose_on_true else 'false'}: that is a lower bound on the occupancy, not room for the merge", VIOLATED, arm='target'))
                continue
            c_eff = cc if rel == '<=' else cc + 1
            ok = c0 + c_eff >= 1
            obs.append(Ob('CAPACITY', f, i if ok else init, what,
                          f"count starts at buffer size {c0:+d}; level x is chosen when count + level(x).size() - max_size(x) {cc:+d} {rel} 0" +
                          ('' if ok else ': the new item is not counted, so a level whose free room equals the merged size is chosen and ends one entry above its capacity'),
                          OK if ok else VIOLATED, arm='target'))
    return obs


def rules_c15(ctx):
    # levels stay strictly sorted only if the merge emits each key once, in order (the per-branch and bulk-emission clauses)
    return rule_index_sync(ctx) + rule_accum_once(ctx) + rule_capacity(ctx) + [o for o in rule_merge_precedence(ctx) if o.arm in ('older-smaller', 'newer-smaller', 'tie', 'bulk')]
