"""C20: GUARD-DOM — every documented rejection is a throw of the documented exception type, under the documented
condition, that dominates the first effect it is meant to prevent."""
from cfg import graph
from common import Ob, OK, VIOLATED, UNDECIDED, AnalysisBroken
from ir import fmt_term

THIS = ('this',)


def subterms(t):
    if isinstance(t, tuple):
        if t and isinstance(t[0], str):
            yield t
        for x in t:
            if isinstance(x, tuple):
                yield from subterms(x)


def strip_cast(t):
    while isinstance(t, tuple) and t and t[0] in ('cast', 'conv'):
        t = t[2]
    return t


def reachable(fn, node):
    pos = fn.block_of(node)
    return bool(pos) and pos[0] in graph(fn).reach


def throws_of(fn, exc):
    out = []
    for i in fn.all_ids():
        nd = fn.n(i)
        if nd['c'] == 'CXXThrowExpr' and exc in fn.unit.tstr(nd.get('tt', 0)):
            out.append(i)
    return out


def guard_of(fn, throw_node):
    """(head block, condition node) of the innermost `if` whose then-branch contains the throw.  The head block is
    the first CFG block that evaluates a part of the condition (clang splits && / || over several blocks): every
    path that reaches code after the `if` has gone through it and left the condition on a non-throwing edge."""
    g = graph(fn)
    best = None
    for i in fn.all_ids():
        nd = fn.n(i)
        if nd['c'] == 'IfStmt' and nd.get('then') and throw_node in set(fn.walk(nd['then'])):
            if best is None or i in set(fn.walk(fn.n(best)['then'])):
                best = i
    if best is None:
        return None, None
    cond = fn.n(best)['cond']
    inside = set(fn.walk(cond))
    region = [b for b in g.reach if (g.blocks[b].get('cond') in inside) or (g.blocks[b].get('term') in inside)]
    if not region:
        return None, None
    head = None
    for b in region:
        if all(g.dominates(b, o) for o in region):
            head = b
    return head, cond


def dominates_node(fn, guard_block, node):
    g = graph(fn)
    pos = fn.block_of(node)
    if not pos:
        return False
    if pos[0] == guard_block:
        return False      # the effect is evaluated in the same block as (i.e. before) the test
    return g.dominates(guard_block, pos[0])


def check(rule_arm, fn, exc, cond_ok, effects, what, effect_desc, loop_guard_ok=None):
    """generic guard obligation list for one function"""
    obs = []
    ts = [t for t in throws_of(fn, exc)]
    live = [t for t in ts if reachable(fn, t)]
    if not live:
        obs.append(Ob('GUARD-DOM', fn, ts[0] if ts else 0, what, f"no reachable `throw {exc}` in {fn.name}", VIOLATED, arm=rule_arm))
        return obs
    good = None
    seen = []
    for t in live:
        gb, c = guard_of(fn, t)
        if gb is None:
            seen.append('unconditional throw')
            continue
        ct = fn.term(c, inline=True)
        seen.append(fmt_term(fn.term(c, inline=False))[:120])
        if cond_ok(ct, fn):
            good = (t, gb, c)
            break
    if not good:
        # the documented test may be one conjunct of a larger condition (`!first_pair && a < b`): whether the other conjuncts are
        # vacuous where they matter is not decided here - undecided, never a pass
        part = False
        for t in live:
            gb, c = guard_of(fn, t)
            if gb is None:
                continue

            def conj(x, out):
                x = strip_cast(x)
                if x[0] == 'op' and len(x) == 4 and x[1] == '&&':
                    conj(x[2], out)
                    conj(x[3], out)
                else:
                    out.append(x)
                return out
            cs_ = conj(fn.term(c, inline=False), [])
            cs_i = conj(fn.term(c, inline=True), [])
            if len(cs_) > 1 and len(cs_) == len(cs_i) and any(cond_ok(x, fn) for x in cs_i):
                # only when every other conjunct is a (negated) local flag - a fact about where the loop is (`!first_pair`), not about
                # the data or the container; a conjunct on the arguments or on the state weakens the documented rejection
                def is_flag(x):
                    x = strip_cast(x)
                    while x[0] == 'un' and x[1] == '!':
                        x = strip_cast(x[2])
                    return x[0] == 'local'
                others = [x for x, xi in zip(cs_, cs_i) if not cond_ok(xi, fn)]
                part = bool(others) and all(is_flag(x) for x in others)
        obs.append(Ob('GUARD-DOM', fn, live[0], what, 'rejection is guarded by `' + '` / `'.join(seen) + '`, ' +
                      ('of which the documented condition is only one conjunct' if part else 'not by the documented condition'), UNDECIDED if part else VIOLATED, arm=rule_arm))
        return obs
    t, gb, c = good
    late = [e for e in effects if reachable(fn, e) and not dominates_node(fn, gb, e) and not (loop_guard_ok is not None and loop_guard_ok(fn, c, gb, e))]
    if late:
        obs.append(Ob('GUARD-DOM', fn, late[0], what + ' before ' + effect_desc,
                      f"check `{fmt_term(fn.term(c, inline=False))[:100]}` (line {fn.n(c)['l']}) does not dominate {effect_desc} at line {fn.n(late[0])['l']}", VIOLATED, arm=rule_arm))
    else:
        obs.append(Ob('GUARD-DOM', fn, t, what + ' before ' + effect_desc,
                      f"throw {exc} under `{fmt_term(fn.term(c, inline=False))[:100]}`; dominates {len(effects)} effect site(s)", OK, arm=rule_arm))
    return obs


# ------------------------------------------------------------------------------------------ condition predicates
def is_last_elem(t, fn):
    """*std::prev(last), *(last - 1), last[-1], first[n - 1]"""
    t = strip_cast(t)
    if t[0] == 'call' and t[1].split('::')[-1].startswith('operator ') and len(t) > 3 and t[3] is not None and not t[2]:
        t = strip_cast(t[3])     # element converted to the key type by its conversion operator (DynamicPGMIndex items)
    if t[0] == 'deref':
        x = strip_cast(t[1])
        if x[0] == 'call' and x[1] == 'std::prev' and x[2] and x[2][0][0] == 'param' and (len(x[2]) == 1 or x[2][1] == ('lit', 1)):
            return x[2][0][1] == 'last'
        if x[0] == 'op' and x[1] == '-' and x[2][0] == 'param' and x[2][1] == 'last' and x[3] == ('lit', 1):
            return True
    if t[0] == 'index':
        b, i = strip_cast(t[1]), strip_cast(t[2])
        if b == ('param', 'last') and i in (('lit', -1), ('un', '-', ('lit', 1))):
            return True
        if b == ('param', 'first') and i[0] == 'op' and i[1] == '-' and i[3] == ('lit', 1):
            return True
    return False


def is_sentinel(t):
    t = strip_cast(t)
    return t[0] == 'static' and t[1].split('::')[-1] == 'sentinel'


def cond_last_is_sentinel(t, fn):
    t = strip_cast(t)
    if t[0] == 'op' and t[1] == '==' and len(t) == 4:
        return (is_last_elem(t[2], fn) and is_sentinel(t[3])) or (is_last_elem(t[3], fn) and is_sentinel(t[2]))
    return False


def _eval(t, env):
    """tiny evaluator for finite-domain guards (C integer semantics for the operators that occur)"""
    t0 = t[0]
    if t0 == 'lit':
        return t[1]
    if t0 == 'param' or t0 == 'local':
        return env[t[1]]
    if t0 == 'field' and t[2] == THIS:
        return env[t[1]]
    if t0 == 'cast':
        v = _eval(t[2], env)
        ty = t[1]
        if ty in ('unsigned int', 'const unsigned int'):
            return v & 0xffffffff
        if ty in ('unsigned char', 'const unsigned char'):
            return v & 0xff
        if ty in ('int', 'const int', 'long', 'unsigned long', 'bool', 'const bool'):
            return v if ty != 'bool' else int(bool(v))
        raise ValueError('cast ' + ty)
    if t0 == 'un':
        v = _eval(t[2], env)
        return {'!': lambda x: int(not x), '-': lambda x: -x, '~': lambda x: ~x}[t[1]](v)
    if t0 == 'op' and len(t) == 4:
        op = t[1]
        if op == '&&':
            return int(bool(_eval(t[2], env)) and bool(_eval(t[3], env)))
        if op == '||':
            return int(bool(_eval(t[2], env)) or bool(_eval(t[3], env)))
        a, b = _eval(t[2], env), _eval(t[3], env)
        f = {'<': lambda: int(a < b), '<=': lambda: int(a <= b), '>': lambda: int(a > b), '>=': lambda: int(a >= b),
             '==': lambda: int(a == b), '!=': lambda: int(a != b), '&': lambda: a & b, '|': lambda: a | b, '^': lambda: a ^ b,
             '+': lambda: a + b, '-': lambda: a - b, '*': lambda: a * b, '%': lambda: a % b, '/': lambda: a // b,
             '<<': lambda: a << b, '>>': lambda: a >> b}
        return f[op]()
    raise ValueError('cannot evaluate ' + repr(t)[:80])


def cond_base_not_pow2(t, fn):
    """exhaustive over uint8_t: true for every base >= 3 that is not a power of two, false for every power of two >= 2"""
    name = fn.params[0]['name'] if fn.params else 'base'
    try:
        for b in range(2, 256):
            env = {name: b, 'base': b}
            v = bool(_eval(t, env))
            pow2 = (b & (b - 1)) == 0
            if v != (not pow2):
                return False
        return True
    except Exception:
        return False


def _is(t, op, a, b):
    t = strip_cast(t)
    return t[0] == 'op' and len(t) == 4 and t[1] == op and strip_cast(t[2]) == a and strip_cast(t[3]) == b


# ------------------------------------------------------------------------------------------ the guards
def rules_c20(ctx):
    obs = []
    U = ctx.units
    # G1: PGMIndex::build
    for f in ctx.need('pgm::PGMIndex::build', U):
        eff = [c for c in f.calls(pred=lambda nd: '(lambda)' in nd.get('ct', '') or 'make_segmentation' in nd.get('ct', ''))]
        obs += check('G1:build-sentinel', f, 'invalid_argument', cond_last_is_sentinel, eff,
                     'data whose last (largest) element is the reserved sentinel is rejected with std::invalid_argument', 'the first segmentation call')
        if not eff:
            raise AnalysisBroken(f"{f.qname}: segmentation call not found")
    # G2: CompressedPGMIndex constructor
    for f in ctx.need('pgm::CompressedPGMIndex::CompressedPGMIndex', U):
        eff = f.calls(pred=lambda nd: 'make_segmentation' in nd.get('ct', ''))
        if not eff:
            continue
        obs += check('G2:compressed-sentinel', f, 'invalid_argument', cond_last_is_sentinel, eff,
                     'data whose last element is the reserved sentinel is rejected with std::invalid_argument', 'the first segmentation call')
    # G3: nobody else segments without passing G1/G2
    allowed = ('pgm::PGMIndex::build', 'pgm::CompressedPGMIndex::CompressedPGMIndex', 'pgm::internal::make_segmentation', 'pgm::internal::make_segmentation_par')
    n3 = 0
    for u in ctx.all_units():
        for f in u.functions.values():
            if not (f.tname.startswith('pgm::') or f.file.endswith('cpgm.cpp')):
                continue
            from ir import known_names
            if f.tname not in known_names()['functions'] and '(lambda)' not in f.tname:
                # a helper introduced by a refactoring: its body is examined where it was inlined (rules/inline.py), under the guards
                # of the function that calls it; when nothing calls it, it is dead code
                continue
            for c in f.calls(pred=lambda nd: nd.get('ct') in ('pgm::internal::make_segmentation', 'pgm::internal::make_segmentation_par')):
                if not reachable(f, c):
                    continue
                n3 += 1
                ok = any(f.tname == a or f.tname.startswith(a + '::') for a in allowed)
                obs.append(Ob('GUARD-DOM', f, c, 'segmentation is only entered through a constructor path that has checked the sentinel (G1/G2)',
                              f"called from {f.tname}", OK if ok else VIOLATED, arm='G3:callers'))
    # callers of build (each is covered by G1 since the check is inside build); recorded for the evidence
    for u in ctx.all_units():
        for f in u.functions.values():
            for c in f.calls_to('pgm::PGMIndex::build'):
                if reachable(f, c):
                    obs.append(Ob('GUARD-DOM', f, c, 'every index construction goes through PGMIndex::build (which holds check G1)',
                                  f"{f.tname} calls build", OK, arm='G3:build-callers'))
    # G4: DynamicPGMIndex(base, ...)
    for f in ctx.need('pgm::DynamicPGMIndex::DynamicPGMIndex', U):
        if len(f.params) != 3 or f.d.get('special') in ('copy_ctor', 'move_ctor'):
            continue
        LV = ('field', 'levels', THIS)
        eff = [c for c in f.calls(pred=lambda nd: nd['c'] == 'CXXMemberCallExpr') if f.n(c).get('obj') and f.term(f.n(c)['obj'], inline=False) == LV and not f.n(c).get('cconst')]
        eff += f.calls_to('pgm::DynamicPGMIndex::level')
        o = check('G4:base', f, 'invalid_argument', cond_base_not_pow2, eff,
                  'a base >= 3 that is not a power of two is rejected with std::invalid_argument (condition evaluated for all 254 values 2..255)',
                  'any level is allocated')
        obs += o
    # G5: bulk-load constructor
    for f in ctx.need('pgm::DynamicPGMIndex::DynamicPGMIndex', U):
        if len(f.params) != 5:
            continue
        g = graph(f)

        def cond5(t, fn):
            t = strip_cast(t)
            if t[0] == 'op' and t[1] in ('<', '>') and len(t) == 4:
                a, b = (t[2], t[3]) if t[1] == '<' else (t[3], t[2])
                a, b = strip_cast(a), strip_cast(b)
                # next key  <  last stored key
                if (a[0] == 'field' and a[1] == 'first' and any(s == ('param', 'first') for s in subterms(a)) and
                        b[0] == 'field' and b[1] == 'first' and any(s[0] == 'call' and s[1] == 'std::prev' for s in subterms(b))):
                    return True
                # or: a validation pass over adjacent pairs of the input, `next->first < first->first` with next one element ahead
                # of first (a range is sorted iff every adjacent pair is; the stored keys are a subsequence of it)
                if a[0] == 'field' and a[1] == 'first' and b[0] == 'field' and b[1] == 'first':
                    xa, xb = strip_cast(a[2]), strip_cast(b[2])
                    if xa[0] == 'deref' and xb[0] == 'deref':
                        ia, ib = strip_cast(xa[1]), strip_cast(xb[1])
                        if ia[0] == 'local' and len(ia) == 3 and fn.defs.get(ia[2], {}).get('init'):
                            it_ = strip_cast(fn.term(fn.defs[ia[2]]['init'], inline=False))
                            ahead = it_[0] == 'call' and it_[1] == 'std::next' and strip_cast(it_[2][0]) == ib and (len(it_[2]) == 1 or strip_cast(it_[2][1]) == ('lit', 1))
                            if ahead and _advance_together(fn, ia, ib):
                                return True
            return False
        stores = []
        for i in f.all_ids():
            nd = f.n(i)
            if nd['c'] in ('CXXOperatorCallExpr', 'BinaryOperator') and nd.get('op') == '=':
                lhs = f.term((nd['args'][0] if nd['c'] == 'CXXOperatorCallExpr' else nd['ch'][0]), inline=False)
                if lhs[0] == 'deref' and any(s[0] == 'local' and s[1] == 'out' for s in subterms(lhs)):
                    pos = f.block_of(i)
                    if pos and any(s is not None and pos[0] in g.reachable_from(s) for s in g.succ[pos[0]]):
                        stores.append(i)
        def prepass_ok(fn, c, gb, e):
            # the test sits in a validation loop over all adjacent pairs that runs to completion before anything is stored: the
            # loop's condition block dominates the store, the store is outside the loop, and the loop visits every pair
            # (`for (next = std::next(first); next != last; ++first, ++next)`)
            gg = graph(fn)
            for i_ in fn.all_ids():
                nd_ = fn.n(i_)
                if nd_['c'] != 'ForStmt' or len(nd_['ch']) != 4 or c not in set(fn.walk(nd_['ch'][3])):
                    continue
                ct_ = strip_cast(fn.term(nd_['ch'][1], inline=False))
                def is_last(x):
                    x = strip_cast(x)
                    return x == ('param', 'last') or (x[0] == 'local' and len(x) == 3 and fn.defs.get(x[2], {}).get('init') and not fn.defs[x[2]].get('writes') and
                                                       strip_cast(fn.term(fn.defs[x[2]]['init'], inline=False)) == ('param', 'last'))
                if not (ct_[0] == 'op' and len(ct_) == 4 and ct_[1] == '!=' and (is_last(ct_[2]) or is_last(ct_[3]))):
                    return False
                ahead = [x for x in (strip_cast(ct_[2]), strip_cast(ct_[3])) if not is_last(x)][0]
                if not (ahead[0] == 'local' and len(ahead) == 3 and fn.defs.get(ahead[2], {}).get('init')):
                    return False
                it_ = strip_cast(fn.term(fn.defs[ahead[2]]['init'], inline=False))
                def is_first(x):
                    x = strip_cast(x)
                    if x == ('param', 'first'):
                        return True
                    # the parameter of an inlined validation helper bound to `first` (it is advanced by the loop, hence not looked through)
                    return x[0] == 'local' and len(x) == 3 and fn.defs.get(x[2], {}).get('init') and strip_cast(fn.term(fn.defs[x[2]]['init'], inline=False)) == ('param', 'first')
                if not (it_[0] == 'call' and it_[1] == 'std::next' and is_first(it_[2][0])):
                    return False
                hb = [b_ for b_ in gg.reach if gg.cond(b_) and fn.strip(gg.cond(b_)) == fn.strip(nd_['ch'][1])]
                pe = fn.block_of(e)
                return bool(hb) and bool(pe) and gg.dominates(hb[0], pe[0]) and e not in set(fn.walk(i_))
            return False
        obs += check('G5:unsorted', f, 'invalid_argument', cond5, stores,
                     'a bulk-load key smaller than the last stored key is rejected with std::invalid_argument', 'the pair is stored', loop_guard_ok=prepass_ok)
        if not stores:
            raise AnalysisBroken(f"{f.qname}: in-loop store `*out++ = Item(...)` not found")
    # G6: ItemA(key, value)
    for f in ctx.need('pgm::DynamicPGMIndex::ItemA::ItemA', U):
        if len(f.params) != 2:
            continue

        def cond6(t, fn):
            t = strip_cast(t)
            if t[0] == 'op' and t[1] == '==' and len(t) == 4:
                s = {strip_cast(t[2])[0:2], strip_cast(t[3])[0:2]}
                return ('field', 'second') in s and any(x[0] == 'static' and x[1].endswith('tombstone') for x in (strip_cast(t[2]), strip_cast(t[3])))
            return False
        if not [t for t in throws_of(f, 'invalid_argument') if reachable(f, t)]:
            moved = _tombstone_check_moved(ctx, U, f)
            if moved is not None:
                obs += moved
                continue
        o = check('G6:tombstone', f, 'invalid_argument', cond6, [], 'the reserved tombstone value is rejected with std::invalid_argument', 'the item exists')
        # `second` must be the value parameter
        ini = [i for i in f.d.get('inits', []) if i.get('field') == 'second']
        if not (ini and f.term(ini[0]['expr'], inline=True) == ('param', f.params[1]['name'])):
            o.append(Ob('GUARD-DOM', f, 0, 'the tested field is the value argument', 'field second is not initialised from the value parameter', VIOLATED, arm='G6:tombstone'))
        obs += o
    # G7: range(lo, hi)
    for f in ctx.need('pgm::DynamicPGMIndex::range', U):
        eff = [c for c in f.calls() if f.n(c).get('ct', '').startswith('pgm::DynamicPGMIndex::') and f.n(c).get('cn') in ('level', 'pgm', 'merge', 'lower_bound_bl')]
        obs += check('G7:lo>hi', f, 'invalid_argument',
                     lambda t, fn: _is(t, '>', ('param', fn.params[0]['name']), ('param', fn.params[1]['name'])) or _is(t, '<', ('param', fn.params[1]['name']), ('param', fn.params[0]['name'])),
                     eff, 'range(lo, hi) with lo > hi is rejected with std::invalid_argument', 'any level is read')
    # G8: Multidimensional
    for f in ctx.need('pgm::MultidimensionalPGMIndex::RangeIterator::RangeIterator', U):
        if len(f.params) != 3:
            continue
        eff = f.calls_to('pgm::PGMIndex::search')
        Z = lambda n: ('field', n, THIS)
        obs += check('G8:zmin>zmax', f, 'invalid_argument', lambda t, fn: _is(t, '>', Z('zmin'), Z('zmax')) or _is(t, '<', Z('zmax'), Z('zmin')), eff,
                     'a box with min > max is rejected with std::invalid_argument', 'the index is searched')
    # the closure that tests the coordinates: a closure anywhere under the range constructor that throws (the point loop may be a
    # std::for_each closure or a plain loop in the constructor body)
    CT = 'pgm::MultidimensionalPGMIndex::MultidimensionalPGMIndex'
    # ... or under a new helper whose body was inlined into a function under the constructor (rules/inline.py)
    roots = {CT}
    for u_ in U:
        for f in u_.functions.values():
            if f.tname == CT or f.tname.startswith(CT + '::(lambda)'):
                roots |= {x for x in (getattr(f, 'inlined_from', None) or []) if not x.startswith('closure ')}
    inner_fns = [f for u_ in U for f in u_.functions.values() if any(f.tname.startswith(r_ + '::(lambda)') for r_ in roots) and f.name == 'operator()' and
                 any(f.n(i)['c'] == 'CXXThrowExpr' for i in f.all_ids())]
    if not inner_fns:
        raise AnalysisBroken('G8: no closure under the MultidimensionalPGMIndex range constructor throws (anchor vanished)')
    for f in inner_fns:
        def cond8(t, fn):
            atoms = []

            def flat(x):
                x = strip_cast(x)
                if x[0] == 'op' and x[1] == '||':
                    flat(x[2])
                    flat(x[3])
                else:
                    atoms.append(x)
            flat(t)
            covered = set()
            for a in atoms:
                if a[0] == 'op' and a[1] == '>=' and any(s[0] == 'static' and s[1].endswith('FieldBits') for s in subterms(a[3])):
                    for s in subterms(a[2]):
                        if s[0] == 'param':
                            covered.add(s[1])
            width_tests = [a for a in atoms if a[0] == 'op' and a[1] == '>=' and any(s[0] == 'static' and s[1].endswith('FieldBits') for s in subterms(a[3]))
                           and any(s[0] == 'param' for s in subterms(a[2]))]
            return len(width_tests) == len(atoms) == len(fn.params)
        obs += check('G8:coordinate-width', f, 'runtime_error', cond8, [], 'a coordinate too wide for the encoder is rejected (every coordinate tested)', 'it is encoded')
    outer_fns = [f for u_ in U for f in u_.functions.values() if (f.tname == CT or (f.tname.startswith(CT + '::(lambda)') and f.name == 'operator()')) and f.cfg and
                 f.calls(pred=lambda nd: nd.get('cn') == 'apply') and f.calls_to('pgm::MultidimensionalPGMIndex::encode')]
    if not outer_fns:
        raise AnalysisBroken('G8: no function under the MultidimensionalPGMIndex range constructor both checks and encodes a point (anchor vanished)')
    for f in outer_fns:
        g = graph(f)
        ap = [c for c in f.calls(pred=lambda nd: nd.get('cn') == 'apply')]
        enc = f.calls_to('pgm::MultidimensionalPGMIndex::encode')
        ok = bool(ap) and bool(enc) and all(g.before(ap[0], e) for e in enc)
        obs.append(Ob('GUARD-DOM', f, enc[0] if enc else 0, 'the width check runs before the point is encoded and stored',
                      f"std::apply(check) at line {f.n(ap[0])['l'] if ap else '?'} precedes encode at line {f.n(enc[0])['l'] if enc else '?'}: {ok}", OK if ok else VIOLATED, arm='G8:order'))
    # G9: add_point
    for f in ctx.need('pgm::internal::OptimalPiecewiseLinearModel::add_point', U):
        writes = []
        for i in f.all_ids():
            nd = f.n(i)
            tgt = None
            if nd['c'] in ('BinaryOperator', 'CompoundAssignOperator') and nd['op'].endswith('=') and nd['op'] not in ('==', '!=', '<=', '>='):
                tgt = nd['ch'][0]
            elif nd['c'] == 'UnaryOperator' and nd['op'] in ('++', '--'):
                tgt = nd['ch'][0]
            elif nd['c'] == 'CXXOperatorCallExpr' and nd.get('op') == '=':
                tgt = nd['args'][0]
            elif nd['c'] == 'CXXMemberCallExpr' and not nd.get('cconst') and nd.get('obj'):
                tgt = nd['obj']
            if tgt:
                t = f.term(tgt, inline=False)
                while t[0] in ('index', 'field') and t[0] == 'index':
                    t = t[1]
                if t[0] == 'field' and t[2] == THIS:
                    writes.append(i)

        def cond9(t, fn):
            t = strip_cast(t)
            x = ('param', fn.params[0]['name'])
            if t[0] == 'op' and t[1] == '&&':
                a, b = strip_cast(t[2]), strip_cast(t[3])
                for p, q in ((a, b), (b, a)):
                    nonempty = (_is(p, '>', ('field', 'points_in_hull', THIS), ('lit', 0)) or _is(p, '!=', ('field', 'points_in_hull', THIS), ('lit', 0)) or
                                _is(p, '>=', ('field', 'points_in_hull', THIS), ('lit', 1)))
                    notinc = _is(q, '<=', x, ('field', 'last_x', THIS)) or _is(q, '>=', ('field', 'last_x', THIS), x)
                    if nonempty and notinc:
                        return True
            return False
        obs += check('G9:non-increasing-x', f, 'logic_error', cond9, writes,
                     'a key that does not exceed its predecessor inside a segment is rejected with std::logic_error', 'any state of the builder changes')
        # last_x must be maintained: assigned from x on every accepted call (so that the test compares with the true predecessor)
        g = graph(f)
        lx = [w for w in writes if f.term(f.n(w)['ch'][0], inline=False) == ('field', 'last_x', THIS)] if writes else []
        okl = False
        why = 'last_x is never assigned'
        if lx:
            X = ('param', f.params[0]['name'])

            def is_x(t, depth=0):
                # x itself, or the abscissa of a point built from it (p1 = Point{x, y + epsilon}; last_x = p1.x), also through an
                # assignment chain (first_x = last_x = p1.x)
                t = strip_cast(t)
                if t == X:
                    return True
                if t[0] == 'op' and len(t) == 4 and t[1] == '=' and depth < 3:
                    return is_x(t[3], depth + 1)
                if t[0] == 'field' and t[1] == 'x' and depth < 3:
                    b_ = strip_cast(t[2])
                    if b_[0] in ('construct', 'init'):
                        els = b_[2] if b_[0] == 'construct' else b_[1:]
                        return bool(els) and is_x(els[0], depth + 1)
                return False
            goodw = [w for w in lx if is_x(f.term(f.n(w)['ch'][1], inline=True))]
            badw = [w for w in lx if w not in goodw]
            pbs = {f.block_of(w)[0] for w in goodw if f.block_of(w)}
            # on every path to a return that accepts the point (a rejected point is re-added by the caller to a fresh segment,
            # whose first-point path sets last_x)
            acc = [r_ for r_ in f.returns() if f.n(r_)['ch'] and strip_cast(f.term(f.n(r_)['ch'][0], inline=True)) != ('lit', 0) and f.block_of(r_)]
            via = pbs | {b for b in g.reach if g.blocks[b].get('noreturn')} | _throw_blocks(f)
            okl = bool(goodw) and not badw and bool(acc) and all(g.must_pass(g.entry, f.block_of(r_)[0], via) for r_ in acc)
            w = (badw or lx)[0]
            rhs = f.term(f.n(w)['ch'][1], inline=True)
            why = (f"last_x = {fmt_term(rhs)} at line {f.n(w)['l']}" if len(lx) == 1 else f"{len(lx)} assignments of last_x ({len(badw)} not from x)") + f" on every non-throwing path: {okl}"
        obs.append(Ob('GUARD-DOM', f, lx[0] if lx else 0, 'the predecessor key compared against is updated on every accepted point', why, OK if okl else VIOLATED, arm='G9:predecessor'))
    # G10: OptimalPiecewiseLinearModel(epsilon)
    for f in ctx.need('pgm::internal::OptimalPiecewiseLinearModel::OptimalPiecewiseLinearModel', U):
        if len(f.params) != 1 or f.d.get('special') in ('copy_ctor', 'move_ctor'):
            continue
        ts = throws_of(f, 'invalid_argument')
        ok = False
        why = 'no throw std::invalid_argument'
        if ts:
            # the guard may be constant-false (unsigned epsilon): look at the syntactic IfStmt
            for i in f.all_ids():
                nd = f.n(i)
                if nd['c'] == 'IfStmt' and ts[0] in set(f.walk(nd['then'])):
                    ct = strip_cast(f.term(nd['cond'], inline=True))
                    ok = _is(ct, '<', ('param', f.params[0]['name']), ('lit', 0))
                    et = f.unit.base_type(f.params[0]['t'])
                    vac = ' (vacuous: epsilon is unsigned in this instantiation)' if et and not et.get('signed') else ''
                    why = f"throw under `{fmt_term(ct)}`{vac}"
        obs.append(Ob('GUARD-DOM', f, ts[0] if ts else 0, 'a negative epsilon is rejected with std::invalid_argument', why, OK if ok else VIOLATED, arm='G10:negative-epsilon'))
    # G11: C create functions
    if ctx.cpgm is not None:
        n11 = 0
        for f in ctx.cpgm.functions.values():
            if not (f.d.get('extern_c') and f.name.endswith('_create')):
                continue
            n11 += 1
            news = [i for i in f.all_ids() if f.n(i)['c'] == 'CXXNewExpr']
            tries = [i for i in f.all_ids() if f.n(i)['c'] == 'CXXTryStmt']
            f0 = f
            if not news and not tries:
                # the allocation may live in a file-local helper the create function returns the result of
                # (`return new_or_null<T>(a, n, epsilon);`): check the helper's body instead
                rets0 = [r for r in f.returns() if f.n(r)['ch']]
                if len(rets0) == 1:
                    cnode = f.strip(f.n(rets0[0])['ch'][0], casts=True)
                    callee = f.unit.functions.get(f.n(cnode).get('cd')) if f.n(cnode)['c'] == 'CallExpr' else None
                    if callee is not None and callee.file.endswith('cpgm.cpp'):
                        f = callee
                        news = [i for i in f.all_ids() if f.n(i)['c'] == 'CXXNewExpr']
                        tries = [i for i in f.all_ids() if f.n(i)['c'] == 'CXXTryStmt']
            ok = False
            why = 'no try/catch around the construction'
            for t in tries:
                nd = f.n(t)
                inside = all(nw in set(f.walk(nd['try'])) for nw in news) and bool(news)
                hok = False
                for h in nd.get('handlers', []):
                    ht = f.unit.tstr(h['t']) if h['t'] else '...'
                    catches = (h['t'] == 0) or any(x in ht for x in ('invalid_argument', 'logic_error', 'std::exception'))
                    rets = [r for r in f.walk(h['body']) if f.n(r)['c'] in ('ReturnStmt', 'InlinedReturn')]
                    retnull = bool(rets) and all(strip_cast(f.term(f.n(r)['ch'][0], inline=True)) in (('null',), ('lit', 0)) for r in rets)
                    if catches and retnull:
                        hok = True
                ok = inside and hok
                why = f"new inside try: {inside}; handler catches invalid_argument and returns nullptr: {hok}"
            obs.append(Ob('GUARD-DOM', f, news[0] if news else 0, 'std::invalid_argument from the constructor becomes a NULL result', why + ('' if f is f0 else f" (in helper {f.name} called by {f0.name})"),
                          OK if ok else VIOLATED, arm='G11:c-create'))
            f = f0
        if n11 < 8:
            raise AnalysisBroken(f"only {n11} extern C *_create functions found")
    # G12: insert_or_assign: the throwing Item construction is an argument of insert(), hence sequenced before any write
    for f in ctx.need('pgm::DynamicPGMIndex::insert_or_assign', U):
        g = graph(f)
        ins = f.calls_to('pgm::DynamicPGMIndex::insert')
        cons = [c for c in f.calls(pred=lambda nd: nd['c'] in ('CXXConstructExpr', 'CXXTemporaryObjectExpr') and nd.get('rec', '').startswith('pgm::DynamicPGMIndex::Item') and len(nd.get('args', [])) == 2)]
        others = [c for c in f.calls(pred=lambda nd: nd['c'] == 'CXXMemberCallExpr' and not nd.get('cconst')) if c not in ins]
        ok = bool(ins) and bool(cons) and all(g.before(c, ins[0]) for c in cons) and not [o for o in others if g.before(o, cons[0])]
        obs.append(Ob('GUARD-DOM', f, ins[0] if ins else 0, 'a rejected insert leaves the container unchanged: the (possibly throwing) Item is constructed before the first mutating call',
                      f"Item(key, value) constructed before insert(): {ok}", OK if ok else VIOLATED, arm='G12:atomic-reject'))
    return obs


def _tombstone_check_moved(ctx, U, item_ctor):
    """The Item constructor no longer rejects the tombstone.  That is a violation unless the rejection moved to the public entry
    points that store a user value.  insert_or_assign(key, value) is decided here (a throw under `value == tombstone` that
    dominates the insert); for the bulk-load constructor the rejection has to cover every element of the range, a quantified
    fact about a loop that this rule does not decide: undecided, never a pass."""
    def is_tomb(t, pname=None):
        t = strip_cast(t)
        if not (t[0] == 'op' and t[1] == '==' and len(t) == 4):
            return False
        a, b = strip_cast(t[2]), strip_cast(t[3])
        tomb = [x for x in (a, b) if x[0] == 'static' and str(x[1]).endswith('tombstone')]
        other = [x for x in (a, b) if not (x[0] == 'static' and str(x[1]).endswith('tombstone'))]
        if not tomb or not other:
            return False
        return pname is None or other[0] == ('param', pname)
    obs = []
    found_any = False
    for f in ctx.need('pgm::DynamicPGMIndex::insert_or_assign', U):
        if (f.targs.get('V'), f.targs.get('K')) != (item_ctor.targs.get('V'), item_ctor.targs.get('K')):
            continue
        ins = f.calls_to('pgm::DynamicPGMIndex::insert')
        vname = f.params[1]['name'] if len(f.params) == 2 else None
        good = None
        for t in throws_of(f, 'invalid_argument'):
            if not reachable(f, t):
                continue
            gb, c = guard_of(f, t)
            if gb is not None and is_tomb(f.term(c, inline=True), vname):
                good = (t, gb, c)
        if good is None:
            continue
        found_any = True
        late = [e for e in ins if reachable(f, e) and not dominates_node(f, good[1], e)]
        obs.append(Ob('GUARD-DOM', f, good[0], 'the reserved tombstone value is rejected with std::invalid_argument before the item is inserted',
                      f"throw under `{fmt_term(f.term(good[2], inline=False))[:80]}`" + (f"; does not dominate insert() at line {f.n(late[0])['l']}" if late else '; dominates insert()'),
                      VIOLATED if late or not ins else OK, arm='G6:tombstone'))
    if not found_any:
        return None         # nothing moved: the ordinary report (no throw in the Item constructor) stands
    for f in ctx.need('pgm::DynamicPGMIndex::DynamicPGMIndex', U):
        if not {'first', 'last'} <= {p_['name'] for p_ in f.params} or (f.targs.get('V'), f.targs.get('K')) != (item_ctor.targs.get('V'), item_ctor.targs.get('K')):
            continue
        has = any(reachable(f, t) and guard_of(f, t)[0] is not None and is_tomb(f.term(guard_of(f, t)[1], inline=True)) for t in throws_of(f, 'invalid_argument'))
        cov = _tombstone_coverage(f, is_tomb) if has else None
        if cov is not None and cov[0] is True:
            obs.append(Ob('GUARD-DOM', f, 0, 'every value of a bulk-loaded range is tested against the tombstone before it is stored',
                          'the Item constructor no longer rejects it; ' + cov[1], OK, arm='G6:tombstone'))
        elif cov is not None and cov[0] is False:
            obs.append(Ob('GUARD-DOM', f, cov[2], 'every value of a bulk-loaded range is tested against the tombstone before it is stored',
                          'the Item constructor no longer rejects it; ' + cov[1], VIOLATED, arm='G6:tombstone'))
        else:
            obs.append(Ob('GUARD-DOM', f, 0, 'every value of a bulk-loaded range is tested against the tombstone before it is stored',
                          ('a tombstone test exists in the constructor' if has else 'no tombstone test in the constructor') +
                          '; the Item constructor no longer rejects it, and whether the test covers every element of the range is a fact about a loop that this rule does not decide',
                          UNDECIDED if has else VIOLATED, arm='G6:tombstone'))
    return obs


def _advance_together(fn, a, b):
    """the only modifications of the two iterators are ++ in the increment of one and the same for statement"""
    for i in fn.all_ids():
        nd = fn.n(i)
        if nd['c'] == 'ForStmt' and len(nd['ch']) == 4:
            incs = [strip_cast(fn.term(fn.n(j)['ch'][0] if fn.n(j)['c'] == 'UnaryOperator' else fn.n(j)['args'][0], inline=False))
                    for j in fn.walk(nd['ch'][2]) if (fn.n(j)['c'] == 'UnaryOperator' and fn.n(j).get('op') == '++') or (fn.n(j)['c'] == 'CXXOperatorCallExpr' and fn.n(j).get('op') == '++')]
            if a in incs and b in incs:
                inc_nodes = set(fn.walk(nd['ch'][2]))
                others = []
                for v in (a, b):
                    d = fn.defs.get(v[2], {}) if v[0] == 'local' and len(v) == 3 else {}
                    others += [w for w in d.get('writes', []) if w not in inc_nodes]
                # a parameter (first) has no entry in defs: look for writes to it by name
                return not others
    return False


def _tombstone_coverage(f, is_tomb):
    """Which elements of [first, last) reach a tombstone test `x->second == tombstone` in a validation pass written with iterators
    that only advance by ++: positions are affine in the iteration count (first -> 0, std::next(first) -> 1, last -> L; a loop
    `for (...; c != last; ++a, ++b)` runs L - c0 times), so the set of tested positions is computed for L = 1..6 and compared
    with {0..L-1}.  (True, text) | (False, text, node) | None when the shape is not this one."""
    g = graph(f)
    FIRST, LAST = ('param', 'first'), ('param', 'last')

    def pos0(t, depth=0):
        # position of an iterator expression outside any loop, as (offset, uses_L)
        t = strip_cast(t)
        if t == FIRST:
            return 0
        if t[0] == 'call' and t[1] == 'std::next' and len(t[2]) in (1, 2):
            b = pos0(t[2][0], depth + 1)
            k = strip_cast(t[2][1]) if len(t[2]) == 2 else ('lit', 1)
            return None if b is None or k[0] != 'lit' else b + k[1]
        if t[0] == 'op' and len(t) == 4 and t[1] == '+' and strip_cast(t[3])[0] == 'lit':
            b = pos0(t[2], depth + 1)
            return None if b is None else b + strip_cast(t[3])[1]
        if t[0] == 'local' and len(t) == 3 and depth < 4:
            d = f.defs.get(t[2], {})
            if d.get('init'):
                return pos0(f.term(d['init'], inline=False), depth + 1)
        return None

    tests = []      # (node, iterator variable term)
    for t in throws_of(f, 'invalid_argument'):
        if not reachable(f, t):
            continue
        gb, c = guard_of(f, t)
        if gb is None:
            continue
        ct = strip_cast(f.term(c, inline=True))
        if not is_tomb(ct):
            continue
        other = [x for x in (strip_cast(ct[2]), strip_cast(ct[3])) if not (x[0] == 'static')]
        if len(other) != 1:
            return None
        x = other[0]
        # (*it).second / it->second
        if x[0] == 'field' and x[1] == 'second' and strip_cast(x[2])[0] == 'deref':
            tests.append((c, strip_cast(strip_cast(x[2])[1]), gb))
        else:
            return None
    if not tests:
        return None
    # the loops of the function and their increments
    loops = []
    for i in f.all_ids():
        nd = f.n(i)
        if nd['c'] == 'ForStmt' and len(nd['ch']) == 4:
            init, cond, inc, body = nd['ch']
            incs = []
            st = [inc]
            okinc = True
            while st:
                j = f.strip(st.pop())
                nj = f.n(j)
                if nj['c'] == 'BinaryOperator' and nj.get('op') == ',':
                    st.extend(nj['ch'])
                elif (nj['c'] == 'UnaryOperator' and nj.get('op') == '++') or (nj['c'] == 'CXXOperatorCallExpr' and nj.get('op') == '++'):
                    incs.append(strip_cast(f.term(nj['ch'][0] if nj['c'] == 'UnaryOperator' else nj['args'][0], inline=False)))
                else:
                    okinc = False
            ct = strip_cast(f.term(cond, inline=False))
            if not okinc or not (ct[0] == 'op' and len(ct) == 4 and ct[1] in ('!=', '<')):
                continue
            a, b = strip_cast(ct[2]), strip_cast(ct[3])
            if b != LAST:
                a, b = b, a
            if b != LAST or a not in incs:
                continue
            loops.append({'node': i, 'body': set(f.walk(body)), 'cond_var': a, 'incs': incs, 'init': init})
    if len(loops) > 3:
        return None

    def var_init(v, loop):
        # value of iterator variable v when the loop starts: declared in the for-init, a parameter advanced by nothing before, or a local
        if v == FIRST:
            # `first` itself may be advanced by an earlier loop: not handled
            return 0
        return pos0(v)
    bad = None
    for L in range(1, 7):
        tested = set()
        for (c, v, gb) in tests:
            inside = [lp for lp in loops if c in lp['body']]
            if not inside:
                p0 = pos0(v)
                if p0 is None:
                    return None
                if 0 <= p0 < L:
                    tested.add(p0)
                continue
            lp = inside[0]
            c0 = var_init(lp['cond_var'], lp)
            v0 = var_init(v, lp)
            if c0 is None or v0 is None or v not in lp['incs']:
                return None
            for t_ in range(0, max(0, L - c0)):
                p_ = v0 + t_
                if 0 <= p_ < L:
                    tested.add(p_)
                elif p_ >= L:
                    return None     # a test past the end: END-GUARD's business, not coverage
        missing = sorted(set(range(L)) - tested)
        if missing and bad is None:
            bad = (L, missing)
    if bad:
        return (False, f"with {bad[0]} element(s) the validation pass tests the values at position(s) {sorted(set(range(bad[0])) - set(bad[1]))} only: "
                       f"position {bad[1][0]}" + (' (the last element)' if bad[1][0] == bad[0] - 1 else '') + ' is stored without a tombstone test', tests[0][0])
    return (True, f"the validation pass tests every position of the range (affine iterator model, ranges of 1..6 elements, {len(tests)} test site(s))")


def _throw_blocks(fn):
    out = set()
    for i in fn.all_ids():
        if fn.n(i)['c'] == 'CXXThrowExpr':
            p = fn.block_of(i)
            if p:
                out.add(p[0])
    return out
