"""Reaching definitions of locals over the exported CFG.

A definition of a local v is its declaration (with or without initialiser) or any node listed in Fn.defs[v]['writes']
(assignments, ++/--, compound assignments, passing by non-const reference, non-const member calls).  For a use at CFG
position p, reaching(fn, v, p) is the set of definition nodes that may be the last one executed before p.

same_value(fn, term, a, b): every local with more than one definition that occurs in `term` has the same, single reaching
definition at the CFG elements a and b - the term denotes the same value at both points (no intervening redefinition).
"""
from cfg import graph


def _def_nodes(fn, vid):
    d = fn.defs.get(vid)
    if not d:
        return []
    out = []
    if d.get('decl'):
        out.append(d['decl'])
    out += list(d.get('writes', []))
    return out


def _positions(fn, nodes):
    pos = {}
    for n in nodes:
        p = fn.block_of(n)
        if p:
            pos[n] = p
    return pos


def reaching(fn, vid, at):
    """definition nodes of local `vid` that reach CFG element `at` (node id); None if `at` has no CFG position"""
    g = graph(fn)
    p = fn.block_of(at)
    if not p:
        return None
    defs = _positions(fn, _def_nodes(fn, vid))
    by_block = {}
    for n, (b, k) in defs.items():
        by_block.setdefault(b, []).append((k, n))
    for b in by_block:
        by_block[b].sort()
    # last definition before `at` in its own block
    here = [n for (k, n) in by_block.get(p[0], []) if k < p[1]]
    if here:
        return {here[-1]}
    out_ = {}
    for b in g.reach:
        ds = by_block.get(b)
        out_[b] = ({ds[-1][1]}, True) if ds else (set(), False)
    IN = {b: set() for b in g.reach}
    changed = True
    while changed:
        changed = False
        for b in g.reach:
            s = set()
            for q in g.pred[b]:
                if q in g.reach:
                    gen, kills = out_[q]
                    s |= gen if kills else IN[q]
            if s != IN[b]:
                IN[b] = s
                changed = True
    return IN[p[0]]


def multi_def_locals(fn, term):
    out = set()
    st = [term]
    while st:
        t = st.pop()
        if isinstance(t, tuple):
            if t and t[0] == 'local' and len(t) == 3:
                out.add(t[2])
            else:
                st.extend(x for x in t if isinstance(x, tuple))
    return out


def _elem_succ(fn):
    """element-level successor function over CFG positions (block id, index)"""
    g = graph(fn)
    first = {}

    def first_of(b, seen=()):
        if b in first:
            return first[b]
        blk = g.blocks[b]
        if blk['elems']:
            r = [(b, 0)]
        else:
            r = []
            for s_ in g.succ[b]:
                if s_ is not None and s_ not in seen:
                    r += first_of(s_, tuple(seen) + (b,))
        first[b] = r
        return r

    def succ(p):
        b, k = p
        if k + 1 < len(g.blocks[b]['elems']):
            return [(b, k + 1)]
        out = []
        for s_ in g.succ[b]:
            if s_ is not None:
                out += first_of(s_)
        return out
    return succ


def _reach_elems(succ, start, stop):
    """positions reachable from `start` by one or more steps, never continuing through `stop`"""
    seen = set()
    st = list(succ(start))
    while st:
        p = st.pop()
        if p in seen:
            continue
        seen.add(p)
        if p == stop:
            continue
        st.extend(succ(p))
    return seen


def redefined_between(fn, vid, a, b):
    """is there an execution a ... d ... b, not passing a again, with d a definition of local vid?  None if positions unknown"""
    pa, pb = fn.block_of(a), fn.block_of(b)
    if not pa or not pb:
        return None
    succ = _elem_succ(fn)
    A = _reach_elems(succ, pa, pa)
    if pb not in A:
        return None
    for d in _def_nodes(fn, vid):
        pd = fn.block_of(d)
        if not pd or pd == pa or pd == pb or pd not in A:
            continue
        if pb in _reach_elems(succ, pd, pa):
            return True
    return False


def same_value(fn, term, a, b):
    """the term denotes at CFG element b the value it had at CFG element a: no local occurring in it is redefined on a path
    from a to b.  True / False / None (None: a position is unknown or b does not follow a)"""
    res = True
    for vid in multi_def_locals(fn, term):
        r = redefined_between(fn, vid, a, b)
        if r is None:
            res = None
        elif r:
            return False
    return res
