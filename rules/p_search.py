"""Search-contract family: RANGE-FORM, CLAMP, CAP, KIND, WINDOW-FORM, AGREE-EPS for
PGMIndex (C01/C02/C07), CompressedPGMIndex (C08), BucketingPGMIndex (C09), EliasFanoPGMIndex (C10) and the C
wrapper's PGMWrapper (C18)."""
import form
import kinds
from cfg import graph
from common import Ob, OK, VIOLATED, UNDECIDED, AnalysisBroken
from ir import canon_minmax, fmt_term, expand_calls

THIS = ('this',)
N_FIELD = ('field', 'n', THIS)
FIRST_KEY = ('field', 'first_key', THIS)

CLASSES = {
    'pgm': 'pgm::PGMIndex',
    'compressed': 'pgm::CompressedPGMIndex',
    'bucketing': 'pgm::BucketingPGMIndex',
    'eliasfano': 'pgm::EliasFanoPGMIndex',
    'wrapper': 'PGMWrapper',
}


def subterms(t):
    if isinstance(t, tuple):
        if t and isinstance(t[0], str):
            yield t
        for x in t:
            if isinstance(x, tuple):
                yield from subterms(x)


def contains(t, sub):
    return any(s == sub for s in subterms(t))


def reachable(fn, node):
    pos = fn.block_of(node)
    return bool(pos) and pos[0] in graph(fn).reach


def is_clamp(t, keyname):
    """std::max(first_key, key) in either order"""
    t = canon_minmax(_strip_cast(t))
    if t[0] == 'call' and t[1] == 'std::max' and len(t[2]) == 2:
        a, b = t[2]
        return {a, b} == {FIRST_KEY, ('param', keyname)}
    return False


def eps_symbol(which):
    if which == 'wrapper':
        return ('field', 'epsilon', THIS)
    return ('tparam', 'Epsilon')


def norm_tparams(t):
    """drop the instantiation's value from tparam symbols so that terms compare by symbol"""
    if isinstance(t, tuple):
        if t and t[0] == 'tparam':
            return ('tparam', t[1])
        return tuple(norm_tparams(x) for x in t)
    return t


def unwrap_expect(t):
    """look through casts and __builtin_expect(x, c)"""
    while isinstance(t, tuple) and t:
        if t[0] == 'cast':
            t = t[2]
        elif t[0] == 'call' and t[1] == '__builtin_expect' and t[2]:
            t = t[2][0]
        else:
            break
    return t


def _orient(t):
    """comparisons with the query key on the left: `first_key > key` -> `key < first_key`"""
    if isinstance(t, tuple) and len(t) == 4 and t[0] == 'op' and t[1] in ('<', '>', '<=', '>='):
        a, b = _strip_cast(t[2]) if False else t[2], t[3]
        if b[0] == 'param' and a[0] != 'param':
            return ('op', {'<': '>', '>': '<', '<=': '>=', '>=': '<='}[t[1]], b, a)
    return t


def replace(t, old, new):
    if t == old:
        return new
    if isinstance(t, tuple):
        return tuple(replace(x, old, new) for x in t)
    return t


def _writes_between(fn, var_id, start_node, use_node):
    """is there a write to local var_id on some CFG path from start_node to use_node?"""
    g = graph(fn)
    d = fn.defs.get(var_id)
    if not d:
        return False
    ps, pu = fn.block_of(start_node), fn.block_of(use_node)
    if not ps or not pu:
        return True
    for w in d['writes']:
        pw = fn.block_of(w)
        if not pw:
            continue
        # start -> w
        if pw[0] == ps[0] and pw[1] > ps[1]:
            a = True
        else:
            a = any(s is not None and pw[0] in g.reachable_from(s) for s in g.succ[ps[0]])
        if not a:
            continue
        if pw[0] == pu[0] and pw[1] < pu[1]:
            b = True
        else:
            b = any(s is not None and pu[0] in g.reachable_from(s) for s in g.succ[pw[0]])
        if b:
            return True
    return False


def stable_inline(fn, node):
    """True if replacing single-definition locals by their initialisers in the term of `node` is sound: no
    multi-definition local read by an inlined initialiser is written between that initialiser and `node`"""
    todo = [node]
    seen = set()
    while todo:
        x = todo.pop()
        for i in fn.walk(x):
            nd = fn.n(i)
            if nd['c'] == 'DeclRefExpr' and nd.get('dk') in ('local', 'binding'):
                v = nd['d']
                init = fn.single_def(v)
                if init:
                    if v in seen:
                        continue
                    seen.add(v)
                    decl = fn.defs[v].get('decl')
                    # every multi-def local read inside init must be unchanged from decl to node
                    for j in fn.walk(init):
                        nj = fn.n(j)
                        if nj['c'] == 'DeclRefExpr' and nj.get('dk') == 'local' and not fn.single_def(nj['d']):
                            if _writes_between(fn, nj['d'], decl, node):
                                return False
                    todo.append(init)
    return True


# ------------------------------------------------------------------------------------------ RANGE-FORM
def _ret_triple(fn, r):
    ch = fn.n(r)['ch']
    if not ch:
        return None
    e = fn.strip(ch[0])
    nd = fn.n(e)
    if nd['c'] == 'InitListExpr' and len(nd['ch']) == 3:
        return nd['ch']
    if nd['c'] in ('CXXConstructExpr', 'CXXTemporaryObjectExpr') and len(nd.get('args', [])) == 3:
        return nd['args']
    return None


def _ret_triple_via_closure(fn, r):
    """`return make(P)` where make is a local closure with one parameter whose body is `return {a, b, c}`: the three terms with the
    parameter replaced by the argument"""
    ch = fn.n(r)['ch']
    if not ch:
        return None
    t = _strip_cast(fn.term(ch[0], inline=False))
    te = _strip_cast(fn.term(ch[0], inline=True))
    # the closure may already have been looked through by Fn.term()
    if te[0] == 'init' and len(te) == 4:
        return te[1:]
    if te[0] == 'construct' and len(te[2]) == 3:
        return tuple(te[2])
    if not (t[0] == 'call' and len(t) == 4 and isinstance(t[3], tuple) and t[3] and t[3][0] == 'local' and len(t[2]) == 1):
        return None
    d = fn.defs.get(t[3][2], {})
    if not d.get('init'):
        return None
    ln = fn.n(d['init'])['l']
    cands = [g for g in fn.unit.functions.values() if g.d.get('parent_fn') == fn.id and g.d.get('line') == ln and g.name == 'operator()' and len(g.params) == 1]
    if len(cands) != 1:
        return None
    g = cands[0]
    rets = [x for x in g.returns() if g.n(x)['ch']]
    if len(rets) != 1:
        return None
    tri = _ret_triple(g, rets[0])
    if not tri:
        return None
    arg = fn.term(fn.n(fn.strip(ch[0])).get('args', [None, None])[-1], inline=True) if fn.n(fn.strip(ch[0])).get('args') else None
    if arg is None:
        return None
    pn = ('param', g.params[0]['name'])

    def sub(x):
        if isinstance(x, tuple):
            if x == pn:
                return arg
            return tuple(sub(y) for y in x)
        return x
    return tuple(sub(g.term(x, inline=True)) for x in tri)


def rule_range_form(ctx, which, units=None):
    """returned ApproxPos is {P, SUB(P,E), ADD(P,E,n)} (or a guarded empty range for Bucketing's early exits)"""
    obs = []
    cls = CLASSES[which]
    E = eps_symbol(which)
    fs = ctx.need(cls + '::search', units)
    for f in fs:
        g = graph(f)
        rets = [r for r in f.returns() if reachable(f, r)]
        if not rets:
            raise AnalysisBroken(f"{f.qname}: no reachable return")
        keyname = f.params[0]['name']
        for r in rets:
            tri = _ret_triple(f, r)
            if tri:
                A, B, C = (norm_tparams(expand_calls(f.unit, f.term(x, inline=True))) for x in tri)
            else:
                via = _ret_triple_via_closure(f, r)
                if not via:
                    obs.append(Ob('RANGE-FORM', f, r, 'return {pos, lo, hi}', 'return value is not a three-field aggregate', UNDECIDED, arm='ret'))
                    continue
                A, B, C = (norm_tparams(expand_calls(f.unit, x)) for x in via)
            if tri and not stable_inline(f, r):
                obs.append(Ob('RANGE-FORM', f, r, 'lo/hi computed from the returned pos', 'pos is modified between the computation of lo/hi and the return', VIOLATED, arm='ret'))
                continue
            if A == B == C:
                # early exit: empty range; must be guarded by the matching out-of-domain test
                pos = f.block_of(r)
                deps = g.transitive_control_deps(pos[0]) if pos else set()
                conds = []
                for (b, lab) in deps:
                    c = g.cond(b)
                    if c:
                        conds.append((norm_tparams(f.term(c, inline=True)), lab))

                def has(opset, other):
                    for (t, lab) in conds:
                        # look through __builtin_expect(x, 0)
                        tt = unwrap_expect(t)
                        if tt[0] == 'op' and len(tt) == 4 and lab is True:
                            if (tt[1], tt[2], tt[3]) in opset:
                                return True
                    return False
                K = ('param', keyname)
                LK = ('field', 'last_key', THIS)
                if A == ('lit', 0):
                    ok = has({('<', K, FIRST_KEY), ('>', FIRST_KEY, K)}, None)
                    req = '{0,0,0} only under key < first_key'
                elif A == N_FIELD:
                    ok = has({('>', K, LK), ('<', LK, K)}, None)
                    req = '{n,n,n} only under key > last_key'
                else:
                    ok = False
                    req = 'an empty range only at 0 (below the first key) or n (above the last key)'
                if not ok:
                    # decide it semantically over the two atoms a = (key < first_key), b = (key > last_key): on every assignment the
                    # path condition admits, the value is 0 when a holds and n when b holds, and (not a, not b) is excluded
                    def atom(t):
                        t = _orient(unwrap_expect(_strip_cast(t)))
                        if t in (('op', '<', K, FIRST_KEY),):
                            return 'a'
                        if t in (('op', '>', K, LK),):
                            return 'b'
                        return None

                    def ev(t, env):
                        t = unwrap_expect(_strip_cast(t))
                        at = atom(t)
                        if at:
                            return env[at]
                        if t[0] == 'un' and t[1] == '!':
                            v = ev(t[2], env)
                            return None if v is None else (not v)
                        if t[0] == 'op' and len(t) == 4 and t[1] in ('&&', '||'):
                            x, y = ev(t[2], env), ev(t[3], env)
                            if x is None or y is None:
                                return None
                            return (x and y) if t[1] == '&&' else (x or y)
                        return None

                    def val(t, env):
                        t = _strip_cast(t)
                        if t == ('lit', 0):
                            return 0
                        if t == N_FIELD:
                            return 'n'
                        if t[0] == 'cond' and len(t) == 4:
                            c_ = ev(t[1], env)
                            return None if c_ is None else val(t[2] if c_ else t[3], env)
                        return None
                    verdict = True
                    for env in ({'a': True, 'b': False}, {'a': False, 'b': True}, {'a': False, 'b': False}):
                        pcs = [ev(t, env) if lab else (None if ev(t, env) is None else not ev(t, env)) for (t, lab) in conds]
                        if any(x is None for x in pcs):
                            verdict = None
                            break
                        if not all(pcs):
                            continue
                        v = val(A, env)
                        if v is None:
                            verdict = None
                            break
                        if (not env['a'] and not env['b']) or (env['a'] and v != 0) or (env['b'] and v != 'n'):
                            verdict = False
                            break
                    if verdict is True:
                        ok = True
                        req = 'an empty range only at 0 (below the first key) or n (above the last key)'
                    elif verdict is None:
                        obs.append(Ob('RANGE-FORM', f, r, req, f"{{{fmt_term(A)}, ...}} guarded by " + ' & '.join(fmt_term(t) + ('' if lab else ' false') for t, lab in conds) + ' (unrecognised shape)',
                                      UNDECIDED, arm='early-exit'))
                        continue
                obs.append(Ob('RANGE-FORM', f, r, req, f"{{{fmt_term(A)}, ...}} guarded by " + ' & '.join(fmt_term(t) + ('' if lab else ' false') for t, lab in conds),
                              OK if ok else VIOLATED, arm='early-exit'))
                continue
            # the position estimate is one opaque quantity P for the range arithmetic
            P = ('sym', 'P')
            B, C = replace(B, A, P), replace(C, A, P)
            try:
                ok1, why1 = form.equivalent(B, form.SUB(P, E))
                ok2, why2 = form.equivalent(C, form.ADD(P, E, N_FIELD))
            except form.Unrecognised as e:
                obs.append(Ob('RANGE-FORM', f, r, 'lo == SUB(pos,Epsilon), hi == ADD(pos,Epsilon,n)', f'unrecognised shape: {e}', UNDECIDED, arm='ret'))
                continue
            pa = fmt_term(A)
            pa = pa if len(pa) < 60 else pa[:57] + '...'
            if ok1 and ok2:
                obs.append(Ob('RANGE-FORM', f, r, f'{{P, P<=E?0:P-E, P+E+2>=n?n:P+E+2}} with E={fmt_term(E)}',
                              f"P={pa}; lo and hi are equivalent to the specification forms (hence lo<=pos, hi<=n, hi-lo<=2E+2)", OK, arm='ret'))
            else:
                bad = []
                if not ok1:
                    bad.append(f"lo = {fmt_term(B)[:160]} differs from P<=E?0:P-E ({why1})")
                if not ok2:
                    bad.append(f"hi = {fmt_term(C)[:160]} differs from P+E+2>=n?n:P+E+2 ({why2})")
                obs.append(Ob('RANGE-FORM', f, r, f'{{P, P<=E?0:P-E, P+E+2>=n?n:P+E+2}} with E={fmt_term(E)}, P={pa}', '; '.join(bad), VIOLATED, arm='ret'))
    return obs


# ------------------------------------------------------------------------------------------ CLAMP
def rule_clamp(ctx, which, units=None):
    """the raw query key only feeds std::max(first_key, key) (or, for Bucketing, is guarded by the two early exits);
    the forward-scan comparison `*next(lo) <= key` is the one allowed raw use"""
    obs = []
    cls = CLASSES[which]
    for f in ctx.need(cls + '::search', units):
        g = graph(f)
        keyname = f.params[0]['name']
        kid = f.params[0]['id']
        uses = [i for i in f.all_ids() if f.n(i)['c'] == 'DeclRefExpr' and f.n(i).get('d') == kid and reachable(f, i)]
        if not uses:
            raise AnalysisBroken(f"{f.qname}: the key parameter is never used")
        n_clamp = 0
        for u in uses:
            # climb to the enclosing call / comparison
            p = f.sparent(u)
            ctxt = None
            while p:
                nd = f.n(p)
                if nd['c'] in ('CallExpr', 'CXXMemberCallExpr', 'CXXOperatorCallExpr', 'BinaryOperator', 'CXXConstructExpr'):
                    ctxt = p
                    break
                p = f.sparent(p)
            t = norm_tparams(f.term(ctxt, inline=False)) if ctxt else ('none',)
            # the clamp may be written as its defining ternary: look at the enclosing conditional expressions too
            q = f.sparent(u)
            while q and not (ctxt and is_clamp(t, keyname)):
                if f.n(q)['c'] == 'ConditionalOperator':
                    tq = canon_minmax(norm_tparams(f.term(q, inline=False)))
                    if is_clamp(tq, keyname):
                        ctxt, t = q, tq
                        break
                q = f.sparent(q)
            if ctxt and is_clamp(t, keyname):
                n_clamp += 1
                obs.append(Ob('CLAMP', f, u, 'raw key used only inside std::max(first_key, key)', fmt_term(t), OK, arm='clamp'))
                continue
            if which == 'bucketing':
                # guarded use: dominated by the false edges of `key < first_key` and `key > last_key`
                pos = f.block_of(u)
                lo_ok = hi_ok = False
                K = ('param', keyname)
                # the tests themselves
                tn = _orient(unwrap_expect(t))
                if tn in (('op', '<', K, FIRST_KEY), ('op', '>', K, ('field', 'last_key', THIS))):
                    obs.append(Ob('CLAMP', f, u, 'out-of-domain test', fmt_term(t), OK, arm='domain-test'))
                    continue
                for b in g.reach:
                    c = g.cond(b)
                    if not c:
                        continue
                    ct = norm_tparams(f.term(c, inline=True))
                    ct = _orient(unwrap_expect(ct))
                    fe = g.succ[b][1] if len(g.succ[b]) == 2 else None
                    te = g.succ[b][0] if len(g.succ[b]) == 2 else None
                    if fe is None or not pos:
                        continue
                    # use is only reachable through the false edge: blocking the false successor cuts it off
                    only_false = not g.paths_exist(g.entry, pos[0], blocked=[fe]) if fe != pos[0] else True
                    true_returns = te is not None and not g.paths_exist(te, pos[0])
                    if ct == ('op', '<', K, FIRST_KEY) and (only_false and true_returns):
                        lo_ok = True
                    if ct == ('op', '>', K, ('field', 'last_key', THIS)) and (only_false and true_returns):
                        hi_ok = True
                    # one merged test `key < first_key || key > last_key`: its false edge excludes both
                    if ct[0] == 'op' and ct[1] == '||' and len(ct) == 4 and (only_false and true_returns):
                        parts = {_orient(unwrap_expect(_strip_cast(ct[2]))), _orient(unwrap_expect(_strip_cast(ct[3])))}
                        if ('op', '<', K, FIRST_KEY) in parts:
                            lo_ok = True
                        if ('op', '>', K, ('field', 'last_key', THIS)) in parts:
                            hi_ok = True
                st = OK if (lo_ok and hi_ok) else VIOLATED
                obs.append(Ob('CLAMP', f, u, 'key used only after both early exits (key < first_key, key > last_key) were not taken',
                              f"use in `{fmt_term(t)[:100]}`: below-first test passed={lo_ok}, above-last test passed={hi_ok}", st, arm='guarded-use'))
                continue
            # allowed raw use: forward-scan loop condition
            if ctxt:
                pb = f.block_of(ctxt)
                sc = None
                for b in g.reach:
                    c = g.cond(b)
                    if c and kinds._scan_cond(f, c) and contains(norm_tparams(f.term(c, inline=False)), ('param', keyname)) and c in set(f.walk(c)) and u in set(f.walk(c)):
                        sc = c
                if sc:
                    obs.append(Ob('CLAMP', f, u, 'raw key allowed in the forward-scan test `*next(lo) <= key` (a smaller key only stops the scan earlier)',
                                  fmt_term(norm_tparams(f.term(sc, inline=False))), OK, arm='scan'))
                    continue
            obs.append(Ob('CLAMP', f, u, 'raw key used only to form std::max(first_key, key)',
                          f"unclamped key reaches `{fmt_term(t)[:140]}`", VIOLATED, arm='raw-use'))
        if which != 'bucketing' and n_clamp == 0:
            obs.append(Ob('CLAMP', f, 0, 'k = std::max(first_key, key)', 'no clamp of the query key found', VIOLATED, arm='clamp'))
    return obs


# ------------------------------------------------------------------------------------------ CAP
def _succ_designator(m, i):
    """is designator i the successor of designator m?"""
    def one(t):
        return t == ('lit', 1)
    # deref(S)  ->  deref(next(S))
    if m[0] == 'deref' and i[0] == 'deref':
        s = m[1]
        n = i[1]
        if n[0] == 'call' and n[1] == 'std::next' and n[2] and n[2][0] == s and (len(n[2]) == 1 or one(n[2][1])):
            return True
        if n[0] == 'op' and len(n) == 4 and n[1] == '+' and n[2] == s and one(n[3]):
            return True
    if m[0] == 'index' and i[0] == 'index' and m[1] == i[1]:
        a, b = m[2], i[2]
        if b[0] == 'op' and len(b) == 4 and b[1] == '+' and ((b[2] == a and one(b[3])) or (b[3] == a and one(b[2]))):
            return True
        # casts around the index
        if b[0] == 'cast':
            return _succ_designator(m, ('index', i[1], b[2]))
    return False


def _strip_cast(t):
    while isinstance(t, tuple) and t and t[0] == 'cast':
        t = t[2]
    return t


def cap_check(P):
    """P must be std::min(M, I): returns (ok, description, key term used by the model)"""
    P = canon_minmax(_strip_cast(P))
    if not (P[0] == 'call' and P[1] == 'std::min' and len(P[2]) == 2):
        return False, 'position is not std::min(model(key), next segment intercept): ' + fmt_term(P)[:120], None
    M, I = _strip_cast(P[2][0]), _strip_cast(P[2][1])
    # PGMIndex/Bucketing: (*it)(k) vs next(it)->intercept
    if M[0] == 'call' and M[1] == 'pgm::PGMIndex::Segment::operator()' and len(M[2]) == 1:
        seg = M[3]
        if I[0] == 'field' and I[1] == 'intercept' and _succ_designator(seg, I[2]):
            return True, f"min(model of {fmt_term(seg)[:50]} at {fmt_term(M[2][0])[:40]}, intercept of its successor)", M[2][0]
        return False, f"cap `{fmt_term(I)[:100]}` is not the intercept of the successor of the segment `{fmt_term(seg)[:60]}` the model belongs to", M[2][0]
    # EliasFano: segments[r](origin + first_key, k) vs segments[r+1].intercept
    if M[0] == 'call' and M[1] == 'pgm::EliasFanoPGMIndex::SegmentData::operator()' and len(M[2]) == 2:
        seg = M[3]
        if I[0] == 'field' and I[1] == 'intercept' and _succ_designator(seg, I[2]):
            return True, f"min(model of {fmt_term(seg)[:50]}, intercept of its successor)", M[2][1]
        return False, f"cap `{fmt_term(I)[:100]}` is not the intercept of the successor of `{fmt_term(seg)[:60]}`", M[2][1]
    # Compressed: level(slopes_table, i, k) vs level.get_intercept(i + 1)
    if M[0] == 'call' and M[1] == 'pgm::CompressedPGMIndex::CompressedLevel::operator()' and len(M[2]) == 3:
        def _nc(t):
            # integral conversions of an index (size_t parameter of a helper) do not change which segment it designates
            if isinstance(t, tuple):
                if t and t[0] == 'cast' and len(t) == 3:
                    return _nc(t[2])
                return tuple(_nc(x) for x in t)
            return t
        lvl, idx = M[3], _nc(_strip_cast(M[2][1]))
        if I[0] == 'call' and I[1] == 'pgm::CompressedPGMIndex::CompressedLevel::get_intercept' and _nc(I[3]) == _nc(lvl) and len(I[2]) == 1:
            j = _nc(_strip_cast(I[2][0]))
            if j[0] == 'op' and len(j) == 4 and j[1] == '+' and ((_strip_cast(j[2]) == idx and j[3] == ('lit', 1)) or (_strip_cast(j[3]) == idx and j[2] == ('lit', 1))):
                return True, f"min(model of segment {fmt_term(idx)[:40]} of {fmt_term(lvl)[:30]}, get_intercept(same index + 1))", M[2][2]
        return False, f"cap `{fmt_term(I)[:100]}` is not get_intercept(i + 1) of the level/index `{fmt_term(lvl)[:30]}`/`{fmt_term(idx)[:40]}` the model uses", M[2][2]
    return False, 'unrecognised model evaluation: ' + fmt_term(M)[:120], None


def _pos_sites(fn):
    """node ids whose term is a std::min<size_t>(...) position estimate (declarations and assignments of `pos`)"""
    out = []
    for i in fn.calls_to('std::min'):
        if not reachable(fn, i):
            continue
        t = fn.term(i, inline=False)
        if len(t[2]) == 2:
            out.append(i)
    # the same minimum written as its defining ternary
    for i in fn.all_ids():
        if fn.n(i)['c'] == 'ConditionalOperator' and reachable(fn, i):
            t = canon_minmax(fn.term(i, inline=True))
            if t[0] == 'call' and t[1] == 'std::min' and any(isinstance(x, tuple) and x and x[0] == 'call' and str(x[1]).endswith('::operator()') for x in t[2]):
                out.append(i)
    return out


def rule_cap(ctx, which, units=None, fnames=('search',)):
    obs = []
    cls = CLASSES[which]
    for name in fnames:
        fs = ctx.fns(cls + '::' + name, units)
        if name == 'search' and not fs:
            raise AnalysisBroken(f"{cls}::search not found")
        for f in fs:
            keyname = f.params[0]['name']
            sites = []
            for i in _pos_sites(f):
                t = canon_minmax(norm_tparams(f.term(i, inline=True)))
                if not (t[0] == 'call' and len(t) > 2 and len(t[2]) == 2):
                    continue
                # std::min is symmetric: put the model evaluation first
                if _strip_cast(t[2][1])[0] == 'call' and str(_strip_cast(t[2][1])[1]).endswith('::operator()') and not (_strip_cast(t[2][0])[0] == 'call' and str(_strip_cast(t[2][0])[1]).endswith('::operator()')):
                    t = (t[0], t[1], (t[2][1], t[2][0])) + tuple(t[3:])
                M = _strip_cast(t[2][0])
                if M[0] == 'call' and M[1].endswith('::operator()'):
                    sites.append((i, t))
                elif which == 'compressed' and M[0] == 'cond':
                    # root estimate: min(p > 0 ? p : 0, root_range): no successor segment; capped by root_range
                    ok = _strip_cast(t[2][1]) == ('field', 'root_range', THIS)
                    obs.append(Ob('CAP', f, i, 'root estimate capped by root_range', fmt_term(t)[:120], OK if ok else VIOLATED, arm='root'))
            if not sites:
                # the estimate may have been moved into a one-expression helper: look through it
                from ir import expand_calls
                for c in f.calls():
                    if not reachable(f, c) or not (f.n(c).get('ct') or '').startswith('pgm::'):
                        continue
                    t0 = f.term(c, inline=True)
                    te = norm_tparams(expand_calls(f.unit, t0))
                    if f.n(c).get('ct') != 'std::min' and te[0] == 'call' and te[1] == 'std::min' and len(te[2]) == 2 and _strip_cast(te[2][0])[0] == 'call' and _strip_cast(te[2][0])[1].endswith('::operator()'):
                        sites.append((c, te))
            if not sites:
                if any(reachable(f, r) for r in f.returns()):
                    # segment_for_key estimates no position when EpsilonRecursive == 0; search() always must
                    if name == 'search' and not any(o.fn is f for o in obs):
                        obs.append(Ob('CAP', f, 0, 'pos = std::min(model(key), intercept of the next segment)', 'no capped position estimate found', VIOLATED, arm=name))
                continue
            for (i, t) in sites:
                ok, desc, kt = cap_check(t)
                # the cap is evaluated in a type as wide as the estimate: std::min<uint32_t> would truncate a size_t estimate
                # (a far query wraps to a small position) before comparing it with the next intercept
                is_min = (f.n(i).get('ct') == 'std::min')
                cty = (f.unit.type(f.n(i).get('t', 0)) or {}) if is_min else {}
                m_node = f.n(i).get('args', [None])[0] if is_min else None
                mty = (f.unit.type(f.n(f.strip(m_node, casts=True)).get('t', 0)) or {}) if m_node else {}
                if ok and cty.get('k') == 'int' and mty.get('k') == 'int' and cty.get('bits', 64) < mty.get('bits', 0):
                    ok = False
                    desc += f"; but the minimum is taken in `{cty.get('s')}`, narrower than the estimate (`{mty.get('s')}`): an estimate of 2^{cty.get('bits')} or more wraps before it is capped"
                if ok and kt is not None:
                    # the key handed to the model
                    if name == 'search':
                        if which == 'bucketing':
                            kok = kt == ('param', keyname)
                        else:
                            kok = is_clamp(kt, keyname)
                        if not kok:
                            ok = False
                            desc += f"; but the model is evaluated at `{fmt_term(kt)[:60]}`, not at the clamped key"
                    else:
                        kok = kt == ('param', keyname)
                        if not kok:
                            ok = False
                            desc += f"; but the model is evaluated at `{fmt_term(kt)[:60]}`, not at the routed key"
                obs.append(Ob('CAP', f, i, 'pos = std::min<size_t>(model of segment s at the clamped key, intercept of the successor of the same s)',
                              desc, OK if ok else VIOLATED, arm=name + (':loop' if graph(f).paths_exist(f.block_of(i)[0], f.block_of(i)[0], blocked=[]) and _in_loop(f, i) else '')))
    return obs


def _in_loop(fn, node):
    g = graph(fn)
    pos = fn.block_of(node)
    if not pos:
        return False
    b = pos[0]
    return any(s is not None and b in g.reachable_from(s) for s in g.succ[b])


# ------------------------------------------------------------------------------------------ KIND (routing)
def _all_locals(fn):
    return {v for v, d in fn.defs.items() if not d.get('param')}


def _assignments_to(fn, var_id):
    out = []
    for w in fn.defs.get(var_id, {}).get('writes', []):
        nd = fn.n(w)
        if (nd['c'] == 'BinaryOperator' and nd['op'] == '=') or (nd['c'] == 'CXXOperatorCallExpr' and nd.get('op') == '='):
            out.append(w)
        else:
            out.append(w)
    return out


def _kind_txt(k):
    if k is None:
        return 'unknown'
    if k == kinds.START:
        return 'window start (no search result)'
    return f"{k[0]}({fmt_term(k[1])[:50]})"


def rule_kind_pgm(ctx, units=None):
    """PGMIndex::segment_for_key: every routing step ends in LAST_LE(key) and that result is what is returned"""
    obs = []
    for f in ctx.need('pgm::PGMIndex::segment_for_key', units):
        keyname = f.params[0]['name']
        KEY = ('param', keyname)
        sb = kinds.track(f, _all_locals(f))
        rets = [r for r in f.returns() if reachable(f, r)]
        if not rets:
            raise AnalysisBroken(f"{f.qname}: no reachable return")
        for r in rets:
            e = f.n(r)['ch'][0]
            t = f.term(e, inline=False)
            if t[0] == 'local':
                vid = t[2]
                ws = [w for w in fn_writes(f, vid) if reachable(f, w)]
                # the kind of the cursor where it is returned: LAST_LE(key) there means every path (scan or bisection) ended in it
                kr = sb(r, vid)
                scanned_ok = bool(kr) and kr != kinds.START and kr[0] == 'LAST_LE' and kr[1] == KEY
                if not ws:
                    obs.append(Ob('KIND', f, r, 'routing result LAST_LE(key) returned', 'returned cursor is never assigned by a recognised routing step', UNDECIDED, arm='return'))
                for w in ws:
                    nd = f.n(w)
                    if (nd['c'] == 'BinaryOperator' and nd['op'] == '=') or (nd['c'] == 'CXXOperatorCallExpr' and nd.get('op') == '='):
                        rhs = nd['ch'][1] if nd['c'] == 'BinaryOperator' else nd['args'][1]
                        rt = f.term(rhs, inline=False)
                        if rt[0] == 'local':
                            k = sb(w, rt[2])
                        else:
                            k = kinds.kind_of_term(f.term(rhs, inline=True))
                        ok = bool(k) and k != kinds.START and k[0] == 'LAST_LE' and k[1] == KEY
                        st_ = OK if ok else (UNDECIDED if k is None else VIOLATED)
                        why_ = f"`{fmt_term(f.term(w, inline=False))[:90]}` gives {_kind_txt(k)}"
                        if k == kinds.START and not scanned_ok:
                            scanned_ok_w = _scanned_after(f, w, vid, KEY)
                        else:
                            scanned_ok_w = scanned_ok
                        if k == kinds.START and scanned_ok_w:
                            # the cursor itself is set to the window start and then advanced by the forward scan (no separate `lo`)
                            st_, why_ = OK, why_ + '; the cursor is then advanced by the forward scan to LAST_LE(key)'
                        obs.append(Ob('KIND', f, w, 'segment chosen at each level is LAST_LE(key): the rightmost segment with key <= the sought key',
                                      why_, st_, arm='linear' if rt[0] == 'local' else 'binary'))
                    elif nd['c'] in ('UnaryOperator', 'CXXOperatorCallExpr') and nd.get('op') == '++' and (scanned_ok or _scan_increment(f, w, vid, KEY)):
                        continue        # the increment of the forward scan on the cursor itself
                    else:
                        obs.append(Ob('KIND', f, w, 'cursor only assigned from routing results', f"cursor modified by `{fmt_term(f.term(w, inline=False))[:80]}`",
                                      UNDECIDED if (nd.get('op') == '++') else VIOLATED, arm='other-write'))
                obs.append(Ob('KIND', f, r, 'the routed cursor is returned', f"returns `{t[1]}`", OK, arm='return'))
            else:
                k = kinds.kind_of_term(f.term(e, inline=True))
                ok = bool(k) and k[0] == 'LAST_LE' and k[1] == KEY
                obs.append(Ob('KIND', f, r, 'LAST_LE(key) over the last level', _kind_txt(k), OK if ok else (UNDECIDED if k is None else VIOLATED), arm='one-level'))
    return obs


def _scan_blocks(f, vid):
    """CFG blocks whose condition is the forward scan test `next(X)->key <= K` on the cursor"""
    g = graph(f)
    out = {}
    for b in g.reach:
        c = g.cond(b)
        sc = kinds._scan_cond(f, c) if c else None
        if sc and sc[0][2] == vid:
            out[b] = (c, sc[1])
    return out


def _scan_increment(f, w, vid, KEY):
    """the increment w of the cursor is the body of a forward scan on it: it is reached only through the true edge of the
    scan test and leads back to it"""
    g = graph(f)
    pos = f.block_of(w)
    if not pos:
        return False
    sb_ = _scan_blocks(f, vid)
    for b, (c, key) in sb_.items():
        if key != KEY:
            continue
        t = g.succ[b][0] if g.succ[b] else None
        if t is None:
            continue
        # the body of the loop: blocks between the true edge and the way back to the test
        body = g.reachable_from(t, blocked={b}) | {t}
        if pos[0] in body and b in {s_ for x in body for s_ in g.succ[x] if s_ is not None}:
            return True
    return False


def _scanned_after(f, w, vid, KEY):
    """the cursor set to the window start at w is advanced by a forward scan before anything else reads it: interpreting only
    what follows w, every read of the cursor outside the scan (test and increment) finds it LAST_LE(key)"""
    sb2 = kinds.track(f, {vid}, seed=(w, {vid: kinds.START}))
    scans = _scan_blocks(f, vid)
    scan_conds = set()
    for b, (c, key) in scans.items():
        scan_conds |= set(f.walk(c))
    n = 0
    for i in f.all_ids():
        nd = f.n(i)
        if nd['c'] != 'DeclRefExpr' or nd.get('d') != vid or i in scan_conds:
            continue
        if not sb2.visited(i):
            continue
        p_ = f.sparent(i)
        pn = f.n(p_) if p_ else None
        if pn and pn.get('op') == '++' and _scan_increment(f, p_, vid, KEY):
            continue
        if pn and ((pn['c'] == 'BinaryOperator' and pn.get('op') == '=' and f.strip(pn['ch'][0]) == i) or
                   (pn['c'] == 'CXXOperatorCallExpr' and pn.get('op') == '=' and pn.get('args') and f.strip(pn['args'][0]) == i)):
            continue        # overwritten: not a read
        k = sb2(i, vid)
        if not (k and k != kinds.START and k[0] == 'LAST_LE' and k[1] == KEY):
            return False
        n += 1
    return n > 0


def fn_writes(fn, var_id):
    return fn.defs.get(var_id, {}).get('writes', [])


def rule_kind_bucketing(ctx, units=None):
    obs = []
    for f in ctx.need('pgm::BucketingPGMIndex::segment_for_key', units):
        KEY = ('param', f.params[0]['name'])
        for r in [r for r in f.returns() if reachable(f, r)]:
            k = kinds.kind_of_term(f.term(f.n(r)['ch'][0], inline=True))
            ok = bool(k) and k[0] == 'LAST_LE' and k[1] == KEY
            obs.append(Ob('KIND', f, r, 'LAST_LE(key) inside the bucket slice', _kind_txt(k), OK if ok else (UNDECIDED if k is None else VIOLATED), arm='bucket'))
    return obs


def rule_kind_compressed(ctx, units=None):
    """CompressedPGMIndex::search: the segment index handed to the model derives from a LAST_LE position"""
    obs = []
    for f in ctx.need('pgm::CompressedPGMIndex::search', units):
        keyname = f.params[0]['name']
        sb = kinds.track(f, _all_locals(f))
        n = 0
        for i in _pos_sites(f):
            t = f.term(i, inline=False)
            M = _strip_cast(t[2][0])
            if not (M[0] == 'call' and M[1].endswith('CompressedLevel::operator()')):
                continue
            idx = _strip_cast(M[2][1])
            n += 1
            if idx[0] != 'local':
                # the index expression itself (it reached the model through the parameters of inlined helpers): the typestate
                # of the cursor it is computed from is taken at the evaluation site
                init = i
                it = idx
            else:
                init = f.single_def(idx[2])
                if not init:
                    obs.append(Ob('KIND', f, i, 'segment index derived from a LAST_LE position', f"index `{idx[1]}` has several definitions", UNDECIDED, arm='index'))
                    continue
                it = _strip_cast(f.term(init, inline=False))
            sh = 0
            if it[0] == 'op' and len(it) == 4 and it[1] == '-' and it[3] == ('lit', 1):
                sh = -1
                it = _strip_cast(it[2])
            k = None
            src = '?'
            if it[0] == 'call' and it[1] == 'std::distance' and len(it[2]) == 2:
                y = it[2][1]
                src = fmt_term(y)
                if y[0] == 'local':
                    if f.single_def(y[2]):
                        # never re-assigned: either a search result itself, or just the start of the window
                        k = kinds.kind_of_term(f.term(f.single_def(y[2]), inline=True)) or sb(init, y[2])
                    else:
                        k = sb(init, y[2])
                else:
                    k = kinds.kind_of_term(y)
                if sh and k and k != kinds.START:
                    k = kinds.shift(k, -1)
                elif sh:
                    k = None
            ok = bool(k) and k != kinds.START and k[0] == 'LAST_LE'
            arm = 'one-level' if sh else 'level-loop'
            keyok = True
            if ok:
                # binary searches must use the clamped key; the forward scan may use the raw key
                kt = _strip_cast(k[1])
                if kt[0] == 'local' and len(kt) == 3 and f.single_def(kt[2]):
                    kt = f.term(f.single_def(kt[2]), inline=True)      # `auto k = std::max(first_key, key)` compared in the scan
                kt = norm_tparams(kt)
                via_scan = k[2] is None
                keyok = is_clamp(kt, keyname) or (via_scan and kt == ('param', keyname))
                arm += ':scan' if via_scan else ':binary'
            obs.append(Ob('KIND', f, init, 'segment index = position of LAST_LE(clamped key) in the level (forward scan may compare the raw key)',
                          f"index from `{src}` which is {_kind_txt(k)}" + ('' if keyok else ' - searched with the unclamped key'),
                          OK if (ok and keyok) else (UNDECIDED if k is None else VIOLATED), arm=arm))
        if n == 0:
            raise AnalysisBroken(f"{f.qname}: no model evaluation found")
    return obs


# ------------------------------------------------------------------------------------------ WINDOW-FORM
def _split_base_offset(t):
    """iterator + offset -> (base, offset)"""
    t = _strip_cast(t)
    if t[0] == 'op' and len(t) == 4 and t[1] == '+':
        return t[2], _strip_cast(t[3])
    return None, None


def _locals_in(t):
    return [s for s in subterms(t) if s[0] == 'local']


def _resolve_arith_locals(f, t, depth=0):
    """`auto moved = pos + EpsilonRecursive + 2;`: a single-definition local whose initialiser is pure arithmetic over other
    variables and constants (no call, no dereference) stands for that arithmetic"""
    if isinstance(t, tuple):
        if t and t[0] == 'local' and len(t) == 3 and depth < 5:
            init = f.single_def(t[2])
            if init:
                it = norm_tparams(_strip_cast(f.term(init, inline=False)))
                if it[0] == 'op' and len(it) == 4 and it[1] in ('+', '-') and not any(isinstance(x, tuple) and x and x[0] in ('call', 'deref', 'index', 'construct', 'phi', 'lambda', 'cond') for x in subterms(it)):
                    return _resolve_arith_locals(f, it, depth + 1)
            return t
        return tuple(_resolve_arith_locals(f, x, depth) for x in t)
    return t


def _window_from_search_calls(f, ER):
    obs = []
    P = ('local', 'P', -1)
    for c in f.calls(pred=lambda nd: nd.get('ct') in kinds.UPPER + kinds.LOWER):
        if not reachable(f, c):
            continue
        a = f.n(c)['args']
        t0 = _resolve_arith_locals(f, norm_tparams(expand_calls(f.unit, f.term(a[0], inline=True))))
        t1 = _resolve_arith_locals(f, norm_tparams(expand_calls(f.unit, f.term(a[1], inline=True))))
        b0, o0 = _split_base_offset(t0)
        b1, o1 = _split_base_offset(t1)
        if b0 is None or b1 is None or b0 != b1:
            continue
        # the centre: the largest std::min(...) term common to both offsets (the capped estimate)
        mins0 = [x for x in subterms(o0) if x[0] == 'call' and x[1] == 'std::min']
        common = [x for x in mins0 if contains(o1, x)]
        if not common:
            continue
        centre = max(common, key=lambda x: len(repr(x)))

        def peel(o):
            # segments.begin() + (levels_offsets[l] + f(P)): the start of the level may be part of the integer offset
            moved = []
            for _ in range(3):
                oo = _strip_cast(o)
                if oo[0] == 'op' and len(oo) == 4 and oo[1] == '+':
                    x, y = _strip_cast(oo[2]), _strip_cast(oo[3])
                    if not contains(x, centre) and x[0] != 'lit' and contains(y, centre):
                        moved.append(x)
                        o = y
                        continue
                    if not contains(y, centre) and y[0] != 'lit' and contains(x, centre) and not (y[0] == 'tparam' or contains(y, ER)):
                        moved.append(y)
                        o = x
                        continue
                break
            return o, tuple(moved)
        o0, m0 = peel(o0)
        o1, m1 = peel(o1)
        if m0 != m1:
            continue

        def sub(t):
            if t == centre:
                return P
            if isinstance(t, tuple):
                return tuple(sub(x) for x in t)
            return t
        o0s, o1s = sub(o0), sub(o1)
        try:
            ok0, why0 = form.equivalent(o0s, form.SUB(P, ('op', '+', ER, ('lit', 1))))
            st0 = OK if ok0 else VIOLATED
        except form.Unrecognised as e:
            ok0, why0, st0 = False, f"unrecognised shape: {e}", UNDECIDED
        obs.append(Ob('WINDOW-FORM', f, a[0], 'window start = level_begin + (pos <= EpsRec+1 ? 0 : pos - (EpsRec+1))',
                      f"bisection starts at `{fmt_term(b0)[:30]} + {fmt_term(o0s)[:90]}` (P = the capped estimate)" + ('' if ok0 else f" — {why0}"), st0, arm='lo'))
        # the level size: a variable, a call, or a whole expression (levels_offsets[l + 1] - levels_offsets[l] - 1) not involving P;
        # a compound size is replaced by one symbol as well
        cands = [x for x in subterms(o1s) if x[0] in ('local', 'call', 'field', 'op', 'index') and x != P and not contains(x, P) and
                 not (x[0] == 'op' and x[1] not in ('+', '-'))]
        cands = sorted(set(cands), key=lambda x: -len(repr(x)))
        ok1, why1, st1, first_why = False, 'no level-size term found', UNDECIDED, None
        SZ = ('local', 'LEVEL_SIZE', -2)
        for s_ in cands:
            def subs(t, s_=s_):
                if t == s_:
                    return SZ
                if isinstance(t, tuple):
                    return tuple(subs(x) for x in t)
                return t
            try:
                ok1, why1 = form.equivalent(subs(o1s), form.ADD(P, ER, SZ))
            except form.Unrecognised:
                continue
            if first_why is None:
                first_why = why1
            if ok1:
                break
        if ok1:
            st1 = OK
        elif first_why is not None:
            why1, st1 = first_why, VIOLATED
        obs.append(Ob('WINDOW-FORM', f, a[1], 'window end = level_begin + (pos+EpsRec+2 >= level_size ? level_size : pos+EpsRec+2)',
                      f"bisection ends at `{fmt_term(b1)[:30]} + {fmt_term(o1s)[:110]}` (P = the capped estimate)" + ('' if ok1 else f" — {why1}"), st1, arm='hi'))
    # the forward scan: its cursor is set to level_begin + SUB(P, EpsRec + 1) before the loop (for-init or a statement)
    g = graph(f)
    cursors = set()
    for b in g.reach:
        c = g.cond(b)
        sc = kinds._scan_cond(f, c) if c else None
        if sc:
            cursors.add(sc[0][2])
    for vid in cursors:
        d = f.defs.get(vid, {})
        srcs = ([d['init']] if d.get('init') else [])
        for w in d.get('writes', []):
            nd = f.n(w)
            if nd.get('op') == '=':
                srcs.append(nd['args'][1] if nd['c'] == 'CXXOperatorCallExpr' else nd['ch'][1])
        for sn in srcs:
            if not reachable(f, sn):
                continue
            t0 = _resolve_arith_locals(f, norm_tparams(expand_calls(f.unit, f.term(sn, inline=True))))
            b0, o0 = _split_base_offset(t0)
            if b0 is None:
                continue
            mins0 = [x for x in subterms(o0) if x[0] == 'call' and x[1] == 'std::min']
            if not mins0:
                continue
            centre = max(mins0, key=lambda x: len(repr(x)))

            def sub2(t, centre=centre):
                if t == centre:
                    return P
                if isinstance(t, tuple):
                    return tuple(sub2(x) for x in t)
                return t
            o0s = sub2(o0)
            try:
                ok0, why0 = form.equivalent(o0s, form.SUB(P, ('op', '+', ER, ('lit', 1))))
                st0 = OK if ok0 else VIOLATED
            except form.Unrecognised as e:
                ok0, why0, st0 = False, f"unrecognised shape: {e}", UNDECIDED
            obs.append(Ob('WINDOW-FORM', f, sn, 'window start = level_begin + (pos <= EpsRec+1 ? 0 : pos - (EpsRec+1))',
                          f"the forward scan starts at `{fmt_term(b0)[:30]} + {fmt_term(o0s)[:90]}` (P = the capped estimate)" + ('' if ok0 else f" — {why0}"), st0, arm='lo'))
    return obs


def rule_window_form(ctx, which, units=None):
    """per level: lo = level_begin + SUB(pos, EpsilonRecursive+1); binary arm: hi = level_begin + ADD(pos, EpsilonRecursive, level_size)"""
    obs = []
    tn = 'pgm::PGMIndex::segment_for_key' if which in ('pgm', 'wrapper') else 'pgm::CompressedPGMIndex::search'
    ER = ('tparam', 'EpsilonRecursive')
    for f in ctx.need(tn, units):
        if f.targs.get('EpsilonRecursive') == '0':
            continue
        g = graph(f)
        sb_vars = _all_locals(f)
        found_lo = 0
        # window start: a local iterator initialised as base + offset and then used as a scan/search start
        for vid, d in f.defs.items():
            if d.get('param') or not d.get('init') or not d.get('decl') or not reachable(f, d['decl']):
                continue
            base, off = _split_base_offset(norm_tparams(expand_calls(f.unit, f.term(d['init'], inline=False))))
            if base is None:
                continue
            off = _resolve_arith_locals(f, off)
            offl = [x for x in _locals_in(off)]
            if not offl:
                continue
            posv = offl[0]
            pty = f.unit.base_type(f.defs.get(posv[2], {}).get('t')) if f.defs.get(posv[2], {}).get('t') else None
            if pty is not None and pty.get('k') not in ('int', None):
                continue        # the offset is read through an iterator / pointer (`segments.begin() + *level_offset`): a level start, not a window
            # role: is this variable a search start (first arg of upper_bound / scanned) or a search end (second arg)?
            role = None
            same = {vid}
            for i_ in f.all_ids():
                nd_ = f.n(i_)
                if ((nd_['c'] == 'BinaryOperator' and nd_.get('op') == '=') or (nd_['c'] == 'CXXOperatorCallExpr' and nd_.get('op') == '=' and len(nd_.get('args', [])) == 2)) and reachable(f, i_):
                    l_, r_ = (nd_['ch'][0], nd_['ch'][1]) if nd_['c'] == 'BinaryOperator' else (nd_['args'][0], nd_['args'][1])
                    if f.var_of(r_) == vid and f.var_of(l_) is not None and not f.n(f.strip(r_))['c'] == 'UnaryOperator':
                        same.add(f.var_of(l_))      # `it = lo`: the cursor scanned from the window start
            for c in f.calls(pred=lambda nd: nd.get('ct') in kinds.UPPER + kinds.LOWER):
                if not reachable(f, c):
                    continue
                a = f.n(c)['args']
                if f.var_of(a[0]) == vid:
                    role = role or 'lo'
                if f.var_of(a[1]) == vid:
                    role = 'hi'
            for b in g.reach:
                c = g.cond(b)
                sc = kinds._scan_cond(f, c) if c else None
                if sc and sc[0][2] in same:
                    role = role or 'lo'
            if role is None:
                continue
            try:
                if role == 'lo':
                    found_lo += 1
                    ok, why = form.equivalent(off, form.SUB(posv, ('op', '+', ER, ('lit', 1))))
                    req = 'window start = level_begin + (pos <= EpsRec+1 ? 0 : pos - (EpsRec+1))'
                else:
                    # cap symbol: the atom of the offset that is neither pos nor a template parameter
                    cands = [s for s in subterms(off) if s[0] in ('local', 'call', 'field') and s != posv and not contains(s, posv)]
                    cands.sort(key=lambda s: 0 if s[0] == 'call' else 1 if s[0] == 'local' else 2)
                    ok, why = False, 'no level-size term found'
                    S = None
                    first_why = None
                    for s_ in cands:
                        try:
                            ok, why = form.equivalent(off, form.ADD(posv, ER, s_))
                        except form.Unrecognised:
                            continue
                        if first_why is None:
                            first_why = why
                        if ok:
                            S = s_
                            break
                    if not ok and first_why is not None:
                        why = first_why
                    req = 'window end = level_begin + (pos+EpsRec+2 >= level_size ? level_size : pos+EpsRec+2)'
                    if ok:
                        # level_size must be the size of the level being searched
                        st = norm_tparams(f.term(f.single_def(S[2]), inline=True)) if S[0] == 'local' and f.single_def(S[2]) else S
                        st = _strip_cast(st)
                        good = False
                        if st[0] == 'call' and st[1].endswith('CompressedLevel::size'):
                            good = True
                        else:
                            try:
                                lv = _level_index_symbol(st)
                                if lv is not None:
                                    good = True
                            except Exception:
                                good = False
                        if not good:
                            ok, why = False, f"cap `{fmt_term(st)[:80]}` is not the size of the searched level"
            except form.Unrecognised as e:
                obs.append(Ob('WINDOW-FORM', f, d['decl'], 'routing window of width 2*EpsRec+3', f'unrecognised shape: {e}', UNDECIDED, arm=role))
                continue
            # the pos symbol must be the position estimate
            pd = f.defs.get(posv[2], {})
            src_ok = True
            srcs = ([pd['init']] if pd.get('init') else []) + [w for w in pd.get('writes', [])]
            for s_ in srcs:
                tt = f.term(s_, inline=False)
                if tt[0] == 'op' and tt[1] == '=':
                    tt = tt[3]
                tt = _strip_cast(tt)
                if not (tt[0] == 'call' and tt[1] == 'std::min'):
                    src_ok = False
            und = False
            if not src_ok and ok:
                # the window is centred on a variable this rule cannot identify with the capped estimate (an intermediate local, a
                # helper with an explicit branch instead of std::min): the cap itself is CAP's obligation - not a verdict here
                ok, und, why = False, True, f"`{posv[1]}` is not recognised as the capped position estimate"
            obs.append(Ob('WINDOW-FORM', f, d['decl'], req, f"`{d['name']} = {fmt_term(base)[:30]} + {fmt_term(off)[:110]}`" + ('' if ok else f" — {why}"),
                          OK if ok else (UNDECIDED if und else VIOLATED), arm=role))
        if found_lo == 0:
            # expression-centred fallback: the window as the argument terms of the bisection itself (bindings of a helper's pair,
            # offsets kept as integers and added to level_begin at the call).  The centre - the capped estimate, whatever its
            # spelling - is replaced by one symbol before the forms are compared.
            fb = _window_from_search_calls(f, ER)
            if fb:
                obs += fb
                continue
            # nothing of the shape this rule knows (a local `lo = level_begin + f(pos)`): the routing may be written on indices or
            # without a named window start - not a verdict
            obs.append(Ob('WINDOW-FORM', f, 0, 'a routing window start per level', 'no window start of the form level_begin + f(pos, EpsilonRecursive) found', UNDECIDED, arm='lo'))
    return obs


def _level_index_symbol(t):
    """levels_offsets[l + 1] - levels_offsets[l] - 1  ->  l"""
    L = ('field', 'levels_offsets', THIS)
    vals = form.value(t)
    if len(vals) != 1:
        return None
    v = vals[0][1]
    if v.k != -1 or len(v.c) != 2:
        return None
    pos = [a for a, c in v.c.items() if c == 1]
    neg = [a for a, c in v.c.items() if c == -1]
    if len(pos) != 1 or len(neg) != 1:
        return None
    p, n = _strip_cast(pos[0]), _strip_cast(neg[0])
    if p[0] == 'deref' and n[0] == 'deref':
        # the levels walked with an iterator I into levels_offsets: *next(I) - *I - 1
        a, b = _strip_cast(n[1]), _strip_cast(p[1])
        if b[0] == 'call' and b[1] == 'std::next' and b[2] and _strip_cast(b[2][0]) == a and (len(b[2]) == 1 or b[2][1] == ('lit', 1)):
            return a
        if b[0] == 'op' and len(b) == 4 and b[1] == '+' and _strip_cast(b[2]) == a and b[3] == ('lit', 1):
            return a
        return None
    if p[0] == 'index' and n[0] == 'index' and p[1] == L and n[1] == L:
        a, b = _strip_cast(n[2]), _strip_cast(p[2])
        if b[0] == 'op' and b[1] == '+' and _strip_cast(b[2]) == a and b[3] == ('lit', 1):
            return a
    return None


# ------------------------------------------------------------------------------------------ AGREE-EPS (FLOW)
SINK = 'pgm::internal::OptimalPiecewiseLinearModel::OptimalPiecewiseLinearModel'


def trace_epsilon_sources(unit):
    """Backward slice of the `epsilon` handed to OptimalPiecewiseLinearModel's constructor through resolved calls.
    returns list of dicts {fn, node, term, chain:[(fn tname, param name, in_loop)]}"""
    sinks = [f for f in unit.fns(SINK) if len(f.params) == 1]
    targets = {}
    for s in sinks:
        targets[(s.id, 0)] = [(s.tname, s.params[0]['name'], False)]
    sources = []
    hops = []
    work = list(targets.keys())
    done = set()
    # index of call sites by callee id
    sites = {}
    for f in unit.functions.values():
        for i in f.calls():
            nd = f.n(i)
            cd = nd.get('cd')
            if cd:
                sites.setdefault(cd, []).append((f, i))
    while work:
        key = work.pop()
        if key in done:
            continue
        done.add(key)
        fid, pidx = key
        chain = targets[key]
        for (f, i) in sites.get(fid, []):
            if not reachable(f, i):
                continue
            nd = f.n(i)
            args = nd.get('args', [])
            off = 1 if (nd['c'] == 'CXXOperatorCallExpr' and nd.get('op_member')) else 0
            if pidx + off >= len(args):
                continue
            a = args[pidx + off]
            t = norm_tparams(f.term(a, inline=True))
            t = _strip_cast(t)
            loop = _in_loop(f, i)
            if t[0] == 'param':
                # pass-through
                names = [p['name'] for p in f.params]
                if t[1] in names:
                    hops.append({'fn': f, 'node': i, 'param': t[1], 'in_loop': loop})
                    k2 = (f.id, names.index(t[1]))
                    if k2 not in targets:
                        targets[k2] = [(f.tname, t[1], loop, f.loc(i))] + chain
                        work.append(k2)
                    continue
            sources.append({'fn': f, 'node': i, 'term': t, 'in_loop': loop, 'chain': chain})
    # a parameter of an extern "C" entry point is a source (the run-time epsilon of the C interface)
    for (fid, pidx), chain in targets.items():
        f = unit.functions.get(fid)
        if f is not None and f.d.get('extern_c') and pidx < len(f.params):
            sources.append({'fn': f, 'node': 0, 'term': ('param', f.params[pidx]['name']), 'in_loop': False, 'chain': chain})
    return sources, targets, hops


def _chain_has(chain, tname, pname):
    return any(c[0] == tname and c[1] == pname for c in chain)


def rule_agree_eps(ctx, which, units=None):
    """the epsilon that reaches the segmentation of level 0 is the symbol used by search(); upper levels get EpsilonRecursive"""
    obs = []
    cls = CLASSES[which]
    us = units if units is not None else ctx.all_units()
    EPS, EPSREC = ('tparam', 'Epsilon'), ('tparam', 'EpsilonRecursive')
    n_src = 0
    for u in us:
        sources, targets, hops = trace_epsilon_sources(u)
        # hops inside PGMIndex::build: level-0 call outside the loop passes `epsilon`, the loop passes `epsilon_recursive`
        for (fid, pidx), chain in targets.items():
            pass
        for s in sources:
            f = s['fn']
            owner = f.record_t or f.tname
            t = s['term']
            chain = s['chain']
            via_build_eps = _chain_has(chain, 'pgm::PGMIndex::build', 'epsilon')
            via_build_rec = _chain_has(chain, 'pgm::PGMIndex::build', 'epsilon_recursive')
            desc = f"`{fmt_term(t)}` -> " + ' -> '.join(f"{c[0].split('::')[-1]}.{c[1]}" for c in chain)
            if f.tname == 'pgm::PGMIndex::build':
                continue
            if which in ('pgm', 'bucketing', 'eliasfano') and owner in (cls, 'pgm::MappedPGMIndex' if which == 'pgm' else cls):
                n_src += 1
                if via_build_eps:
                    ok = t == EPS
                    obs.append(Ob('AGREE-EPS', f, s['node'], 'level 0 is segmented with the Epsilon that search() widens by', desc, OK if ok else VIOLATED, arm='level0'))
                elif via_build_rec:
                    ok = (t == EPSREC) if which == 'pgm' else (t == ('lit', 0))
                    obs.append(Ob('AGREE-EPS', f, s['node'], 'upper levels are segmented with EpsilonRecursive (0 = none for the one-level variants)', desc, OK if ok else VIOLATED, arm='recursive'))
                else:
                    obs.append(Ob('AGREE-EPS', f, s['node'], 'epsilon reaches the segmentation through build()', desc, UNDECIDED, arm='other'))
            elif which == 'compressed' and owner == cls:
                n_src += 1
                if s['in_loop'] or any(c[2] for c in chain if c[0].startswith(cls)):
                    ok = t == EPSREC
                    obs.append(Ob('AGREE-EPS', f, s['node'], 'upper levels are segmented with EpsilonRecursive', desc, OK if ok else VIOLATED, arm='recursive'))
                else:
                    ok = t == EPS
                    obs.append(Ob('AGREE-EPS', f, s['node'], 'level 0 is segmented with Epsilon', desc, OK if ok else VIOLATED, arm='level0'))
            elif which == 'wrapper' and (owner.startswith('pgm_index_') or owner == 'PGMWrapper' or f.d.get('extern_c')):
                n_src += 1
                if via_build_eps:
                    # source must be the run-time epsilon parameter of the extern "C" create function
                    ok = t[0] == 'param' and f.d.get('extern_c')
                    st_ = OK if ok else VIOLATED
                    if not ok and '(lambda)' in f.tname and t[0] in ('local', 'param') :
                        # the allocation sits in a closure inside *_create (handed to a helper that maps the exception to NULL): the
                        # source is a capture of the enclosing function's parameter when the closure lives in an extern "C" function
                        encl = u.functions.get(f.d.get('parent_fn'))
                        if encl is not None and encl.d.get('extern_c') and any(p_['name'] == t[1] for p_ in encl.params):
                            st_ = OK
                        else:
                            st_ = UNDECIDED
                    obs.append(Ob('AGREE-EPS', f, s['node'], 'the run-time epsilon of *_create reaches the level-0 segmentation', desc, st_, arm='level0'))
                elif via_build_rec:
                    # literal must equal the EpsilonRecursive of the routing code the wrapper inherits
                    want = None
                    for sf in u.fns('PGMWrapper::search'):
                        for c in sf.calls_to('pgm::PGMIndex::segment_for_key'):
                            callee = u.functions.get(sf.n(c)['cd'])
                            if callee:
                                want = callee.targs.get('EpsilonRecursive')
                    ok = t[0] == 'lit' and want is not None and str(t[1]) == want
                    # the wrapper may route with code of its own instead of the inherited segment_for_key: nothing to compare with
                    obs.append(Ob('AGREE-EPS', f, s['node'], f'upper levels are segmented with the EpsilonRecursive ({want}) of the inherited routing code', desc,
                                  OK if ok else (UNDECIDED if want is None else VIOLATED), arm='recursive'))
        # hop discipline inside build(): the call outside the level loop passes `epsilon`, the call inside it `epsilon_recursive`
        if which in ('pgm', 'wrapper'):
            for h in hops:
                f = h['fn']
                if f.tname != 'pgm::PGMIndex::build':
                    continue
                want = 'epsilon_recursive' if h['in_loop'] else 'epsilon'
                obs.append(Ob('AGREE-EPS', f, h['node'],
                              'the level loop of build() segments with epsilon_recursive' if h['in_loop'] else 'the first-level segmentation (outside the level loop) uses build()\'s epsilon',
                              f"passes `{h['param']}`", OK if h['param'] == want else VIOLATED, arm='hop-recursive' if h['in_loop'] else 'hop-level0'))
            for s_ in sources:
                f = s_['fn']
                if f.tname == 'pgm::PGMIndex::build':
                    obs.append(Ob('AGREE-EPS', f, s_['node'],
                                  'the level loop of build() segments with epsilon_recursive' if s_['in_loop'] else 'the first-level segmentation (outside the level loop) uses build()\'s epsilon',
                                  f"passes `{fmt_term(s_['term'])[:80]}`", VIOLATED, arm='hop-recursive' if s_['in_loop'] else 'hop-level0'))
    if which == 'wrapper':
        # the field used by PGMWrapper::search is initialised from the same constructor parameter that is passed to build
        for f in ctx.need('PGMWrapper::PGMWrapper', units):
            if len(f.params) != 3:
                continue
            inits = [i for i in f.d.get('inits', []) if i.get('field') == 'epsilon']
            ok = bool(inits) and f.term(inits[0]['expr'], inline=True) == ('param', 'epsilon')
            bc = f.calls_to('pgm::PGMIndex::build')
            ok2 = bool(bc) and _strip_cast(f.term(f.n(bc[0])['args'][2], inline=True)) == ('param', 'epsilon')
            why = f"field init from param: {ok}; build arg from same param: {ok2}"
            if not bc:
                # e.g. construction delegated to the base-class constructor, which segments with the template Epsilon of the base
                # class (PGMIndex<K, 1, ...>) instead of the run-time epsilon that PGMWrapper::search widens by
                why = 'the constructor does not pass its epsilon parameter to build() (construction delegated elsewhere: the level-0 segmentation then uses the template Epsilon of the base class)'
                n_src += 1
            obs.append(Ob('AGREE-EPS', f, 0, 'field epsilon (used by search) and the epsilon passed to build are the same constructor parameter',
                          why, OK if (ok and ok2) else VIOLATED, arm='field'))
    if n_src == 0:
        raise AnalysisBroken(f"AGREE-EPS: no epsilon source found for {cls}")
    return obs


# ------------------------------------------------------------------------------------------ TYPE (C01)
def rule_keydiff_type(ctx, units=None):
    """Segment::operator(): the key difference is computed in an unsigned type, a floating type or a type wider than K"""
    obs = []
    for f in ctx.need('pgm::PGMIndex::Segment::operator()', units):
        u = f.unit
        kt = None
        for p in f.params:
            kt = u.base_type(p['t'])
        subs = []
        for i in f.all_ids():
            nd = f.n(i)
            if nd['c'] == 'BinaryOperator' and nd['op'] == '-' and reachable(f, i):
                t = f.term(i, inline=False)
                if contains(t, ('param', f.params[0]['name'])) and contains(t, ('field', 'key', THIS)):
                    subs.append(i)
        if not subs:
            obs.append(Ob('TYPE', f, 0, 'a key difference k - key', 'no subtraction of the segment key from the query found', UNDECIDED, arm='keydiff'))
            continue
        for i in subs:
            rt = u.type(f.n(i)['t'])
            ok = False
            why = rt['s']
            if rt.get('k') == 'float':
                ok = True
                # a floating difference of *integer* keys: each operand is rounded to the floating type before the subtraction, so
                # the difference is exact only if the key type fits the mantissa (24 bits for float, 53 for double).  For wider keys
                # (64-bit) two keys closer than one ulp of their magnitude collapse and the estimate is off by whole segments; the
                # integer difference, taken first, is exact.
                mant = 24 if rt.get('bits', 64) <= 32 else 53
                if kt and kt.get('k') == 'int' and kt.get('bits', 0) > mant:
                    ops_int = [f.unit.type(f.n(f.strip(c_, casts=True)).get('t', 0)) or {} for c_ in f.n(i)['ch']]
                    if all(o_.get('k') == 'int' for o_ in ops_int):
                        ok = False
                        why = (f"{rt['s']}: both {kt['s']} operands are converted to {rt['s']} before the subtraction - keys above 2^{mant} that differ by less than an ulp "
                               f"give the same value; the difference must be taken in the integer type and converted afterwards")
            elif rt.get('k') == 'int':
                if not rt.get('signed'):
                    ok = True
                elif kt and kt.get('k') == 'int' and rt.get('bits', 0) > kt.get('bits', 0):
                    ok = True
            obs.append(Ob('TYPE', f, i, 'k - key evaluated in an unsigned, floating or wider-than-K type (no signed overflow)',
                          f"K = {kt['s'] if kt else '?'}, difference has type {why}", OK if ok else VIOLATED, arm='keydiff'))
    return obs


def rule_keydiff_sign(ctx, which, units=None):
    """Variants over unsigned keys (Elias-Fano, compressed): the difference between the query and a segment key is an unsigned
    value of up to the key width; it must reach the floating multiplication unsigned.  Converted to a signed integer type of
    the same or a smaller width (e.g. held in an int64_t temporary) a difference of 2^63 or more becomes negative and the
    estimate collapses to the start of the segment."""
    obs = []
    tns = {'eliasfano': ['pgm::EliasFanoPGMIndex::SegmentData::operator()'],
           'compressed': ['pgm::CompressedPGMIndex::CompressedLevel::operator()', 'pgm::CompressedPGMIndex::search']}[which]
    for tn in tns:
        for f in ctx.need(tn, units):
            u = f.unit
            n = 0
            bad = None
            for i in f.all_ids():
                nd = f.n(i)
                if nd['c'] != 'BinaryOperator' or nd['op'] != '-' or not reachable(f, i):
                    continue
                dt = u.type(nd.get('t', 0)) or {}
                if dt.get('k') != 'int':
                    continue
                ops = [_strip_cast(f.term(c_, inline=False)) for c_ in nd['ch']]
                if not (ops[0][0] in ('param', 'local') and (ops[1][0] in ('param', 'field', 'index') or ops[1][0] == 'local')):
                    continue
                # width of the operands before the integral promotions: a difference of two unsigned char / unsigned short keys
                # is computed exactly in (signed) int, which is wider than the keys and therefore loses nothing
                kb = max([(u.type(f.n(f.strip(c_, casts=True)).get('t', 0)) or {}).get('bits', 0) or 0 for c_ in nd['ch']] + [0]) or dt.get('bits', 0)
                n += 1
                if dt.get('signed') and dt.get('bits', 0) <= kb:
                    bad = bad or (i, f"the difference itself has the signed type `{dt.get('s')}`")
                    continue
                # follow the value upwards through implicit/explicit integral casts and an initialised local
                p_ = f.sparent(i)
                while p_ and f.n(p_)['c'] in ('ParenExpr', 'ImplicitCastExpr', 'CStyleCastExpr', 'CXXStaticCastExpr', 'CXXFunctionalCastExpr'):
                    ct = u.type(f.n(p_).get('t', 0)) or {}
                    if ct.get('k') == 'int' and ct.get('signed') and ct.get('bits', 0) <= min(kb, dt.get('bits', 0)):
                        bad = bad or (p_, f"`{fmt_term(f.term(i, inline=False))[:40]}` ({dt.get('s')}) is converted to `{ct.get('s')}`: a difference of 2^{ct.get('bits', 64) - 1} or more becomes negative")
                    p_ = f.sparent(p_)
            if n == 0 and tn.endswith('::search'):
                continue        # EpsilonRecursive == 0: no root estimate in this instantiation
            if n == 0:
                obs.append(Ob('TYPE', f, 0, 'a key difference in the model evaluation', 'none found', UNDECIDED, arm='keydiff-sign:' + f.name))
            else:
                obs.append(Ob('TYPE', f, bad[0] if bad else 0, 'the key difference reaches the floating multiplication as an unsigned value (never converted to a signed integer of the same width)',
                              bad[1] if bad else f"{n} key difference(s), unsigned up to the multiplication", VIOLATED if bad else OK, arm='keydiff-sign:' + f.name))
    return obs


def _reaches(fn, a, b):
    """can CFG element b execute after element a?"""
    g = graph(fn)
    pa, pb = fn.block_of(a), fn.block_of(b)
    if not pa or not pb:
        return True
    if pa[0] == pb[0] and pb[1] > pa[1]:
        return True
    return any(x is not None and pb[0] in g.reachable_from(x) for x in g.succ[pa[0]])


# ------------------------------------------------------------------------------------------ Compressed: SENTINEL, SUPPORT-ORDER
def _const(fn, i):
    # the evaluated value sits on the outermost rvalue (a reference to a constexpr variable has it on its lvalue-to-rvalue cast)
    while i:
        nd = fn.n(i)
        if 'v' in nd:
            return int(nd['v'])
        j = fn.strip(i, casts=True)
        if j == i:
            if nd['c'] in ('ImplicitCastExpr', 'ParenExpr') and nd['ch']:
                j = nd['ch'][0]
            else:
                break
        i = j
    return None


def rule_compressed_level(ctx, units=None):
    obs = []
    tn = 'pgm::CompressedPGMIndex::CompressedLevel::CompressedLevel'
    fs = [f for f in ctx.need(tn, units) if len(f.params) == 9]
    if not fs:
        raise AnalysisBroken('CompressedLevel range constructor not found')
    KEYS = ('field', 'keys', THIS)
    CI = ('field', 'compressed_intercepts', THIS)
    for f in fs:
        g = graph(f)
        # SENTINEL: keys.emplace_back(sentinel) on every path to the exit, after every other write to keys
        pushes = []
        for c in f.calls(pred=lambda nd: nd.get('cn') in ('emplace_back', 'push_back')):
            nd = f.n(c)
            if nd.get('obj') and f.term(nd['obj'], inline=False) == KEYS and reachable(f, c):
                pushes.append(c)
        sent = [c for c in pushes if f.term(f.n(c)['args'][0], inline=True)[0] == 'static' and f.term(f.n(c)['args'][0], inline=True)[1].endswith('sentinel')]
        ok = False
        why = 'no keys.emplace_back(sentinel)'
        if sent:
            s = sent[-1]
            pb = f.block_of(s)[0]
            must = g.must_pass(g.entry, g.exit, {pb})
            later = [c for c in pushes if c != s and _reaches(f, s, c)]
            ok = must and not later
            why = f"emplace_back(sentinel) at line {f.n(s)['l']}: on every path={must}; key pushes after it: {len(later)}"
        obs.append(Ob('SENTINEL', f, sent[-1] if sent else 0, 'every level key array ends with the sentinel on all construction paths', why, OK if ok else VIOLATED, arm='keys'))
        # SUPPORT-ORDER: init_support(sel1, &compressed_intercepts) after the last assignment of compressed_intercepts
        inits = f.calls_to('sdsl::util::init_support')
        assigns = [i for i in f.all_ids() if f.n(i)['c'] == 'CXXOperatorCallExpr' and f.n(i).get('op') == '=' and f.term(f.n(i)['args'][0], inline=False) == CI and reachable(f, i)]
        ok = False
        why = 'no init_support call'
        if inits:
            i0 = inits[-1]
            a = f.n(i0)['args']
            t0, t1 = f.term(a[0], inline=False), f.term(a[1], inline=False)
            bound = t0 == ('field', 'sel1', THIS) and t1 == ('un', '&', CI)
            after = all(g.before(x, i0) for x in assigns) and bool(assigns)
            must = g.must_pass(g.entry, g.exit, {f.block_of(i0)[0]})
            ok = bound and after and must
            why = f"init_support({fmt_term(t0)}, {fmt_term(t1)}) at line {f.n(i0)['l']}: after all {len(assigns)} assignment(s) of the bit vector={after}; on every path={must}"
        obs.append(Ob('SUPPORT-ORDER', f, inits[-1] if inits else 0, 'sel1 is bound to the final compressed_intercepts', why, OK if ok else VIOLATED, arm='sel1'))
        # INTERCEPT-BASE: the Elias-Fano universe of the level is prev_level_size - intercept_offset + 2 and must hold one value
        # per segment plus the closing ones.  Every later intercept is clamped to prev_level_size - 1 before the base is
        # subtracted; the base itself (the first intercept, which can be as large as Epsilon) must be bounded the same way,
        # otherwise a level over fewer than ~Epsilon positions gets a universe smaller than its element count.
        ini = [i for i in f.d.get('inits', []) if i.get('field') == 'intercept_offset']
        PLS = ('param', 'prev_level_size')
        if not ini:
            obs.append(Ob('INTERCEPT-BASE', f, 0, 'intercept_offset is initialised in the constructor', 'no member initialiser found', UNDECIDED, arm='base'))
        else:
            t = _strip_cast(f.term(ini[0]['expr'], inline=True))
            st, why = UNDECIDED, f"unrecognised initialiser `{fmt_term(t)[:80]}`"

            def bound_ok(b):
                import interval
                l = interval.lin(b, PLS)
                return bool(l) and l[0] == 'SIZE' and l[1] <= 0
            if t[0] == 'deref' or (t[0] in ('param', 'local')):
                st, why = VIOLATED, f"`{fmt_term(t)}` is used unbounded: the first intercept can exceed prev_level_size - 1 (tiny level, large Epsilon), the universe prev_level_size - base + 2 is then smaller than the number of stored intercepts"
            elif t[0] == 'call' and t[1] in ('std::min',) and len(t[2]) == 2:
                if any(bound_ok(a) for a in t[2]):
                    st, why = OK, f"`{fmt_term(t)[:80]}`: bounded by prev_level_size"
            elif t[0] == 'call' and t[1] == 'std::clamp' and len(t[2]) == 3:
                if bound_ok(t[2][2]):
                    st, why = OK, f"`{fmt_term(t)[:80]}`: bounded by prev_level_size"
            elif t[0] == 'cond' and len(t) == 4 and (bound_ok(t[2]) or bound_ok(t[3])):
                c0 = _strip_cast(t[1])
                if c0[0] == 'op' and c0[1] in ('<', '<=', '>', '>='):
                    st, why = OK, f"`{fmt_term(t)[:80]}`: bounded by prev_level_size"
            obs.append(Ob('INTERCEPT-BASE', f, ini[0]['expr'], 'the base subtracted from the stored intercepts is bounded by prev_level_size - 1 like every other stored intercept', why, st, arm='base'))
        # INTERCEPT-FAITHFUL: the value stored for a segment is its computed intercept, possibly lowered to prev_level_size - 1
        # (an intercept above every rank can be lowered without increasing any error).  It is never *raised* by an amount
        # that depends on the data: consecutive intercepts are each within Epsilon of a rank, so they can decrease by up to
        # 2 * Epsilon; forcing the sequence to increase by clamping from below shifts a whole segment up by that much.
        sets = [c for c in f.calls(pred=lambda nd: nd.get('cn') == 'set' and 'sd_vector_builder' in (nd.get('ct') or '')) if reachable(f, c)]
        n_data = 0
        for c in sets:
            a = f.n(c)['args']
            t = f.term(a[-1], inline=True) if a else ('lit', 0)
            derefs = [x for x in _subterms_all(t) if x[0] == 'deref']
            if not derefs:
                continue
            n_data += 1
            raised = None
            for x in _subterms_all(t):
                if x[0] == 'call' and x[1] == 'std::clamp' and len(x[2]) == 3 and any(y[0] == 'deref' for y in _subterms_all(x[2][1])):
                    raised = x[2][1]
                if x[0] == 'call' and x[1] == 'std::max' and len(x[2]) == 2 and all(any(y[0] == 'deref' for y in _subterms_all(z)) for z in x[2]):
                    raised = x
            obs.append(Ob('INTERCEPT-FAITHFUL', f, c, 'a stored intercept is the computed one, at most lowered to prev_level_size - 1; never raised to a bound that depends on another intercept',
                          f"`{fmt_term(t)[:100]}`" + (f": raised to at least `{fmt_term(raised)[:50]}`; raw intercepts of consecutive segments may decrease by up to 2 * Epsilon, "
                                                       f"the segment is then shifted up by that amount" if raised else ''), VIOLATED if raised else OK, arm='lower-clamp'))
        if sets and n_data == 0:
            obs.append(Ob('INTERCEPT-FAITHFUL', f, sets[0], 'the stored intercepts derive from the computed ones', 'no builder.set() argument reads an intercept', UNDECIDED, arm='lower-clamp'))
    return obs


# ------------------------------------------------------------------------------------------ SENTINEL-EXCLUDED (siblings)
def rule_upper_level_sentinel(ctx, which, units=None):
    """Recursive construction: the keys of an upper level are the first keys of the segments of the level below.  When the
    last data key is max - 1 the closing point (last + 1, n) has x == sentinel and may start a segment of its own; that
    segment must not be fed to the next level as a key (its successor last + 1 + 1 wraps around and the builder throws
    "Points must be increasing by x").  Both sibling builders (PGMIndex::build and the CompressedPGMIndex constructor) must
    therefore derive the number of keys of the next level from a value adjusted under a comparison with `sentinel`."""
    obs = []
    tn = {'pgm': 'pgm::PGMIndex::build', 'compressed': 'pgm::CompressedPGMIndex::CompressedPGMIndex', 'eliasfano': 'pgm::EliasFanoPGMIndex::EliasFanoPGMIndex'}[which]
    fs = [f for f in ctx.need(tn, units) if (len(f.params) == 6 if which == 'pgm' else (len(f.params) == 2 and not f.d.get('special')))]
    SEG = ('make_segmentation', 'make_segmentation_par')

    def mentions_sentinel(t):
        return any(x[0] == 'static' and str(x[1]).endswith('sentinel') for x in _subterms_all(t))

    for f in fs:
        u = f.unit
        lams = {g.id: g for g in u.functions.values() if g.d.get('parent_fn') == f.id}

        def reads_segments(l):
            return any(t_[0] in ('local', 'param', 'field') and t_[1] == 'segments' for r_ in l.returns() if l.n(r_)['ch'] for t_ in _subterms_all(l.term(l.n(r_)['ch'][0], inline=True)))

        def lambda_of_local(fn, t):
            t = _strip_cast(t)
            if t[0] == 'local':
                d = fn.defs.get(t[2], {})
                if d.get('init'):
                    it = _strip_cast(fn.term(d['init'], inline=False))
                    if it[0] == 'lambda':
                        # the closure's call operator instantiations are children of f; pick those declared at the same line
                        ln = fn.n(d['init'])['l']
                        return [g for g in lams.values() if g.d.get('line') == ln and g.name == 'operator()']
            return []

        sites = []
        if which == 'eliasfano':
            # the Elias-Fano structure over the segment keys: sd_vector(first segment, one past the last segment)
            for i in f.all_ids():
                nd = f.n(i)
                if nd['c'] in ('CXXConstructExpr', 'CXXTemporaryObjectExpr', 'CXXFunctionalCastExpr') and 'sd_vector' in str(nd.get('rec')) and len(nd.get('args', [])) == 2 and reachable(f, i):
                    sites.append((i, nd['args'][1]))
        for c in (f.calls() if which != 'eliasfano' else ()):
            nd = f.n(c)
            ct = nd.get('ct') or ''
            args = nd.get('args', [])
            if not reachable(f, c):
                continue
            if ct.rsplit('::', 1)[-1] in SEG and len(args) >= 4:
                inl = lambda_of_local(f, f.term(args[2], inline=False))
                if inl and any(reads_segments(l) for l in inl):
                    sites.append((c, args[0]))
            elif nd.get('op') == '()' and nd.get('cd') in lams:
                L = lams[nd['cd']]
                inner = [x for x in L.calls() if (L.n(x).get('ct') or '').rsplit('::', 1)[-1] in SEG]
                if not inner:
                    continue
                cnt = _strip_cast(L.term(L.n(inner[0])['args'][0], inline=False))
                if cnt[0] != 'param':
                    continue
                k = [p_['name'] for p_ in L.params].index(cnt[1])
                call_args = args[1:]       # args[0] is the closure object
                inl = [lambda_of_local(f, f.term(a, inline=False)) for a in call_args]
                if any(l_ and any(reads_segments(x) for x in l_) for l_ in inl) and k < len(call_args):
                    sites.append((c, call_args[k]))
        if not sites:
            if which == 'compressed' and not any(True for _ in fs):
                continue
            obs.append(Ob('SENTINEL-EXCLUDED', f, 0, 'an upper-level segmentation call over the first keys of the level below', 'not found (EpsilonRecursive = 0 instantiation or unrecognised shape)',
                          OK if _epsrec_zero(f) else UNDECIDED, arm='upper'))
            continue
        for (c, cnt_node) in sites:
            seen_terms = []
            # conditions that control the call site itself (e.g. the rejection of data containing the sentinel) say nothing
            # about an adjustment of the count
            site_conds = {(repr(ct_), lab) for (ct_, lab, cn) in _conds(f, c)}
            todo = [(f, f.term(cnt_node, inline=False))]
            done = set()
            while todo and len(done) < 40:
                fn, t = todo.pop()
                key_ = (fn.id, repr(t))
                if key_ in done:
                    continue
                done.add(key_)
                seen_terms.append(t)
                for x in _subterms_all(t):
                    if x[0] == 'local' and len(x) == 3:
                        d = fn.defs.get(x[2], {})
                        if not d and fn is not f and f.defs.get(x[2], {}).get('init'):
                            # a local of the enclosing function captured by the closure (constexpr K sentinel = Index::sentinel)
                            todo.append((f, f.term(f.defs[x[2]]['init'], inline=False)))
                        if d.get('init'):
                            todo.append((fn, fn.term(d['init'], inline=False)))
                            # a closure handed to an algorithm (std::count_if(..., is_coded)): what it returns decides the value
                            if fn is f and _strip_cast(fn.term(d['init'], inline=False))[0] == 'lambda':
                                for L in lambda_of_local(fn, x):
                                    for r_ in L.returns():
                                        if L.n(r_)['ch']:
                                            todo.append((L, L.term(L.n(r_)['ch'][0], inline=False)))
                        for w in d.get('writes', []):
                            todo.append((fn, fn.term(w, inline=False)))
                            for (ct_, lab, cn) in _conds(fn, w):
                                if fn is f and (repr(ct_), lab) in site_conds:
                                    continue
                                todo.append((fn, ct_))
                        # writes through a by-reference capture in a local lambda (same declaration id)
                        for L in (lams.values() if fn is f else ()):
                            # only closures that are actually invoked in f
                            if not any(f.n(c2).get('cd') == L.id and reachable(f, c2) for c2 in f.calls()):
                                continue
                            for j in L.all_ids():
                                nj = L.n(j)
                                tgt = None
                                if nj['c'] == 'UnaryOperator' and nj['op'] in ('++', '--'):
                                    tgt = nj['ch'][0]
                                elif nj['c'] in ('BinaryOperator', 'CompoundAssignOperator') and nj['op'].endswith('=') and nj['op'] not in ('==', '!=', '<=', '>='):
                                    tgt = nj['ch'][0]
                                if tgt and L.n(L.strip(tgt)).get('d') == x[2] and L.n(L.strip(tgt)).get('captured'):
                                    todo.append((L, L.term(j, inline=False)))
                                    for (ct_, lab, cn) in _conds(L, j):
                                        todo.append((L, ct_))
                    if x[0] == 'lambda' and fn is f:
                        # a closure written in place as an argument (std::count_if(first, last, [](auto &s) { return s.key != sentinel; }))
                        for j_ in f.all_ids():
                            if f.n(j_)['c'] == 'LambdaExpr' and f.n(j_).get('lam_op') == x[1]:
                                for L in [g_ for g_ in lams.values() if g_.d.get('line') == f.n(j_)['l'] and g_.name == 'operator()']:
                                    for r_ in L.returns():
                                        if L.n(r_)['ch']:
                                            todo.append((L, L.term(L.n(r_)['ch'][0], inline=False)))
                    if x[0] == 'call' and len(x) == 4 and isinstance(x[3], tuple) and x[3] and x[3][0] == 'local':
                        for L in lambda_of_local(fn, x[3]):
                            for r_ in L.returns():
                                if L.n(r_)['ch']:
                                    todo.append((L, L.term(L.n(r_)['ch'][0], inline=False)))
                                    # which value is returned depends on the conditions the return statement sits under
                                    for (ct_, lab, cn) in _conds(L, r_):
                                        todo.append((L, ct_))
            ok = any(mentions_sentinel(t) for t in seen_terms)
            if which == 'eliasfano':
                obs.append(Ob('SENTINEL-EXCLUDED', f, c, 'the range of segment keys coded in the Elias-Fano structure is delimited under a comparison with `sentinel` (with a last key of max - 1 the segment that maps the keys above it starts at the sentinel, and sentinel - first_key + 1 wraps the universe)',
                              f"end of range `{fmt_term(f.term(cnt_node, inline=False))[:70]}`: " + ('its definition chain tests the sentinel' if ok else
                              f"{len(seen_terms)} defining terms, none compares with `sentinel`"), OK if ok else VIOLATED, arm='ef-range'))
                continue
            obs.append(Ob('SENTINEL-EXCLUDED', f, c, 'the number of keys fed to an upper-level segmentation is adjusted under a comparison with `sentinel` (a trailing segment that starts at the sentinel is not a key of the next level)',
                          f"count `{fmt_term(f.term(cnt_node, inline=False))}`: " + ('its definition chain tests the sentinel' if ok else
                          f"{len(seen_terms)} defining terms, none compares with `sentinel`: with last key == max - 1 the closing segment starts at max and its successor wraps around"),
                          OK if ok else VIOLATED, arm='upper'))
    return obs


def _epsrec_zero(f):
    return any(k == 'EpsilonRecursive' and str(v) == '0' for k, v in (f.targs or {}).items()) if isinstance(f.targs, dict) else False


def _conds(fn, node):
    g = graph(fn)
    pos = fn.block_of(node)
    out = []
    if not pos:
        return out
    for (b, lab) in g.transitive_control_deps(pos[0]):
        c = g.cond(b)
        if c:
            out.append((fn.term(c, inline=False), lab, c))
    return out


# ------------------------------------------------------------------------------------------ Compressed: LEVEL-SIZES
def rule_level_sizes(ctx, units=None):
    """CompressedPGMIndex constructor: the level built from the segments [levels_offsets[j], levels_offsets[j+1]) indexes the level
    below it, so the size it is given (the bound of its intercepts and of the positions it predicts) must be n for the first
    level and levels_offsets[j] - levels_offsets[j-1] otherwise; likewise root_range for the root."""
    import interval
    obs = []
    fs = [f for f in ctx.need('pgm::CompressedPGMIndex::CompressedPGMIndex', units) if len(f.params) == 2 and not f.d.get('special')]
    for f in fs:
        u = f.unit
        lams = {g.id: g for g in u.functions.values() if g.d.get('parent_fn') == f.id}

        def expand(t, depth=0):
            """inline single-definition locals and calls of one-return local closures"""
            if not isinstance(t, tuple) or depth > 6:
                return t
            t = _strip_cast(t)
            if t and t[0] == 'local' and len(t) == 3:
                d = f.defs.get(t[2], {})
                # "writes" that are only passes to a forwarding-reference parameter (emplace_back) do not change the value
                real = [w for w in d.get('writes', []) if f.n(w)['c'] in ('BinaryOperator', 'CompoundAssignOperator', 'UnaryOperator')]
                if d.get('init') and not real:
                    it = _strip_cast(f.term(d['init'], inline=False))
                    if it[0] not in ('lambda', 'construct', 'init'):      # scalars only: containers keep their name
                        return expand(it, depth + 1)
                return t
            if t and t[0] == 'call' and len(t) == 4 and isinstance(t[3], tuple) and t[3] and t[3][0] == 'local' and len(t[2]) == 1:
                d = f.defs.get(t[3][2], {})
                if d.get('init'):
                    ln = f.n(d['init'])['l']
                    cand = [g for g in lams.values() if g.d.get('line') == ln and g.name == 'operator()' and len(g.params) == 1 and len(g.returns()) == 1]
                    if cand:
                        g = cand[0]
                        body = g.term(g.n(g.returns()[0])['ch'][0], inline=True)
                        pn = g.params[0]['name']

                        def subst(x):
                            if isinstance(x, tuple):
                                if x == ('param', pn):
                                    return t[2][0]
                                return tuple(subst(y) for y in x)
                            return x
                        return expand(subst(body), depth + 1)
            return tuple(expand(x, depth + 1) if isinstance(x, tuple) else x for x in t)

        def off_index(t, var):
            """c if t is levels_offsets[var + c]"""
            t = _strip_cast(t)
            if t[0] == 'index' and _strip_cast(t[1])[0] == 'local' and _strip_cast(t[1])[1] == 'levels_offsets':
                l = interval.lin(t[2], ('none',))
                if l and l[0] == var:
                    return l[1]
            return None

        def size_form(t, var):
            """('n',) | ('diff', a, b) for levels_offsets[var+a] - levels_offsets[var+b] | None"""
            t = _strip_cast(t)
            if t == ('field', 'n', THIS):
                return ('n',)
            if t[0] == 'op' and t[1] == '-' and len(t) == 4:
                a, b = off_index(t[2], var), off_index(t[3], var)
                if a is not None and b is not None:
                    return ('diff', a, b)
            return None

        for c in f.calls(pred=lambda nd: nd.get('cn') == 'emplace_back'):
            nd = f.n(c)
            if not (nd.get('obj') and f.term(nd['obj'], inline=False) == ('field', 'levels', THIS)) or len(nd['args']) != 9 or not reachable(f, c):
                continue
            a0 = expand(f.term(nd['args'][0], inline=False))
            a1 = expand(f.term(nd['args'][1], inline=False))
            # loop variable: the local that indexes levels_offsets in the first argument
            var = None
            for x in _subterms_all(a0):
                if x[0] == 'index' and _strip_cast(x[1])[0] == 'local' and _strip_cast(x[1])[1] == 'levels_offsets':
                    l = interval.lin(x[2], ('none',))
                    if l and isinstance(l[0], tuple):
                        var = l[0]
            if var is None:
                obs.append(Ob('LEVEL-SIZES', f, c, 'the segment range of a level is [levels_offsets[j], levels_offsets[j+1])', 'unrecognised range ' + fmt_term(a0)[:60], UNDECIDED, arm='range'))
                continue
            lo = next((off_index(x, var) for x in _subterms_all(a0) if off_index(x, var) is not None), None)
            hi = next((off_index(x, var) for x in _subterms_all(a1) if off_index(x, var) is not None), None)
            pls = expand(f.term(nd['args'][7], inline=False))
            req = 'a level over the segments [levels_offsets[j], levels_offsets[j+1]) is given the size of the level below it: n for the first level, levels_offsets[j] - levels_offsets[j-1] otherwise'
            ok, why = None, fmt_term(pls)[:90]
            if lo is None or hi is None or hi != lo + 1:
                ok = None
            elif pls[0] == 'cond' and len(pls) == 4:
                test, x, y = _strip_cast(pls[1]), size_form(pls[2], var), size_form(pls[3], var)
                tl = interval.lin(test[2], ('none',)) if test[0] == 'op' and test[1] == '==' else None
                tr = interval.lin(test[3], ('none',)) if test[0] == 'op' and test[1] == '==' else None
                # the first level is the one whose lower offset index is 0: var + lo == 0
                first = tl and tr and tl[0] == var and tr[0] is None and tr[1] - tl[1] == -lo
                if first and x == ('n',) and y is not None and y[0] == 'diff':
                    ok = (y[1], y[2]) == (lo, lo - 1)
                    if not ok:
                        why = f"the size passed is levels_offsets[{fmt_term(var)}{y[1]:+d}] - levels_offsets[{fmt_term(var)}{y[2]:+d}]: the size of " + ('the level itself' if (y[1], y[2]) == (hi, lo) else 'another level') + f", not of the level below it (levels_offsets[{fmt_term(var)}{lo:+d}] - levels_offsets[{fmt_term(var)}{lo - 1:+d}])"
            obs.append(Ob('LEVEL-SIZES', f, c, req, why, OK if ok else (UNDECIDED if ok is None else VIOLATED), arm='prev-level-size'))
    return obs


# ------------------------------------------------------------------------------------------ Bucketing: TABLE-WIDTH
def rule_table_width(ctx, units=None):
    """build_top_level(): the cells of the bit-compressed table are BIT_WIDTH(M) bits wide (or TopLevelBitSize bits, checked
    against the same BIT_WIDTH(M)); every value stored into a cell must be <= M.  The stored values are segment indices
    up to and including segments.size() (the end marker), bounded by an interval dataflow with facts v <= segments.size() + c."""
    import interval
    import p_multidim
    obs = []
    TL = ('field', 'top_level', THIS)
    SIZE = ('call', 'std::vector::size', (), ('field', 'segments', THIS))
    for f in ctx.need('pgm::BucketingPGMIndex::build_top_level', units):
        g = graph(f)
        # the width: a local initialised with BIT_WIDTH(X)
        wdef = None
        for vid, d in f.defs.items():
            if d.get('init'):
                x = p_multidim._bit_width_of(f.term(d['init'], inline=False))
                if x is not None:
                    wdef = (vid, d, x)
        if wdef is None:
            obs.append(Ob('TABLE-WIDTH', f, 0, 'the cell width is BIT_WIDTH(M) for a recognisable M', 'no local initialised with BIT_WIDTH(...) found', UNDECIDED, arm='width'))
            continue
        M = interval.lin(wdef[2], SIZE)
        if not M or M[0] != 'SIZE':
            obs.append(Ob('TABLE-WIDTH', f, wdef[1]['init'], 'the cell width is BIT_WIDTH(segments.size() + c)', f"BIT_WIDTH({fmt_term(wdef[2])[:60]})", UNDECIDED, arm='width'))
            continue
        cw = M[1]
        stores = []
        for i in f.all_ids():
            nd = f.n(i)
            if not reachable(f, i):
                continue
            lhs = rhs = None
            if nd['c'] == 'CXXOperatorCallExpr' and nd.get('op') == '=' and len(nd.get('args', [])) == 2:
                lhs, rhs = nd['args']
            elif nd['c'] == 'BinaryOperator' and nd['op'] == '=':
                lhs, rhs = nd['ch']
            if lhs is None:
                continue
            lt = _strip_cast(f.term(lhs, inline=False))
            if lt[0] == 'index' and _strip_cast(lt[1]) == TL:
                stores.append((i, rhs))
        if not stores:
            obs.append(Ob('TABLE-WIDTH', f, 0, 'stores into top_level[...]', 'none found', UNDECIDED, arm='width'))
            continue
        bounds, unknown = interval.bounds_at(f, g, {i for i, _ in stores}, SIZE, assume_size_ge=1)
        widened = set(interval.bounds_at.widened)
        for (i, rhs) in stores:
            v = _strip_cast(f.term(rhs, inline=False))
            l = interval.lin(v, SIZE)
            c = None
            if l and l[0] == 'SIZE':
                c = l[1]
            elif l and isinstance(l[0], tuple):
                b = bounds.get(i, {}).get(l[0])
                c = None if b is None else b + l[1]
            if c is None and _iterator_offset_in_range(f, v, ('field', 'segments', THIS)):
                c = 0       # distance(segments.begin(), it) with it confined to [segments.begin(), segments.end()]
            req = f"every value stored in a cell fits its width BIT_WIDTH(segments.size(){cw:+d})" if cw else 'every value stored in a cell fits its width BIT_WIDTH(segments.size())'
            if c is None and l and isinstance(l[0], tuple) and l[0] in widened:
                obs.append(Ob('TABLE-WIDTH', f, i, req, f"`{fmt_term(v)[:50]}` is incremented around a loop without a guard against segments.size()", VIOLATED, arm='store'))
            elif c is None:
                obs.append(Ob('TABLE-WIDTH', f, i, req, f"`{fmt_term(v)[:50]}`: no bound in terms of segments.size() reaches the store", UNDECIDED, arm='store'))
            elif c <= cw:
                obs.append(Ob('TABLE-WIDTH', f, i, req, f"`{fmt_term(v)[:50]}` <= segments.size(){c:+d}", OK, arm='store'))
            else:
                obs.append(Ob('TABLE-WIDTH', f, i, req, f"`{fmt_term(v)[:50]}` can be segments.size(){c:+d}, which needs one more bit than BIT_WIDTH(segments.size(){cw:+d}) whenever it is a power of two: the cell is truncated",
                              VIOLATED, arm='store'))
    return obs


def _iterator_offset_in_range(f, v, cont):
    """v is std::distance(cont.begin(), it) (or it - cont.begin()) for a local iterator `it` all of whose definitions keep it inside
    [cont.begin(), cont.end()]: cont.begin(), std::next(cont.begin()), or the result of a standard search whose range ends at
    cont.end() and starts at such an iterator.  Then 0 <= v <= cont.size()."""
    BEGIN = lambda t: t[0] == 'call' and str(t[1]).endswith(('::begin', '::cbegin')) and _strip_cast(t[3]) == cont
    END = lambda t: t[0] == 'call' and str(t[1]).endswith(('::end', '::cend')) and _strip_cast(t[3]) == cont
    v = _strip_cast(v)
    if v[0] == 'call' and v[1] == 'std::distance' and len(v[2]) == 2:
        a, it = _strip_cast(v[2][0]), _strip_cast(v[2][1])
    elif v[0] == 'op' and len(v) == 4 and v[1] == '-':
        it, a = _strip_cast(v[2]), _strip_cast(v[3])
    else:
        return False
    if not BEGIN(a) or it[0] != 'local' or len(it) != 3:
        return False
    vid = it[2]
    d = f.defs.get(vid)
    if not d or not d.get('init'):
        return False

    def inside(t, depth=0):
        t = _strip_cast(t)
        if t == it or BEGIN(t) or END(t):
            return True
        if t[0] == 'call' and t[1] in ('std::next',) and (len(t[2]) == 1 or (len(t[2]) == 2 and _strip_cast(t[2][1]) in (('lit', 1), ('lit', 0)))):
            return BEGIN(_strip_cast(t[2][0]))       # begin()+1 <= end() needs a non-empty container: segments always has one
        if t[0] == 'call' and t[1] in ('std::find_if', 'std::find', 'std::find_if_not', 'std::lower_bound', 'std::upper_bound', 'std::partition_point') and len(t[2]) >= 2:
            return inside(t[2][0], depth + 1) and END(_strip_cast(t[2][1]))
        return False
    if not inside(f.term(d['init'], inline=False)):
        return False
    for w in d['writes']:
        nd = f.n(w)
        rhs = None
        if nd['c'] == 'CXXOperatorCallExpr' and nd.get('op') == '=' and len(nd.get('args', [])) == 2:
            rhs = nd['args'][1]
        elif nd['c'] == 'BinaryOperator' and nd['op'] == '=':
            rhs = nd['ch'][1]
        if rhs is None or not inside(f.term(rhs, inline=False)):
            return False
    return not d.get('captured_byref')


# ------------------------------------------------------------------------------------------ Bucketing: BUCKET-AGREE
def rule_bucket_agree(ctx, units=None):
    obs = []
    STEP = ('field', 'step', THIS)
    TL = ('field', 'top_level', THIS)
    for q in ctx.need('pgm::BucketingPGMIndex::segment_for_key', units):
        u = q.unit
        bs = [b for b in u.fns('pgm::BucketingPGMIndex::build_top_level') if b.targs == q.targs]
        if not bs:
            raise AnalysisBroken(f"build_top_level for {q.short()} not found")
        b = bs[0]
        K = ('param', q.params[0]['name'])
        # query side: j = (key - first_key) >> C   |   (key - first_key) / step
        qsite = None
        for i in q.all_ids():
            nd = q.n(i)
            if nd['c'] == 'BinaryOperator' and nd['op'] in ('>>', '/') and reachable(q, i):
                t = norm_tparams(q.term(i, inline=False))
                if contains(t, K):
                    qsite = (i, nd['op'], nd['ch'][1], t)
        # build side: step = K(1) << C   |   std::max<K>(ceil((last-first)/TopLevelSize), 1)
        bsite = None
        for i in b.all_ids():
            nd = b.n(i)
            if nd['c'] == 'BinaryOperator' and nd['op'] == '=' and reachable(b, i) and b.term(nd['ch'][0], inline=False) == STEP:
                bsite = (i, nd['ch'][1])
        if not qsite or not bsite:
            obs.append(Ob('BUCKET-AGREE', q, 0, 'bucket computation at query time and step at build time', f"query site found={bool(qsite)}, build site found={bool(bsite)}", UNDECIDED, arm='bucket'))
            continue
        pow2 = qsite[1] == '>>'
        rb = _strip_cast(qsite[3][2])
        rebased = rb[0] == 'op' and len(rb) == 4 and rb[1] == '-' and _strip_cast(rb[2]) == K and _strip_cast(rb[3]) == FIRST_KEY
        obs.append(Ob('BUCKET-AGREE', q, qsite[0], 'the bucket is computed on the rebased key (key - first_key), as the table was filled',
                      f"bucket computed from `{fmt_term(rb)}`", OK if rebased else VIOLATED, arm='rebase'))
        if pow2:
            cq = _const(q, qsite[2])
            rhs = b.strip(bsite[1], casts=True)
            nd = b.n(rhs)
            cb = None
            if nd['c'] == 'BinaryOperator' and nd['op'] == '<<' and _const(b, nd['ch'][0]) == 1:
                cb = _const(b, nd['ch'][1])
            ok = cq is not None and cq == cb
            obs.append(Ob('BUCKET-AGREE', q, qsite[0], 'bucket = (key - first_key) >> s with step = 1 << s for the same s',
                          f"query shifts by {cq}, build uses step = 1 << {cb}", OK if ok else (UNDECIDED if cq is None or cb is None else VIOLATED), arm='pow2'))
        else:
            ok = _strip_cast(qsite[3][3]) == STEP
            obs.append(Ob('BUCKET-AGREE', q, qsite[0], 'bucket = (key - first_key) / step with the step computed at build time',
                          f"query divides by `{fmt_term(qsite[3][3])}`", OK if ok else VIOLATED, arm='div'))
        # table fill: boundaries are i*step on the rebased key, table cell i receives the first segment index of bucket i
        mo = b.calls_to('__builtin_mul_overflow')
        okb = False
        whyb = 'no i*step bucket boundary found'
        if mo:
            a = b.n(mo[0])['args']
            okb = _strip_cast(b.term(a[1], inline=False)) == STEP
            whyb = f"boundary = {fmt_term(b.term(a[0], inline=False))} * {fmt_term(b.term(a[1], inline=False))} with overflow detection"
        else:
            # a plain product is fine only if it is evaluated in a type wider than the key type (cannot wrap)
            kt = b.unit.base_type(q.params[0]['t'])
            for i in b.all_ids():
                nd = b.n(i)
                if nd['c'] == 'BinaryOperator' and nd['op'] == '*' and reachable(b, i) and contains(b.term(i, inline=False), STEP):
                    rt = b.unit.type(nd['t'])
                    wide = rt.get('k') == 'int' and kt and rt.get('bits', 0) > kt.get('bits', 0)
                    okb = bool(wide)
                    mo = [i]
                    whyb = (f"boundary = {fmt_term(b.term(i, inline=False))} evaluated in {rt['s']} for {kt['s'] if kt else '?'} keys: " +
                            ('cannot wrap' if wide else 'wraps when the key span approaches the range of the key type, emptying the last buckets'))
        # the comparison of a segment key against the boundary: in the fill loop or in a closure handed to an algorithm (find_if)
        cmpok = None
        scopes = [b] + [g for g in b.unit.functions.values() if g.d.get('parent_fn') == b.id and g.body]
        for g in scopes:
            for i in g.all_ids():
                nd = g.n(i)
                if nd['c'] == 'BinaryOperator' and nd['op'] in ('<', '>=', '>', '<=') and (g is not b or reachable(b, i)):
                    t = g.term(i, inline=False)
                    for side in (t[2], t[3]):
                        l = _strip_cast(side)
                        if not any(isinstance(x, tuple) and x and x[0] == 'field' and x[1] == 'key' for x in subterms(l)):
                            continue
                        if l[0] == 'op' and l[1] == '-' and _strip_cast(l[3]) == FIRST_KEY:
                            cmpok = True if cmpok is None else cmpok
                        else:
                            cmpok = False
        st = OK if (okb and cmpok) else (UNDECIDED if (okb and cmpok is None) else VIOLATED)
        obs.append(Ob('BUCKET-AGREE', b, mo[0] if mo else 0, 'bucket boundaries are i*step compared against segment.key - first_key',
                      whyb + f"; rebased comparison present={cmpok}", st, arm='fill'))
        # slice = [top_level[j], top_level[j+1])
        sl = [c for c in q.calls(pred=lambda nd: nd.get('ct') in kinds.UPPER) if reachable(q, c)]
        oks = False
        whys = 'no upper_bound over the bucket slice'
        if sl:
            k = kinds.kind_of_term(q.term(sl[0], inline=True))
            if k:
                lo, hi = k[2], k[3]
                def idx_of(t):
                    for s_ in subterms(t):
                        if s_[0] in ('index',) and s_[1] == TL:
                            return _strip_cast(s_[2])
                        if s_[0] == 'op' and s_[1] == '[]' and s_[2] == TL:
                            return _strip_cast(s_[3])
                    return None
                a, c2 = idx_of(lo), idx_of(hi)
                oks = a is not None and c2 is not None and c2[0] == 'op' and c2[1] == '+' and _strip_cast(c2[2]) == a and c2[3] == ('lit', 1)
                whys = f"slice [top_level[{fmt_term(a) if a else '?'}], top_level[{fmt_term(c2) if c2 else '?'}])"
        obs.append(Ob('BUCKET-AGREE', q, sl[0] if sl else 0, 'search slice is [top_level[j], top_level[j+1]) of the computed bucket j', whys, OK if oks else VIOLATED, arm='slice'))
    return obs


# ------------------------------------------------------------------------------------------ EliasFano: REBASE-AGREE
def rule_rebase_agree(ctx, units=None):
    obs = []
    for f in ctx.need('pgm::EliasFanoPGMIndex::search', units):
        keyname = f.params[0]['name']
        pc = [c for c in f.calls_to('pgm::EliasFanoPGMIndex::pred') if reachable(f, c)]
        if not pc:
            raise AnalysisBroken(f"{f.qname}: call of pred() not found")
        a = _strip_cast(norm_tparams(f.term(f.n(pc[0])['args'][0], inline=True)))
        ok = a[0] == 'op' and a[1] == '-' and is_clamp(_strip_cast(a[2]), keyname) and _strip_cast(a[3]) == FIRST_KEY
        obs.append(Ob('REBASE-AGREE', f, pc[0], 'predecessor queried with (clamped key - first_key)', fmt_term(a), OK if ok else VIOLATED, arm='query'))
        ms = [c for c in f.calls_to('pgm::EliasFanoPGMIndex::SegmentData::operator()') if reachable(f, c)]
        ok2 = False
        why = 'model call not found'
        if ms:
            o = _strip_cast(f.term(f.n(ms[0])['args'][1], inline=False))
            ok2 = o[0] == 'op' and o[1] == '+' and {_strip_cast(o[2]), _strip_cast(o[3])} >= {FIRST_KEY} and any(x[0] in ('local', 'binding', 'ref') or x[0] == 'other' for x in (_strip_cast(o[2]), _strip_cast(o[3])) if x != FIRST_KEY)
            why = f"origin argument = {fmt_term(o)}"
        obs.append(Ob('REBASE-AGREE', f, ms[0] if ms else 0, 'model evaluated with origin + first_key (undoing the rebase)', why, OK if ok2 else VIOLATED, arm='origin'))
    for f in ctx.need('pgm::EliasFanoPGMIndex::EliasFanoPGMIndex', units):
        if len(f.params) != 2 or f.d.get('implicit') or f.d.get('special'):
            continue
        if not f.calls_to('pgm::PGMIndex::build'):
            continue
        g = graph(f)
        # x.key -= first_key for every element of tmp
        subs = [i for i in f.all_ids() if f.n(i)['c'] == 'CompoundAssignOperator' and f.n(i)['op'] == '-=' and reachable(f, i)]
        ok = False
        why = 'no `x.key -= first_key`'
        sub = None
        for i in subs:
            t = f.term(i, inline=False)
            if t[2][0] == 'field' and t[2][1] == 'key' and _strip_cast(t[3]) == FIRST_KEY:
                sub = i
                ok = True
                why = fmt_term(t)
        obs.append(Ob('REBASE-AGREE', f, sub or 0, 'every stored segment key is rebased by first_key before it enters the Elias-Fano structure', why, OK if ok else VIOLATED, arm='store'))
        # ef built from [tmp.begin(), prev(tmp.end())) after the rebase loop
        asg = [i for i in f.all_ids() if f.n(i)['c'] == 'CXXOperatorCallExpr' and f.n(i).get('op') == '=' and f.term(f.n(i)['args'][0], inline=False) == ('field', 'ef', THIS) and reachable(f, i)]
        ok3 = False
        why3 = 'no assignment of ef'
        if asg:
            t = f.term(f.n(asg[-1])['args'][1], inline=True)
            cons = [s_ for s_ in subterms(t) if s_[0] == 'construct' and len(s_[2]) == 2]
            if cons:
                b0, e0 = cons[0][2]
                # all but the last segment (`prev(end)`), or a prefix `begin + count` (what count excludes is SENTINEL-EXCLUDED's
                # business: the segments that start at the sentinel)
                e0s = _strip_cast(e0)
                excl = (e0s[0] == 'call' and e0s[1] == 'std::prev' and e0s[2][0][0] == 'call' and e0s[2][0][1].endswith('::end')) or \
                       (e0s[0] == 'op' and e0s[1] == '+' and _strip_cast(e0s[2]) == _strip_cast(b0))
                beg = b0[0] == 'call' and b0[1].endswith('::begin')
                after = sub is not None and g.before(sub, asg[-1]) or (sub is not None and f.block_of(sub) and graph(f).dominates(f.block_of(sub)[0], f.block_of(asg[-1])[0]))
                # the rebase is in a loop body: the ef assignment must not be reachable before the loop finished
                after = sub is not None and not graph(f).paths_exist(f.block_of(asg[-1])[0], f.block_of(sub)[0])
                ok3 = excl and beg and after
                why3 = f"ef = sd_vector({fmt_term(b0)}, {fmt_term(e0)}); sentinel excluded={excl}; built after the rebase loop={after}"
        obs.append(Ob('REBASE-AGREE', f, asg[-1] if asg else 0, 'the Elias-Fano structure holds the rebased keys of a prefix of the segments that leaves out the sentinel', why3, OK if ok3 else VIOLATED, arm='ef'))
    return obs



# ------------------------------------------------------------------------------------------ CONV-RANGE
CONV_SITES = {
    'pgm': ['pgm::PGMIndex::Segment::operator()'],
    'eliasfano': ['pgm::EliasFanoPGMIndex::SegmentData::operator()'],
    'compressed': ['pgm::CompressedPGMIndex::CompressedLevel::operator()', 'pgm::CompressedPGMIndex::search'],
}


def _is_const_term(t):
    t = _strip_cast(t)
    if t[0] in ('lit', 'flit'):
        return True
    if t[0] == 'static':
        return True
    if t[0] == 'call' and 'numeric_limits' in t[1]:
        return True
    if t[0] == 'op' and len(t) == 4 and t[1] in ('/', '*', '-', '+'):
        return _is_const_term(t[2]) and _is_const_term(t[3])
    if t[0] == 'construct' and len(t[2]) == 1:
        return _is_const_term(t[2][0])
    return False


def _bounded(t):
    """is the floating value t bounded above by a constant by construction?  std::min(p, C), p < C ? p : C, std::clamp"""
    t = _strip_cast(t)
    if t[0] == 'call' and t[1] in ('std::min', 'std::fmin', 'fmin') and len(t[2]) == 2:
        return any(_is_const_term(a) for a in t[2])
    if t[0] == 'call' and t[1] == 'std::clamp' and len(t[2]) == 3:
        return _is_const_term(t[2][2])
    if t[0] == 'cond':
        c, a, b = _strip_cast(t[1]), _strip_cast(t[2]), _strip_cast(t[3])
        if c[0] == 'op' and len(c) == 4 and c[1] in ('<', '<=', '>', '>='):
            l, r = _strip_cast(c[2]), _strip_cast(c[3])
            # p < C ? p : C   |   p > C ? C : p   (and the mirrored spellings)
            if c[1] in ('<', '<='):
                return (l == a and r == b and _is_const_term(b)) or (r == b and l == a and _is_const_term(r)) or (_is_const_term(l) and l == a and r == b and False)
            return (l == b and r == a and _is_const_term(a)) or (_is_const_term(r) and r == a and l == b)
        return False
    if _is_const_term(t):
        return True
    return False


def _guarded_below_const(fn, cast_node, operand):
    """the conversion is only evaluated when its operand was compared below a constant: `p < C ? T(p) : T(C)` or
    `if (p < C) ... T(p)`"""
    ot = _strip_cast(fn.term(operand, inline=False))

    def is_guard(cond_t, truth):
        c = _strip_cast(cond_t)
        if c[0] == 'un' and c[1] == '!':
            return is_guard(c[2], not truth)
        if c[0] == 'op' and len(c) == 4 and c[1] in ('<', '<=', '>', '>='):
            l, r = _strip_cast(c[2]), _strip_cast(c[3])
            if truth and c[1] in ('<', '<=') and l == ot and _is_const_term(fn_inline(fn, r)):
                return True
            if truth and c[1] in ('>', '>=') and r == ot and _is_const_term(fn_inline(fn, l)):
                return True
            if not truth and c[1] in ('>', '>=') and l == ot and _is_const_term(fn_inline(fn, r)):
                return True
            if not truth and c[1] in ('<', '<=') and r == ot and _is_const_term(fn_inline(fn, l)):
                return True
        return False
    # conditional operator arms
    child, par = cast_node, fn.parent(cast_node)
    while par:
        pn = fn.n(par)
        if pn['c'] == 'ConditionalOperator' and len(pn['ch']) == 3:
            arm = 1 if child == pn['ch'][1] or child in set(fn.walk(pn['ch'][1])) else 2 if child in set(fn.walk(pn['ch'][2])) else 0
            if arm and is_guard(fn.term(pn['ch'][0], inline=False), arm == 1):
                return True
        child, par = par, fn.parent(par)
    # enclosing if statements
    g = graph(fn)
    pos = fn.block_of(cast_node)
    if pos:
        for (b, lab) in g.transitive_control_deps(pos[0]):
            c = g.cond(b)
            if c and isinstance(lab, bool) and is_guard(fn.term(c, inline=False), lab):
                return True
    return False


def fn_inline(fn, t):
    """resolve single-definition / constexpr locals inside a term"""
    if isinstance(t, tuple):
        if t and t[0] == 'local' and len(t) == 3:
            init = fn.single_def(t[2])
            if init:
                return fn.term(init, inline=True)
            return t
        return tuple(fn_inline(fn, x) for x in t)
    return t


def rule_conv_range(ctx, which, units=None):
    """on the query path a floating value is converted to an integer only after it was bounded above by a constant: the
    product slope * (k - key) is unbounded for keys far beyond the segment, and converting an out-of-range floating value
    is undefined (in practice 0 or INT_MIN: the range then lies at the start of the segment instead of its end)"""
    obs = []
    us = units if units is not None else ctx.units
    for tn in CONV_SITES[which]:
        for f in ctx.need(tn, us):
            n = 0
            for i in f.all_ids():
                nd = f.n(i)
                if nd.get('ck') != 'FloatingToIntegral' or not reachable(f, i):
                    continue
                n += 1
                sub = nd['ch'][0]
                t = f.term(sub, inline=True)
                ok = _bounded(t) or _guarded_below_const(f, i, sub)
                obs.append(Ob('CONV-RANGE', f, i, 'a floating position estimate is bounded above by a constant before it is converted to an integer',
                              f"`{fmt_term(f.term(sub, inline=False))[:90]}` " + ('is bounded' if ok else 'is converted unbounded (undefined for values beyond the integer range; e.g. a key far beyond a steep segment)'),
                              OK if ok else VIOLATED, arm=f.name))
            if n == 0 and not tn.endswith('::search'):
                obs.append(Ob('CONV-RANGE', f, 0, 'a floating position estimate converted to an integer', 'no floating-to-integer conversion found in the model evaluation', UNDECIDED, arm=f.name))
            # INT-INTERCEPT: the (integer) intercept is added after the conversion, in integer arithmetic.  Converted to
            # Floating (float by default: 24-bit mantissa) it is rounded as soon as positions reach 2^24.
            reads, bad = 0, []
            for i in f.all_ids():
                nd = f.n(i)
                if not reachable(f, i):
                    continue
                if nd['c'] == 'MemberExpr' and nd.get('dk') == 'field' and nd.get('n') in INTERCEPT_SOURCES:
                    reads += 1
                elif nd['c'] in ('CXXMemberCallExpr', 'CallExpr') and nd.get('cn') in INTERCEPT_SOURCES:
                    reads += 1
                if nd.get('ck') == 'IntegralToFloating':
                    t = f.term(nd['ch'][0], inline=True)
                    src = [x for x in _subterms_all(t) if (x[0] == 'field' and x[1] in INTERCEPT_SOURCES) or (x[0] == 'call' and x[1].rsplit('::', 1)[-1] in INTERCEPT_SOURCES)]
                    if src:
                        bad.append((i, t))
            # ... and in a type at least as wide as the returned position: uint32_t + uint32_t wraps at 2^32 although the
            # function returns size_t
            rets = [r for r in f.returns() if f.n(r)['ch']]
            rbits = max([(u_.type(f.n(f.n(r)['ch'][0]).get('t', 0)) or {}).get('bits', 0) for r in rets for u_ in [f.unit]] or [0])
            for i in f.all_ids():
                nd = f.n(i)
                if nd['c'] in ('BinaryOperator', 'CompoundAssignOperator') and nd['op'] in ('+', '+=') and reachable(f, i):
                    ops = [_strip_cast(f.term(c_, inline=False)) for c_ in nd['ch']]
                    if any((o[0] == 'field' and o[1] in INTERCEPT_SOURCES) or (o[0] == 'call' and o[1].rsplit('::', 1)[-1] in INTERCEPT_SOURCES) for o in ops):
                        ty = f.unit.type(nd.get('t', 0)) or {}
                        if ty.get('k') == 'int' and rbits and ty.get('bits', 0) < rbits:
                            bad.append((i, ('narrow', ty.get('s'), rbits)))
            if reads or bad:
                if bad and bad[0][1][0] == 'narrow':
                    obs.append(Ob('INT-INTERCEPT', f, bad[0][0], 'the integer intercept is added to the converted estimate in an integer type at least as wide as the returned position',
                                  f"`{fmt_term(f.term(bad[0][0], inline=False))[:60]}` is evaluated in `{bad[0][1][1]}` ({rbits}-bit result): the sum wraps for estimates near the type's maximum (a far query is routed to the start of the segment)",
                                  VIOLATED, arm=f.name))
                    continue
                obs.append(Ob('INT-INTERCEPT', f, bad[0][0] if bad else 0, 'the integer intercept is added to the converted estimate in integer arithmetic (never converted to the floating type of the slope)',
                              f"{reads} reads of the intercept, none converted to a floating type" if not bad else
                              f"`{fmt_term(bad[0][1])[:70]}` is converted to a floating type: with Floating = float positions >= 2^24 are rounded",
                              OK if not bad else VIOLATED, arm=f.name))
    return obs


INTERCEPT_SOURCES = ('intercept', 'get_intercept', 'root_intercept', 'intercept_offset')


def _subterms_all(t):
    if isinstance(t, tuple):
        if t and isinstance(t[0], str):
            yield t
        for x in t:
            if isinstance(x, tuple):
                yield from _subterms_all(x)
