"""Inlining of helpers the rules do not know.

A refactoring that moves a few statements into a new function or local closure must not change any verdict: the rules are
written against the functions of the pinned tree (the frozen vocabulary, rules/known_names.json).  Before any rule runs, every
call of an out-of-vocabulary function or closure whose body and CFG are available is replaced by its body:

  * AST: the call node becomes an `InlinedCall` node whose children are the argument bindings (synthetic DeclStmts
    `param = argument`; a non-const reference parameter bound to a plain variable is renamed to that variable instead) and a
    clone of the callee's body; its `return`s become `InlinedReturn` nodes.  The value of the node is the returned expression
    (one return), a conditional term (`if (c) return a; return b;`) or an opaque `phi` of the returned values.
  * CFG: the block holding the call is split at the call; the clone of the callee's CFG is spliced in between; blocks of the
    clone that end in a throw lead to the caller's exit.

Callees are inlined bottom-up (a helper that calls another new helper), never recursively.  On the pinned tree nothing is out of
vocabulary and this pass does nothing.  A call that cannot be inlined (recursion, no body, call through another object whose
expression has side effects) stays a call and is handled by the softening of rules/common.py.
"""
import copy

from ir import known_names

NODE_REFS = ('cond', 'then', 'else', 'try', 'omp_body', 'obj')
MAX_NODES = 6000
_instance = [0]


def _is_unknown_callee(f, nd, callee, known, closure_home):
    """(kind, closure-name) if the call `nd` in f targets an out-of-vocabulary helper that may be inlined, else None"""
    if callee is None or not callee.body or not callee.cfg:
        return None
    if not (callee.tname.startswith('pgm::') or callee.file.endswith('cpgm.cpp')):
        return None
    c = nd['c']
    if c == 'CXXOperatorCallExpr' and nd.get('op') == '()' and '(lambda)' in callee.tname:
        a0 = f.strip(nd['args'][0]) if nd.get('args') else 0
        a0n = f.n(a0) if a0 else {}
        if a0n.get('c') != 'DeclRefExpr' or a0n.get('dk') not in ('local', 'static_local'):
            return None
        owner = closure_home.get(a0n.get('d'))
        if owner is None:
            return None         # not a variable initialised with a lambda expression (a functor parameter, a copy)
        if owner in known['functions'] and (owner + '|' + a0n.get('n', '')) in known['closures']:
            return None
        return ('closure', a0n.get('n', ''))
    if c in ('CallExpr', 'CXXMemberCallExpr'):
        if callee.tname in known['functions'] or '(lambda)' in callee.tname:
            return None
        return ('function', callee.name)
    return None


def _remap(nd, base):
    n = dict(nd)
    n['ch'] = [x + base for x in nd.get('ch', [])]
    if 'args' in nd:
        n['args'] = [x + base for x in nd['args']]
    for k in NODE_REFS:
        if nd.get(k):
            n[k] = nd[k] + base
    if 'vars' in nd:
        vs = []
        for v in nd['vars']:
            v = dict(v)
            if v.get('init'):
                v['init'] += base
            vs.append(v)
        n['vars'] = vs
    if 'captures' in nd:
        cs = []
        for cp in nd['captures']:
            cp = dict(cp)
            if cp.get('init'):
                cp['init'] += base
            cs.append(cp)
        n['captures'] = cs
    if nd['c'] == 'InlinedCall':
        n['body'] = nd['body'] + base
        n['rets'] = [x + base for x in nd.get('rets', [])]
        v = nd.get('value', ('void',))
        if v[0] == 'one':
            n['value'] = ('one', v[1] + base)
        elif v[0] == 'cond':
            n['value'] = ('cond', [(a + base, b + base) for a, b in v[1]], v[2] + base)
        elif v[0] == 'phi':
            n['value'] = ('phi', [x + base for x in v[1]])
    if 'handlers' in nd:
        n['handlers'] = [dict(h, body=(h['body'] + base if h.get('body') else 0)) for h in nd['handlers']]
    return n


def _value_of_body(f, body, rets):
    """structural value of an inlined body: ('one', node) | ('cond', [(cond node, value node)...], default node) | ('phi', nodes)"""
    vals = [f.n(r)['ch'][0] for r in rets if f.n(r)['ch']]
    if not vals:
        return ('void',)
    if len(vals) == 1 and len(rets) == 1:
        return ('one', vals[0])
    b = f.n(body)
    if b['c'] == 'CompoundStmt':
        arms = []
        default = None
        ok = True
        for s in b['ch']:
            sn = f.n(s)
            if sn['c'] == 'DeclStmt':
                continue
            if sn['c'] == 'IfStmt' and not sn.get('else') and not sn.get('constexpr'):
                t = sn['then']
                tn = f.n(t)
                if tn['c'] == 'CompoundStmt' and len(tn['ch']) == 1:
                    t = tn['ch'][0]
                    tn = f.n(t)
                if tn['c'] == 'InlinedReturn' and tn['ch']:
                    arms.append((sn['cond'], tn['ch'][0]))
                    continue
            if sn['c'] == 'InlinedReturn' and sn['ch'] and s == b['ch'][-1]:
                default = sn['ch'][0]
                continue
            if not any(f.n(j)['c'] == 'InlinedReturn' and f.n(j).get('inl') == sn.get('inl') for j in f.walk(s)):
                continue        # a statement without a return of this helper between the guarded returns and the final one
            ok = False
            break
        if ok and arms and default and len(arms) + 1 == len(rets):
            return ('cond', arms, default)
    return ('phi', vals)


class Inliner:
    def __init__(self, unit):
        self.unit = unit
        self.known = known_names()
        self.done = {}
        self.stack = []
        self.count = 0
        self.closure_home = {}
        for f in unit.functions.values():
            for n in f.nodes:
                if n['c'] == 'DeclStmt':
                    for v in n.get('vars', []):
                        if v.get('init') and f.n(f.strip(v['init']))['c'] == 'LambdaExpr':
                            self.closure_home[v['id']] = f.tname

    def run(self):
        kf = self.known['functions']
        if kf is None or not hasattr(kf, '__len__') or len(kf) == 0:
            return 0
        for f in list(self.unit.functions.values()):
            self.inlined(f)
        return self.count

    def prepare(self, callee):
        return self.inlined(callee)

    def candidates(self, f):
        out = []
        for i in range(1, len(f.nodes) + 1):
            nd = f.nodes[i - 1]
            if nd['c'] in ('CallExpr', 'CXXMemberCallExpr', 'CXXOperatorCallExpr') and nd.get('cd'):
                callee = self.unit.functions.get(nd['cd'])
                if callee is not None and callee.id != f.id:
                    k = _is_unknown_callee(f, nd, callee, self.known, self.closure_home)
                    if k:
                        out.append((i, callee, k))
        return out

    def inlined(self, f):
        if f.id in self.done:
            return f
        if f.id in self.stack:
            return f
        self.done[f.id] = True
        if not f.body or not f.cfg:
            return f
        self.stack.append(f.id)
        try:
            guard = 0
            while guard < 200:
                guard += 1
                cands = [c for c in self.candidates(f) if c[1].id not in self.stack and not f.nodes[c[0] - 1].get('no_inline')]
                if not cands:
                    break
                i, callee, kind = cands[0]
                g2 = self.prepare(callee)
                if not self.splice(f, i, g2, kind):
                    f.nodes[i - 1]['no_inline'] = True
        finally:
            self.stack.pop()
        return f

    # -------------------------------------------------------------------------------------------------------------
    def splice(self, f, ci, g, kind):
        nd = f.nodes[ci - 1]
        if len(g.nodes) > MAX_NODES or len(f.nodes) > 60000:
            return False
        args = list(nd.get('args', []))
        if kind[0] == 'closure':
            args = args[1:]
        elif nd['c'] == 'CXXOperatorCallExpr':
            return False
        if len(args) != len(g.params):
            return False
        # the call must be a CFG element of f
        pos = None
        for b in f.cfg['blocks']:
            if ci in b['elems']:
                pos = (b, b['elems'].index(ci))
                break
        if pos is None:
            return False
        # object of a member call: `this` (implicit or explicit) or a side-effect free expression
        obj = nd.get('obj')
        obj_sub = None
        if obj:
            so = f.strip(obj, casts=True)
            if f.n(so)['c'] != 'CXXThisExpr':
                t = f.term(obj, inline=False)
                if not _simple_object(t):
                    return False
                obj_sub = obj
        if not getattr(f, '_inline_private', False):
            f.nodes = [dict(n) for n in f.nodes]
            f.cfg = copy.deepcopy(f.cfg)
            f._inline_private = True
            f.inlined_from = []
            f.inline_lossy = []
            nd = f.nodes[ci - 1]
            for b in f.cfg['blocks']:
                if ci in b['elems']:
                    pos = (b, b['elems'].index(ci))
                    break
        _instance[0] += 1
        inst = _instance[0]
        base = len(f.nodes)
        # locals of g (parameters, declared variables, bindings) -> fresh ids when g was inlined into f before
        glocals = {p['id'] for p in g.params}
        for n in g.nodes:
            if n['c'] == 'DeclStmt':
                for v in n.get('vars', []):
                    glocals.add(v['id'])
                    for bnd in v.get('bindings', []):
                        glocals.add(bnd['id'])
        present = set()
        for n in f.nodes:
            if n['c'] == 'DeclStmt':
                for v in n.get('vars', []):
                    present.add(v['id'])
        has_lambda = any(n['c'] == 'LambdaExpr' for n in g.nodes)
        ren = {}
        if (glocals & present) and not has_lambda:
            ren = {x: x + 100000000 * inst for x in glocals}
        R = lambda x: ren.get(x, x)
        # parameters bound by non-const reference to a plain variable: renamed to that variable
        pm = nd.get('pmodes', [])
        alias = {}
        binds = []
        for k, (p, a) in enumerate(zip(g.params, args)):
            mode = pm[k] if k < len(pm) else 'val'
            sa = f.strip(a)
            san = f.n(sa) if sa else {}
            if mode == 'ref' and san.get('c') == 'DeclRefExpr' and san.get('dk') in ('local', 'param', 'binding', 'static_local'):
                alias[p['id']] = san
            else:
                binds.append((p, a))
        for n in g.nodes:
            m = _remap(n, base)
            c = m['c']
            if c == 'DeclRefExpr' and m.get('d') in glocals:
                if m['d'] in alias:
                    src = alias[m['d']]
                    for key in ('d', 'n', 'dk', 'dref', 'captured'):
                        if key in src:
                            m[key] = src[key]
                        else:
                            m.pop(key, None)
                else:
                    if m.get('dk') == 'param':
                        m['dk'] = 'local'
                        m['was_param'] = True
                    m['d'] = R(m['d'])
            elif c == 'DeclStmt':
                for v in m['vars']:
                    v['id'] = R(v['id'])
                    if 'bindings' in v:
                        v['bindings'] = [dict(bd, id=R(bd['id'])) for bd in v['bindings']]
            elif c == 'ReturnStmt':
                m['c'] = 'InlinedReturn'
            elif c == 'CXXThisExpr' and obj_sub:
                m = {'c': 'ParenExpr', 'l': m['l'], 't': m.get('t', 0), 'ch': [obj_sub], 'this_of_inlined': True}
            m['inl'] = inst
            f.nodes.append(m)
        gbody = g.body + base
        # synthetic bindings parameter = argument
        bind_ids = []
        for p, a in binds:
            f.nodes.append({'c': 'DeclStmt', 'l': nd['l'], 'synthetic': True, 'inl': inst,
                            'vars': [{'id': R(p['id']), 'name': p['name'], 't': p['t'], 'init': a, 'synthetic': True}], 'ch': [a]})
            bind_ids.append(len(f.nodes))
        rets = [j + base for j in range(1, len(g.nodes) + 1) if g.nodes[j - 1]['c'] == 'ReturnStmt']
        # nested inlined calls of g keep their own returns (already InlinedReturn there, not collected here)
        keep = [x for x in nd['ch'] if x not in args] if kind[0] != 'closure' else [nd['args'][0]]
        aliased_args = [a for p, a in zip(g.params, args) if p['id'] in alias]
        newnd = {'c': 'InlinedCall', 'l': nd['l'], 't': nd.get('t', 0), 'inl': inst, 'callee_name': kind[1], 'ct_inlined': g.tname,
                 'orig': {k: v for k, v in nd.items() if k not in ('ch',)},
                 'ch': keep + aliased_args + bind_ids + [gbody], 'body': gbody, 'rets': rets}
        if nd.get('lv'):
            newnd['lv'] = nd['lv']
        f.nodes[ci - 1] = newnd
        # reset caches before using node helpers on the new nodes
        f._parents = None
        f._defs = None
        f._blockof = None
        if hasattr(f, '_graph'):
            del f._graph
        val = _value_of_body(f, gbody, rets)
        newnd['value'] = val
        if val[0] == 'phi':
            f.inline_lossy.append(kind[1])
        from ir import expandable_helper
        f.inlined_from.append(g.tname if kind[0] == 'function' else f"closure {kind[1]}")
        if not expandable_helper(g) or getattr(g, 'inlined_nontrivial', None):
            if not hasattr(f, 'inlined_nontrivial'):
                f.inlined_nontrivial = []
            f.inlined_nontrivial.append(g.name if kind[0] == 'function' else 'closure `' + kind[1] + '`')
        for x in glocals:
            if x in self.closure_home:
                self.closure_home[R(x)] = self.closure_home[x]
        for x in getattr(g, 'inline_lossy', []) or []:
            f.inline_lossy.append(x)
        # ---------------------------------------------------------------- CFG
        blk, k = pos
        blocks = f.cfg['blocks']
        maxid = max(b['id'] for b in blocks)
        off = maxid + 1
        b2 = {'id': off + max(b_['id'] for b_ in g.cfg['blocks']) + 1, 'elems': blk['elems'][k:], 'succs': blk['succs']}     # the ids of an already inlined callee are not contiguous
        for key in ('term', 'term_c', 'cond', 'noreturn'):
            if key in blk:
                b2[key] = blk.pop(key)
        blk['elems'] = blk['elems'][:k] + bind_ids
        f_exit = f.cfg['exit']
        gexit = g.cfg['exit'] + off
        gentry = g.cfg['entry'] + off
        blk['succs'] = [gentry]
        for gb in g.cfg['blocks']:
            nb = {'id': gb['id'] + off, 'elems': [e + base for e in gb['elems']],
                  'succs': [(s + off if s is not None else None) for s in gb['succs']]}
            for key in ('term', 'cond'):
                if gb.get(key):
                    nb[key] = gb[key] + base
            for key in ('term_c', 'noreturn'):
                if key in gb:
                    nb[key] = gb[key]
            if nb['id'] == gexit:
                nb['succs'] = [b2['id']]
            elif any(g.nodes[e - 1]['c'] == 'CXXThrowExpr' for e in gb['elems']) and nb['succs'] == [gexit]:
                nb['succs'] = [f_exit]
            blocks.append(nb)
        blocks.append(b2)
        self.count += 1
        return True


def _simple_object(t):
    """a term without calls/side effects that may be evaluated more than once: variables, fields, indexing, deref"""
    if not isinstance(t, tuple):
        return True
    if t[0] in ('local', 'param', 'this', 'lit', 'static', 'tparam'):
        return True
    if t[0] in ('field', 'member'):
        return _simple_object(t[2])
    if t[0] in ('deref', 'cast'):
        return _simple_object(t[-1])
    if t[0] == 'index':
        return _simple_object(t[1]) and _simple_object(t[2])
    if t[0] == 'call' and str(t[1]).endswith(('::operator[]', '::level', '::pgm', '::back', '::front')):
        return all(_simple_object(x) for x in t[2]) and (t[3] is None or _simple_object(t[3]))
    return False


def inline_unit(unit):
    return Inliner(unit).run()


class Flattener(Inliner):
    """flat(fn): a private copy of fn in which every direct call of a local closure (known or not) and of an out-of-vocabulary
    helper is inlined, recursively.  For rules that state a fact about the function as a whole (what happens between two
    calls, in which order) and must not depend on how its body is cut into closures.  The unit is left untouched."""

    def __init__(self, unit):
        super().__init__(unit)
        self.copies = {}

    def _copy(self, fn):
        from ir import Fn
        nf = Fn(fn.unit, dict(fn.d))
        nf.nodes = [dict(n) for n in fn.nodes]
        nf.cfg = copy.deepcopy(fn.cfg)
        nf._inline_private = True
        nf.inlined_from = list(getattr(fn, 'inlined_from', []) or [])
        nf.inline_lossy = list(getattr(fn, 'inline_lossy', []) or [])
        if getattr(fn, 'inlined_nontrivial', None):
            nf.inlined_nontrivial = list(fn.inlined_nontrivial)
        nf.flat_of = fn
        return nf

    def candidates(self, f):
        out = []
        for i in range(1, len(f.nodes) + 1):
            nd = f.nodes[i - 1]
            if nd['c'] in ('CallExpr', 'CXXMemberCallExpr', 'CXXOperatorCallExpr') and nd.get('cd'):
                callee = self.unit.functions.get(nd['cd'])
                if callee is None or callee.id == f.id or not callee.body or not callee.cfg:
                    continue
                if nd['c'] == 'CXXOperatorCallExpr' and nd.get('op') == '()' and '(lambda)' in callee.tname:
                    a0 = f.strip(nd['args'][0]) if nd.get('args') else 0
                    a0n = f.n(a0) if a0 else {}
                    if a0n.get('c') == 'DeclRefExpr' and a0n.get('dk') in ('local', 'static_local') and a0n.get('d') in self.closure_home:
                        out.append((i, callee, ('closure', a0n.get('n', ''))))
                    continue
                k = _is_unknown_callee(f, nd, callee, self.known, self.closure_home)
                if k:
                    out.append((i, callee, k))
        return out

    def prepare(self, callee):
        if callee.id not in self.copies:
            c = self._copy(callee)
            self.copies[callee.id] = c
            self.done.pop(c.id, None)
            self.inlined(c)
        return self.copies[callee.id]

    def flat(self, fn):
        c = self._copy(fn)
        self.done.pop(c.id, None)
        self.inlined(c)
        return c


def flat(fn):
    """fully inlined private copy of fn (cached on fn)"""
    c = getattr(fn, '_flat', None)
    if c is None:
        fl = getattr(fn.unit, '_flattener', None)
        if fl is None:
            fl = fn.unit._flattener = Flattener(fn.unit)
        c = fl.flat(fn)
        fn._flat = c
    return c
