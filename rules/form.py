"""FORM: normal forms of integer expressions and a decision procedure for their equality.

Language: integer literals, opaque atoms (any other term), + - and * by constants, comparisons, ?:,
std::min/std::max, !, &&, ||.  An expression becomes a piecewise-linear function: a list of pieces
(guards, value) where guards are atoms `L <= 0` over integer linear forms and value is a linear form.

Two such functions are compared exactly when all their guards vary along ONE common direction D (true for
SUB/ADD/WINDOW: x-e, x+e+2-s): the line of D is cut at every breakpoint, on each elementary interval both
functions have one active piece, and the difference of the two values must vanish there (identically, or
because the interval is the single point at which a multiple of D cancels it).  Anything outside this
fragment raises Unrecognised (analysis broken), never a verdict.

Arithmetic is over the mathematical integers: the rules state separately that size_t positions do not wrap.
"""
from fractions import Fraction
from math import gcd


class Unrecognised(Exception):
    pass


# ----------------------------------------------------------------------------- linear forms
class Lin:
    __slots__ = ('c', 'k')

    def __init__(self, coefs=None, const=0):
        self.c = {v: a for v, a in (coefs or {}).items() if a != 0}
        self.k = const

    def __add__(self, o):
        d = dict(self.c)
        for v, a in o.c.items():
            d[v] = d.get(v, 0) + a
        return Lin(d, self.k + o.k)

    def __neg__(self):
        return Lin({v: -a for v, a in self.c.items()}, -self.k)

    def __sub__(self, o):
        return self + (-o)

    def scale(self, s):
        return Lin({v: a * s for v, a in self.c.items()}, self.k * s)

    def is_const(self):
        return not self.c

    def key(self):
        return (tuple(sorted(self.c.items(), key=lambda x: repr(x[0]))), self.k)

    def __eq__(self, o):
        return self.c == o.c and self.k == o.k

    def __hash__(self):
        return hash(self.key())

    def show(self, names=None):
        from ir import fmt_term
        parts = []
        for v, a in sorted(self.c.items(), key=lambda x: repr(x[0])):
            n = fmt_term(v)
            if len(n) > 40:
                n = n[:37] + '...'
            parts.append((f"{a}*" if a != 1 else '') + n)
        if self.k or not parts:
            parts.append(str(self.k))
        return ' + '.join(parts)


def direction(l):
    """(primitive direction tuple, scale s, const c) with l = s*D + c"""
    items = sorted(l.c.items(), key=lambda x: repr(x[0]))
    if not items:
        return None, 0, l.k
    g = 0
    for _, a in items:
        g = gcd(g, abs(a))
    sign = 1 if items[0][1] > 0 else -1
    s = g * sign
    D = tuple((v, a // s) for v, a in items)
    return D, s, l.k


# ----------------------------------------------------------------------------- conversion
ARITH_CALL_MIN = ('std::min',)
ARITH_CALL_MAX = ('std::max',)
CMP = {'<', '<=', '>', '>=', '==', '!='}


def _neg_atom(a):
    # not (L <= 0)  <=>  L >= 1  <=>  -L + 1 <= 0
    return (-a) + Lin({}, 1)


def value(t, depth=0):
    """term -> list of (guards tuple of Lin meaning Lin<=0, Lin value)"""
    if depth > 40:
        raise Unrecognised('expression too deep')
    k = t[0]
    if k == 'lit' and t[1] is not None:
        return [((), Lin({}, int(t[1])))]
    if k == 'op' and len(t) == 4:
        op = t[1]
        if op in ('+', '-'):
            A, B = value(t[2], depth + 1), value(t[3], depth + 1)
            out = []
            for ga, va in A:
                for gb, vb in B:
                    out.append((ga + gb, va + vb if op == '+' else va - vb))
            return out
        if op == '*':
            A, B = value(t[2], depth + 1), value(t[3], depth + 1)
            out = []
            for ga, va in A:
                for gb, vb in B:
                    if va.is_const():
                        out.append((ga + gb, vb.scale(va.k)))
                    elif vb.is_const():
                        out.append((ga + gb, va.scale(vb.k)))
                    else:
                        return [((), Lin({t: 1}))]
            return out
    if k == 'cond':
        out = []
        for g in cases(t[1], True, depth + 1):
            for ga, va in value(t[2], depth + 1):
                out.append((g + ga, va))
        for g in cases(t[1], False, depth + 1):
            for gb, vb in value(t[3], depth + 1):
                out.append((g + gb, vb))
        return out
    if k == 'call' and t[1] in ARITH_CALL_MIN and len(t[2]) == 2:
        a, b = t[2]
        return value(('cond', ('op', '<=', a, b), a, b), depth + 1)
    if k == 'call' and t[1] in ARITH_CALL_MAX and len(t[2]) == 2:
        a, b = t[2]
        return value(('cond', ('op', '>=', a, b), a, b), depth + 1)
    if k == 'tparam':
        # keep the symbol: the rules reason about the parameter, not about one instantiation's value
        return [((), Lin({('tparam', t[1]): 1}))]
    return [((), Lin({t: 1}))]


def cases(t, truth, depth=0):
    """DNF: list of guard tuples under which boolean term t has the given truth value"""
    k = t[0]
    if k == 'un' and t[1] == '!':
        return cases(t[2], not truth, depth + 1)
    if k == 'op' and len(t) == 4 and t[1] in ('&&', '||'):
        conj = (t[1] == '&&') == truth   # true&& / false|| are conjunctions of the sub-cases
        A = cases(t[2], truth, depth + 1)
        B = cases(t[3], truth, depth + 1)
        if conj:
            return [a + b for a in A for b in B]
        return A + B
    if k == 'op' and len(t) == 4 and t[1] in CMP:
        op = t[1]
        out = []
        for ga, va in value(t[2], depth + 1):
            for gb, vb in value(t[3], depth + 1):
                L = va - vb
                one = Lin({}, 1)
                if op == '<=':
                    alts = [[L]]
                elif op == '<':
                    alts = [[L + one]]
                elif op == '>=':
                    alts = [[-L]]
                elif op == '>':
                    alts = [[(-L) + one]]
                elif op == '==':
                    alts = [[L, -L]]
                else:
                    alts = [[L + one], [(-L) + one]]
                if not truth:
                    # negate the DNF `alts`
                    if op in ('<=', '<', '>=', '>'):
                        alts = [[_neg_atom(alts[0][0])]]
                    elif op == '==':
                        alts = [[L + one], [(-L) + one]]
                    else:
                        alts = [[L, -L]]
                for alt in alts:
                    out.append(ga + gb + tuple(alt))
        return out
    if k == 'lit':
        return [()] if bool(t[1]) == truth else []
    raise Unrecognised('boolean expression outside the FORM language: ' + repr(t)[:120])


# ----------------------------------------------------------------------------- 1-D decision
def _interval_of_atom(a, D):
    """atom a (meaning a <= 0) as an interval constraint on d = D.x: returns (lo, hi) with None = unbounded,
    or True/False for constant atoms; raises Unrecognised for a different direction"""
    Da, s, c = direction(a)
    if Da is None:
        return (c <= 0)
    if Da != D:
        raise Unrecognised('guards vary along more than one direction')
    # s*d + c <= 0
    if s > 0:
        return (None, (-c) // s)          # d <= floor(-c/s)
    return (_ceil_div(c, -s), None)       # d >= ceil(c/|s|)


def _ceil_div(a, b):
    return -((-a) // b)


def _active(pieces, D, d):
    """pieces active at point d of direction D"""
    out = []
    for g, v in pieces:
        ok = True
        for a in g:
            iv = _interval_of_atom(a, D)
            if iv is True:
                continue
            if iv is False:
                ok = False
                break
            lo, hi = iv
            if lo is not None and d < lo:
                ok = False
                break
            if hi is not None and d > hi:
                ok = False
                break
        if ok:
            out.append(v)
    return out


def equivalent(t1, t2):
    """(True, '') or (False, reason).  Raises Unrecognised outside the decidable fragment."""
    P1, P2 = value(t1), value(t2)
    dirs = set()
    bps = set()
    for P in (P1, P2):
        for g, _ in P:
            for a in g:
                Da, s, c = direction(a)
                if Da is not None:
                    dirs.add(Da)
    if len(dirs) > 1:
        # each function on its own varies along one direction, and the directions differ: a piecewise-linear function
        # with a real kink (two pieces with different values) along D1 cannot equal one that is smooth there
        d1 = {direction(a)[0] for g, _ in P1 for a in g} - {None}
        d2 = {direction(a)[0] for g, _ in P2 for a in g} - {None}
        if len(d1) == 1 and len(d2) == 1 and d1 != d2:
            for P, D_ in ((P1, next(iter(d1))), (P2, next(iter(d2)))):
                vals = {v for _, v in P}
                if len(vals) > 1:
                    return False, ('the breakpoints lie on different hyperplanes: ' + Lin(dict(next(iter(d1)))).show() + ' = const  vs  ' +
                                   Lin(dict(next(iter(d2)))).show() + ' = const')
        raise Unrecognised('guards vary along more than one direction: ' + '; '.join(Lin(dict(D)).show() for D in dirs))
    if not dirs:
        v1 = {v for g, v in P1 if all(_interval_of_atom(a, None) for a in g)}
        v2 = {v for g, v in P2 if all(_interval_of_atom(a, None) for a in g)}
        if len(v1) == 1 and v1 == v2:
            return True, ''
        return False, f"{' / '.join(v.show() for v in v1)}  vs  {' / '.join(v.show() for v in v2)}"
    D = next(iter(dirs))
    for P in (P1, P2):
        for g, _ in P:
            for a in g:
                iv = _interval_of_atom(a, D)
                if isinstance(iv, tuple):
                    for x in iv:
                        if x is not None:
                            bps.add(x)
    # the set of active pieces can only change at a cut: h+1 for an upper bound d <= h, l for a lower bound d >= l
    cuts = set()
    for P in (P1, P2):
        for g, _ in P:
            for a in g:
                iv = _interval_of_atom(a, D)
                if isinstance(iv, tuple):
                    lo, hi = iv
                    if lo is not None:
                        cuts.add(lo)
                    if hi is not None:
                        cuts.add(hi + 1)
    cuts = sorted(cuts)
    regions = [('ray-', cuts[0] - 1)]
    for i, c in enumerate(cuts):
        if i + 1 < len(cuts):
            regions.append(('pt', c) if cuts[i + 1] == c + 1 else ('seg', c))
        else:
            regions.append(('ray+', c))
    Dlin = Lin(dict(D))
    for kind, p in regions:
        a1, a2 = _active(P1, D, p), _active(P2, D, p)
        s1, s2 = set(a1), set(a2)
        where = f"{Dlin.show()} {'<=' if kind == 'ray-' else '==' if kind == 'pt' else '>='} {p}"
        if len(s1) != 1 or len(s2) != 1:
            if not s1 or not s2:
                return False, f"no value defined where {where}"
            # several syntactic pieces may be active if they agree there
        for v1 in s1:
            for v2 in s2:
                diff = v1 - v2
                if diff.is_const() and diff.k == 0:
                    continue
                if kind == 'pt':
                    # diff must vanish at D == p: diff = k*D + c with k*p + c == 0
                    Dd, s, c = direction(diff)
                    if Dd == D and s * p + c == 0:
                        continue
                    if Dd is None and c == 0:
                        continue
                return False, f"where {where}: {v1.show()}  vs  {v2.show()}"
    return True, ''


# ----------------------------------------------------------------------------- specification forms
def SUB(x, e):
    return ('cond', ('op', '<=', x, e), ('lit', 0), ('op', '-', x, e))


def ADD(x, e, s):
    y = ('op', '+', ('op', '+', x, e), ('lit', 2))
    return ('cond', ('op', '>=', y, s), s, y)
