"""Forward interval dataflow with facts `v <= SIZE + c` over a function's CFG (SIZE: one distinguished term, e.g. a
container size).  A branch edge refines the fact from the comparison it decides, ++v / v += k / v -= k shift it, any other
write drops it, joins take the weaker bound.  With assume_size_ge = m a variable initialised with a literal L gets the
fact v <= SIZE + (L - m) (valid whenever SIZE >= m)."""
from common import AnalysisBroken

INF = None
WIDEN = 8
_FLIP = {'<': '>', '>': '<', '<=': '>=', '>=': '<=', '==': '==', '!=': '!='}
_NEG = {'<': '>=', '>': '<=', '<=': '>', '>=': '<', '==': '!=', '!=': '=='}


def _sc(t):
    while isinstance(t, tuple) and t and t[0] == 'cast':
        t = t[2]
    return t


def lin(t, SIZE):
    """term -> (base, k) with base a variable term / SIZE / None (pure constant), value = base + k; or None"""
    t = _sc(t)
    if t[0] == 'lit' and isinstance(t[1], int):
        return (None, t[1])
    if t[0] == 'op' and len(t) == 4 and t[1] in ('+', '-'):
        a, b = lin(t[2], SIZE), lin(t[3], SIZE)
        if a and b:
            if b[0] is None:
                return (a[0], a[1] + (b[1] if t[1] == '+' else -b[1]))
            if a[0] is None and t[1] == '+':
                return (b[0], a[1] + b[1])
        return None
    if t == SIZE:
        return ('SIZE', 0)
    if t[0] in ('param', 'local'):
        return (t, 0)
    return None


def _size_local(fn, t, SIZE, depth=0):
    """`const size_t n_segments = segments.size();`: a never re-assigned local that holds size() + c stands for it"""
    if isinstance(t, tuple):
        if t and t[0] == 'local' and len(t) == 3 and depth < 4:
            init = fn.single_def(t[2])
            if init:
                L = lin(fn.term(init, inline=False), SIZE)
                if L and L[0] == 'SIZE':
                    return ('op', '+', SIZE, ('lit', L[1])) if L[1] else SIZE
            return t
        return tuple(_size_local(fn, x, SIZE, depth + 1) for x in t)
    return t


def edge_bounds(fn, c, label, SIZE):
    """[(var term, c)]: facts `var <= size() + c` implied by condition node c evaluating to `label`; second result: whether a
    comparison between a variable and size() was met in a shape that is not understood"""
    out, unknown = [], False
    c = fn.strip(c)
    if not c:
        return out, unknown
    nd = fn.n(c)
    if nd['c'] == 'UnaryOperator' and nd['op'] == '!':
        return edge_bounds(fn, nd['ch'][0], not label, SIZE)
    if nd['c'] == 'BinaryOperator' and nd['op'] in ('&&', '||'):
        if (nd['op'] == '&&') == label:
            a, ua = edge_bounds(fn, nd['ch'][0], label, SIZE)
            b, ub = edge_bounds(fn, nd['ch'][1], label, SIZE)
            return a + b, ua or ub
        return out, unknown
    t = _sc(fn.term(c, inline=False))
    if t[0] == 'op' and len(t) == 4 and t[1] in _FLIP:
        l, r, rel = lin(t[2], SIZE), lin(_size_local(fn, t[3], SIZE), SIZE), t[1]
        if l and l[0] != 'SIZE' and lin(_size_local(fn, t[2], SIZE), SIZE) and lin(_size_local(fn, t[2], SIZE), SIZE)[0] == 'SIZE':
            l = lin(_size_local(fn, t[2], SIZE), SIZE)
        mentions = SIZE in (list(_subs(t)))
        if l and r:
            if l[0] == 'SIZE':
                l, r, rel = r, l, _FLIP[rel]
            if r[0] == 'SIZE' and isinstance(l[0], tuple):
                if not label:
                    rel = _NEG[rel]
                # (v + a) rel (size + b)
                d = r[1] - l[1]
                if rel == '<':
                    out.append((l[0], d - 1))
                elif rel in ('<=', '=='):
                    out.append((l[0], d))
                return out, False
        if mentions:
            unknown = True
    return out, unknown


def _subs(t):
    yield t
    if isinstance(t, tuple):
        for x in t:
            if isinstance(x, tuple):
                yield from _subs(x)


def bounds_at(fn, g, targets, SIZE, assume_size_ge=None):
    """forward dataflow; returns {target node: {var term: c}} (state just before the element) and the unknown-shape flag"""
    IN = {g.entry: {}}
    bounds_at.widened = set()   # variables whose bound was dropped because it kept growing around a loop
    work = [g.entry]
    res = {}
    unknown = False
    rounds = 0
    while work:
        rounds += 1
        if rounds > 5000:
            raise AnalysisBroken(f"{fn.qname}: bound dataflow does not converge")
        b = work.pop()
        st = dict(IN[b])
        for e in g.blocks[b]['elems']:
            if e in targets:
                old = res.get(e)
                res[e] = dict(st) if old is None else {k: max(old[k], st[k]) for k in old if k in st}
            nd = fn.n(e)
            c = nd['c']
            if c == 'UnaryOperator' and nd['op'] in ('++', '--'):
                v = _sc(fn.term(nd['ch'][0], inline=False))
                if v in st:
                    st[v] += 1 if nd['op'] == '++' else -1
            elif c == 'CompoundAssignOperator' and nd['op'] in ('+=', '-='):
                v = _sc(fn.term(nd['ch'][0], inline=False))
                k = lin(fn.term(nd['ch'][1], inline=False), SIZE)
                if v in st:
                    if k and k[0] is None:
                        st[v] += k[1] if nd['op'] == '+=' else -k[1]
                    else:
                        del st[v]
            elif c in ('BinaryOperator', 'CompoundAssignOperator') and nd['op'].endswith('=') and nd['op'] not in ('==', '!=', '<=', '>='):
                v = _sc(fn.term(nd['ch'][0], inline=False))
                st.pop(v, None)
            elif c == 'DeclStmt' and assume_size_ge is not None:
                for v in nd.get('vars', []):
                    d = fn.defs.get(v['id'])
                    if d and d.get('init'):
                        L = lin(fn.term(d['init'], inline=False), SIZE)
                        if L and L[0] is None:
                            st[('local', v['name'], v['id'])] = L[1] - assume_size_ge
                        elif L and L[0] == 'SIZE':
                            st[('local', v['name'], v['id'])] = L[1]
            elif c in ('CallExpr', 'CXXMemberCallExpr', 'CXXOperatorCallExpr', 'CXXConstructExpr'):
                pm = nd.get('pmodes', [])
                off = 1 if (c == 'CXXOperatorCallExpr' and nd.get('op_member')) else 0
                for k, a in enumerate(nd.get('args', [])):
                    pk = k - off
                    if 0 <= pk < len(pm) and pm[pk] == 'ref':
                        st.pop(_sc(fn.term(a, inline=False)), None)
        cond = g.cond(b)
        for (s, lab) in g.out_edges(b):
            if s is None:
                continue
            out = dict(st)
            if cond and isinstance(lab, bool):
                facts, unk = edge_bounds(fn, cond, lab, SIZE)
                unknown = unknown or unk
                for (v, cc) in facts:
                    out[v] = cc if v not in out else min(out[v], cc)
            if s not in IN:
                IN[s] = out
                work.append(s)
            else:
                # widening: a bound that keeps growing around a loop (an unguarded counter) is dropped
                merged = {k: max(IN[s][k], out[k]) for k in IN[s] if k in out and max(IN[s][k], out[k]) <= WIDEN}
                bounds_at.widened |= {k for k in IN[s] if k in out and max(IN[s][k], out[k]) > WIDEN}
                if merged != IN[s]:
                    IN[s] = merged
                    work.append(s)
    return res, unknown




bounds_at.widened = set()
