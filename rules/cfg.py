"""CFG algorithms over the per-function clang::CFG exported by pgmfacts.

Conventions of clang's CFG that the rules rely on:
  * a block with a terminator condition has succs[0] = condition true, succs[1] = condition
    false (if/for/while/do, `&&`, `||`, `?:`); a pruned (trivially false / unreachable)
    edge is exported as None;
  * with setAllAlwaysAdd every sub-expression is an element, in evaluation order.
"""
from collections import defaultdict


class Graph:
    def __init__(self, fn):
        self.fn = fn
        cfg = fn.cfg
        if not cfg:
            raise ValueError('no cfg for ' + fn.qname)
        self.entry = cfg['entry']
        self.exit = cfg['exit']
        self.blocks = {b['id']: b for b in cfg['blocks']}
        self.succ = {}
        self.pred = defaultdict(list)
        for b in cfg['blocks']:
            ss = [s for s in b['succs']]
            self.succ[b['id']] = ss
            for s in ss:
                if s is not None:
                    self.pred[s].append(b['id'])
        self.reach = self._reach(self.entry)
        self._dom = None
        self._pdom = None
        self._cd = None

    # ----------------------------------------------------------------- basics
    def _reach(self, start, blocked=()):
        seen = {start}
        st = [start]
        while st:
            x = st.pop()
            for s in self.succ[x]:
                if s is not None and s not in seen and s not in blocked:
                    seen.add(s)
                    st.append(s)
        return seen

    def reachable_from(self, start, blocked=()):
        return self._reach(start, blocked)

    def out_edges(self, b):
        """[(succ, label)] label True/False for conditional two-way branches, else the index"""
        blk = self.blocks[b]
        ss = self.succ[b]
        if blk.get('cond') and len(ss) == 2:
            return [(ss[0], True), (ss[1], False)]
        return [(s, k) for k, s in enumerate(ss)]

    def cond(self, b):
        return self.blocks[b].get('cond')

    # ----------------------------------------------------------------- dominators
    def _idom(self, entry, succ, pred, nodes):
        order = []
        seen = set()

        def dfs(s):
            stack = [(s, iter([x for x in succ(s) if x is not None]))]
            seen.add(s)
            while stack:
                n, it = stack[-1]
                adv = False
                for m in it:
                    if m not in seen and m in nodes:
                        seen.add(m)
                        stack.append((m, iter([x for x in succ(m) if x is not None])))
                        adv = True
                        break
                if not adv:
                    order.append(n)
                    stack.pop()

        dfs(entry)
        rpo = list(reversed(order))
        idx = {n: i for i, n in enumerate(rpo)}
        idom = {entry: entry}
        changed = True
        while changed:
            changed = False
            for n in rpo[1:]:
                ps = [p for p in pred(n) if p in idom]
                if not ps:
                    continue
                new = ps[0]
                for p in ps[1:]:
                    a, b = p, new
                    while a != b:
                        while idx[a] > idx[b]:
                            a = idom[a]
                        while idx[b] > idx[a]:
                            b = idom[b]
                    new = a
                if idom.get(n) != new:
                    idom[n] = new
                    changed = True
        return idom

    @property
    def idom(self):
        if self._dom is None:
            self._dom = self._idom(self.entry, lambda b: self.succ[b], lambda b: self.pred[b], self.reach)
        return self._dom

    @property
    def ipdom(self):
        if self._pdom is None:
            nodes = set(self.blocks)
            self._pdom = self._idom(self.exit, lambda b: self.pred[b], lambda b: [s for s in self.succ[b] if s is not None], nodes)
        return self._pdom

    def dominates(self, a, b):
        """block a dominates block b"""
        idom = self.idom
        if b not in idom:
            return False
        x = b
        while True:
            if x == a:
                return True
            if idom[x] == x:
                return False
            x = idom[x]

    def postdominates(self, a, b):
        ip = self.ipdom
        if b not in ip:
            return False
        x = b
        while True:
            if x == a:
                return True
            if ip.get(x, x) == x:
                return False
            x = ip[x]

    # ----------------------------------------------------------------- control dependence
    @property
    def control_deps(self):
        """block -> set of (branch block, label) it is directly control dependent on"""
        if self._cd is None:
            cd = defaultdict(set)
            ip = self.ipdom
            for a in self.reach:
                for (s, lab) in self.out_edges(a):
                    if s is None or len([x for x in self.succ[a] if x is not None]) < 2 and not self.blocks[a].get('cond'):
                        continue
                    # walk from s up the post-dominator tree until ipdom(a)
                    stop = ip.get(a)
                    x = s
                    guard = 0
                    while x is not None and x != stop and guard < 10000:
                        cd[x].add((a, lab))
                        nx = ip.get(x)
                        if nx == x:
                            break
                        x = nx
                        guard += 1
            self._cd = cd
        return self._cd

    def transitive_control_deps(self, b):
        seen = set()
        st = [b]
        out = set()
        while st:
            x = st.pop()
            for (a, lab) in self.control_deps.get(x, ()):
                if (a, lab) not in out:
                    out.add((a, lab))
                    if a not in seen:
                        seen.add(a)
                        st.append(a)
        return out

    # ----------------------------------------------------------------- path queries
    def must_pass(self, src, dst, via_blocks):
        """every path src ->* dst passes through a block of via_blocks (src/dst themselves count)"""
        if src in via_blocks or dst in via_blocks:
            return True
        r = self._reach(src, blocked=set(via_blocks))
        return dst not in r

    def paths_exist(self, src, dst, blocked=()):
        return dst in self._reach(src, blocked=set(blocked))

    def elem_pos(self, node_id):
        return self.fn.block_of(node_id)

    def before(self, a, b):
        """CFG element a is executed before element b on every path reaching b (same block order or dominance)"""
        pa, pb = self.fn.block_of(a), self.fn.block_of(b)
        if not pa or not pb:
            return False
        if pa[0] == pb[0]:
            return pa[1] < pb[1]
        return self.dominates(pa[0], pb[0])


def graph(fn):
    g = getattr(fn, '_graph', None)
    if g is None:
        g = Graph(fn)
        fn._graph = g
    return g
