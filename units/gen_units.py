#!/usr/bin/env python3
"""Generates the driver translation units analysed by pgmfacts.

PGM-index is header-only templates: nothing is type-checked until instantiated.  A driver
instantiates every public class and *uses* every public operation (explicit `template
class` instantiation is not possible: DynamicPGMIndex::Iterator::operator++(int) is
ill-formed when instantiated).  The drivers are never compiled to an executable and never
run; they only make clang build the instantiated AST that the rules inspect.

quick    : one TU whose configurations cover every `if constexpr` arm of the PGM headers
thorough : the quick TU plus shards with the full key-type / epsilon / floating matrix
"""
import itertools

PRELUDE = r'''
#include "pgm/pgm_index.hpp"
#include "pgm/pgm_index_dynamic.hpp"
#include "pgm/pgm_index_variants.hpp"
#include <string>
#include <tuple>
#include <vector>

using pgm_llong = long long;   // a signed 64-bit integer type distinct from int64_t (= long) on LP64

namespace drv {

template<class T> T mk() { return T(); }

template<class Index, class K>
void use_static(const std::vector<K> &data, K q) {
    Index a(data.begin(), data.end());
    Index b(data);
    auto r = a.search(q);
    (void) r.pos; (void) r.lo; (void) r.hi;
    (void) a.segments_count();
    (void) a.height();
    (void) a.size_in_bytes();
    Index c(a);              // copy construction
    Index d(std::move(b));   // move construction
    Index e;
    e = c;                   // copy assignment
    e = std::move(d);        // move assignment
    (void) e.search(q);
}

template<class Index, class K>
void use_mapped(const std::vector<K> &data, K q) {
    Index a(data.begin(), data.end(), std::string("out.bin"));
    Index b(std::string("raw.bin"), std::string("out2.bin"));
    Index c(std::string("out.bin"));
    (void) a.search(q);
    (void) a.contains(q);
    (void) a.lower_bound(q);
    (void) a.upper_bound(q);
    (void) a.count(q);
    (void) a.size();
    (void) a.file_size_in_bytes();
    (void) a.begin();
    (void) a.end();
    (void) a.segments_count();
    (void) a.height();
    (void) a.size_in_bytes();
    (void) b.size();
    (void) c.size();
}

// a range whose value type is not the key type of the container (the keys are converted, as in PGMIndex::build)
template<class Index, class V>
void use_mapped_mixed(const std::vector<V> &data) {
    Index a(data.begin(), data.end(), std::string("out3.bin"));
    (void) a.size();
}

template<class Index, class P>
void use_multidim(const std::vector<P> &pts, const P &lo, const P &hi) {
    Index a(pts.begin(), pts.end());
    (void) a.contains(lo);
    (void) a.size_in_bytes();
    for (auto it = a.range(lo, hi); it != a.end(); ++it) {
        auto v = *it;
        (void) v;
        (void) it.operator->();
    }
    auto b0 = a.begin();
    (void) (b0 == a.end());
    Index c(a);
    Index d(std::move(c));
    Index e;
    e = a;
    e = std::move(d);
    (void) e.contains(hi);
}

template<class Index, class K, class V>
void use_dynamic(const std::vector<std::pair<K, V>> &data, K k, const V &v) {
    Index empty_index;
    Index a(data.begin(), data.end());
    Index p(data.begin(), data.end(), 4, 2, 3);
    a.insert_or_assign(k, v);
    a.erase(k);
    auto f = a.find(k);
    if (f != a.end()) { (void) f->first; (void) (*f).second; }
    (void) a.count(k);
    auto lb = a.lower_bound(k);
    ++lb;
    (void) (lb == a.end());
    (void) a.range(k, k);
    (void) a.begin();
    (void) a.size();
    (void) a.empty();
    (void) a.size_in_bytes();
    (void) a.index_size_in_bytes();
    Index c(a);
    Index d(std::move(c));
    (void) d.find(k);
}

// copy/move operations of the sdsl value types the indexes are made of (so that their bodies are instantiated)
template<class T>
void use_value_ops() {
    T a;
    T b(a);
    T c(std::move(a));
    b = c;
    b = std::move(c);
}

inline void use_sdsl_ops() {
    use_value_ops<sdsl::int_vector<0>>();
    use_value_ops<sdsl::int_vector<1>>();
    use_value_ops<sdsl::int_vector<16>>();
    use_value_ops<sdsl::int_vector<32>>();
    use_value_ops<sdsl::sd_vector<>>();
    use_value_ops<sdsl::sd_vector<>::select_1_type>();
    use_value_ops<sdsl::sd_vector<>::select_0_type>();
    use_value_ops<sdsl::select_support_mcl<1, 1>>();
    use_value_ops<sdsl::select_support_mcl<0, 1>>();
}

template<class K>
void use_segmentation(const std::vector<K> &data, size_t eps) {
    using seg = typename pgm::internal::OptimalPiecewiseLinearModel<K, size_t>::CanonicalSegment;
    std::vector<seg> out;
    auto in_fun = [&](auto i) { return data[i]; };
    auto out_fun = [&](const auto &cs) { out.push_back(cs); };
    (void) pgm::internal::make_segmentation(data.size(), eps, in_fun, out_fun);
    (void) pgm::internal::make_segmentation_par(data.size(), eps, in_fun, out_fun);
    for (auto &cs : out) {
        (void) cs.get_first_x();
        (void) cs.get_intersection();
        (void) cs.get_floating_point_segment(cs.get_first_x());
        (void) cs.get_slope_range();
    }
}

}  // namespace drv
'''


def static_use(cls, k):
    return f"    drv::use_static<{cls}, {k}>(std::vector<{k}>(), {k}());\n"


def tuple_type(t, dims):
    return "std::tuple<" + ", ".join([t] * dims) + ">"


def body_for(configs):
    lines = []
    for c in configs:
        kind = c[0]
        if kind == 'pgm':
            _, k, e, er, fl = c
            lines.append(static_use(f"pgm::PGMIndex<{k}, {e}, {er}, {fl}>", k))
        elif kind == 'compressed':
            _, k, e, er, fl = c
            lines.append(static_use(f"pgm::CompressedPGMIndex<{k}, {e}, {er}, {fl}>", k))
        elif kind == 'bucketing':
            _, k, e, tls, bits, fl = c
            lines.append(static_use(f"pgm::BucketingPGMIndex<{k}, {e}, {tls}, {bits}, {fl}>", k))
        elif kind == 'eliasfano':
            _, k, e, fl = c
            lines.append(static_use(f"pgm::EliasFanoPGMIndex<{k}, {e}, {fl}>", k))
        elif kind == 'mapped':
            _, k, e, er, fl = c
            lines.append(f"    drv::use_mapped<pgm::MappedPGMIndex<{k}, {e}, {er}, {fl}>, {k}>(std::vector<{k}>(), {k}());\n")
        elif kind == 'mapped_mixed':
            _, k, v, e, er, fl = c
            lines.append(f"    drv::use_mapped_mixed<pgm::MappedPGMIndex<{k}, {e}, {er}, {fl}>, {v}>(std::vector<{v}>());\n")
        elif kind == 'multidim':
            _, dims, t, e, er, fl = c
            p = tuple_type(t, dims)
            lines.append(f"    drv::use_multidim<pgm::MultidimensionalPGMIndex<{dims}, {t}, {e}, {er}, {fl}>, {p}>"
                         f"(std::vector<{p}>(), {p}(), {p}());\n")
        elif kind == 'dynamic':
            _, k, v, pgmt = c
            pt = pgmt.replace('$K', k)
            lines.append(f"    drv::use_dynamic<pgm::DynamicPGMIndex<{k}, {v}, {pt}>, {k}, {v}>"
                         f"(std::vector<std::pair<{k}, {v}>>(), {k}(), drv::mk<{v}>());\n")
        elif kind == 'segmentation':
            _, k = c
            lines.append(f"    drv::use_segmentation<{k}>(std::vector<{k}>(), 8);\n")
        else:
            raise ValueError(kind)
    return "".join(lines)


def make_unit(name, configs):
    src = PRELUDE + f"\nvoid drive_{name}() {{\n    drv::use_sdsl_ops();\n" + body_for(configs) + "}\n"
    return name, src, configs


QUICK = [
    # PGMIndex: EpsilonRecursive 0 / linear-scan / binary-search arms; int32/int64 special case; floating keys
    ('pgm', 'uint64_t', 64, 4, 'float'),
    ('pgm', 'int64_t', 16, 0, 'double'),
    ('pgm', 'uint32_t', 8, 1024, 'float'),
    ('pgm', 'int32_t', 32, 4, 'float'),
    ('pgm', 'double', 16, 4, 'double'),
    ('pgm', 'uint8_t', 16, 4, 'float'),
    ('pgm', 'pgm_llong', 16, 4, 'float'),   # a signed 64-bit type that is not int64_t on LP64
    ('compressed', 'uint64_t', 8, 0, 'float'),
    ('compressed', 'uint64_t', 32, 4, 'float'),
    ('compressed', 'uint32_t', 4, 256, 'double'),
    ('bucketing', 'uint64_t', 16, 1024, 32, 'float'),
    ('bucketing', 'uint32_t', 8, 100, 0, 'float'),
    ('eliasfano', 'uint64_t', 32, 'float'),
    ('eliasfano', 'uint32_t', 8, 'double'),
    ('mapped', 'uint64_t', 32, 4, 'float'),
    ('mapped', 'int64_t', 8, 0, 'float'),
    ('mapped', 'uint64_t', 2, 4, 'float'),      # an epsilon window that fits a cache line (arms of `if constexpr` keyed on a small Epsilon)
    ('mapped_mixed', 'int64_t', 'int32_t', 8, 0, 'float'),
    ('mapped_mixed', 'uint32_t', 'uint64_t', 32, 4, 'float'),
    ('multidim', 2, 'uint64_t', 16, 4, 'float'),
    ('multidim', 3, 'uint32_t', 8, 0, 'float'),
    ('multidim', 4, 'uint64_t', 32, 4, 'float'),
    ('multidim', 2, 'uint64_t', 2, 4, 'float'),
    ('dynamic', 'uint32_t', 'uint32_t', 'pgm::PGMIndex<$K, 16>'),
    ('dynamic', 'uint64_t', 'uint64_t *', 'pgm::PGMIndex<$K, 8, 0>'),
    ('dynamic', 'uint32_t', 'std::string', 'pgm::PGMIndex<$K, 16>'),
    ('segmentation', 'uint64_t'),
    ('segmentation', 'double'),
    ('segmentation', 'int32_t'),
]

KEY_TYPES = ['uint8_t', 'int8_t', 'uint16_t', 'int16_t', 'uint32_t', 'int32_t', 'uint64_t', 'int64_t', 'pgm_llong', 'float', 'double']
UNSIGNED = ['uint8_t', 'uint16_t', 'uint32_t', 'uint64_t']


def thorough_units():
    units = [make_unit('quick', QUICK)]
    eps = [1, 8, 64, 1024]
    epsrec = [0, 4, 256, 1024]
    shard = 0
    # PGMIndex: all key types x eps x epsrec x floating  (10*4*4*2 = 320 configurations, 20 shards)
    cfgs = [('pgm', k, e, er, fl) for k in KEY_TYPES for e in eps for er in epsrec for fl in ('float', 'double')]
    for i in range(0, len(cfgs), 16):
        units.append(make_unit(f'pgm{shard}', cfgs[i:i + 16]))
        shard += 1
    cfgs = [('compressed', k, e, er, fl) for k in UNSIGNED for e in (1, 8, 128) for er in (0, 4, 256) for fl in ('float', 'double')]
    for i in range(0, len(cfgs), 12):
        units.append(make_unit(f'cmp{shard}', cfgs[i:i + 12]))
        shard += 1
    cfgs = [('bucketing', k, e, tls, bits, 'float') for k in UNSIGNED for e in (1, 64)
            for tls, bits in ((2, 32), (64, 0), (100, 0), (255, 16), (4096, 32))
            if not (k == 'uint8_t' and tls > 64)]
    for i in range(0, len(cfgs), 12):
        units.append(make_unit(f'bkt{shard}', cfgs[i:i + 12]))
        shard += 1
    cfgs = [('eliasfano', k, e, fl) for k in UNSIGNED[1:] for e in (1, 8, 128) for fl in ('float', 'double')]
    units.append(make_unit(f'ef{shard}', cfgs))
    shard += 1
    cfgs = [('mapped', k, e, er, 'float') for k in ('uint16_t', 'int16_t', 'uint32_t', 'int32_t', 'uint64_t', 'int64_t')
            for e, er in ((1, 0), (8, 4), (128, 256))]
    for i in range(0, len(cfgs), 9):
        units.append(make_unit(f'map{shard}', cfgs[i:i + 9]))
        shard += 1
    cfgs = [('multidim', d, t, e, er, 'float') for d in (2, 3, 4) for t in ('uint32_t', 'uint64_t') for e, er in ((1, 0), (16, 4), (64, 4))]
    for i in range(0, len(cfgs), 9):
        units.append(make_unit(f'md{shard}', cfgs[i:i + 9]))
        shard += 1
    cfgs = [('dynamic', k, v, p) for k in ('uint16_t', 'int32_t', 'uint32_t', 'int64_t', 'uint64_t')
            for v in ('uint32_t', 'double', 'uint64_t *', 'std::string')
            for p in ('pgm::PGMIndex<$K, 16>', 'pgm::PGMIndex<$K, 4, 0, double>')]
    for i in range(0, len(cfgs), 8):
        units.append(make_unit(f'dyn{shard}', cfgs[i:i + 8]))
        shard += 1
    units.append(make_unit(f'seg{shard}', [('segmentation', k) for k in KEY_TYPES]))
    return units


def units_for(tier):
    if tier == 'quick':
        return [make_unit('quick', QUICK)]
    return thorough_units()


if __name__ == '__main__':
    import sys
    tier = sys.argv[1] if len(sys.argv) > 1 else 'quick'
    for name, src, cfgs in units_for(tier):
        print(name, len(cfgs))
