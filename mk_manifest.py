#!/usr/bin/env python3
"""Regenerates MANIFEST.json from rules/registry.py so that the manifest can never drift from what the checks do."""
import json
import os
import sys

VERIF = os.path.dirname(os.path.abspath(__file__))
sys.path.insert(0, os.path.join(VERIF, 'rules'))
sys.path.insert(0, os.path.join(VERIF, 'units'))
import registry  # noqa: E402

ALL = [f"C{i:02d}" for i in range(1, 21)]

NOT_APPLICABLE = {
    'C11': 'Static analysis cannot decide it: equality of lower_bound/upper_bound/count/contains with the std algorithms on every '
           'sequence is value-level (it rests on the numeric epsilon guarantee of C01/C02 and on the gallop arithmetic); the only '
           'structural parts of that code (end-guards of the gallop, constructor/serialiser agreement) are decided under C17 and C12. '
           'No clause of C11 proper is claimed rather than dressing a runtime test as static.',
}
PENDING = 'not claimed in this revision of the machinery (rules for it are not built yet); see DESIGN.md section 4'


def main():
    checks = []
    for pid in sorted(registry.PROPS):
        sp = registry.PROPS[pid]
        checks.append({
            'property_id': pid,
            'quick_cmd': f'python3 check.py --prop {pid} --tier quick',
            'thorough_cmd': f'python3 check.py --prop {pid} --tier thorough',
            'evidence_file': f'/verif/evidence/{pid}.json',
            'replay_cmd_template': 'python3 check.py --replay {path}',
            'engine': sp.get('engine', 'rules'),
            'level_claimed': {
                'category': sp['level'],
                'text': sp['explanation'] + ' Decided clauses: ' + ' | '.join(sp.get('decides', [])) + ' Not decided (not claimed): ' + sp.get('not_decided', '-'),
                'design_ref': 'DESIGN.md section 4, ' + pid,
            },
            'level_note': 'Trusted base: ' + '; '.join(sp.get('trusted_base', registry.DEFAULT_TRUSTED_BASE)) +
                          '. Assumptions: ' + '; '.join(sp.get('assumptions', registry.DEFAULT_ASSUMPTIONS)),
            'technique': sp.get('technique', 'static analysis: custom rules over the instantiated clang AST/CFG (libTooling fact extractor + dataflow/dominance/normal-form engines)'),
        })
    na = []
    for pid in ALL:
        if pid in registry.PROPS:
            continue
        na.append({'property_id': pid, 'reason': NOT_APPLICABLE.get(pid, PENDING)})
    m = {
        'version': 1,
        'setup_cmd': 'make -C /verif/tool all',
        'hooks': {
            'guard': 'PGM_INDEX_VERIF',
            'enable': 'no hooks are needed: the analyses read /repo as it is (the guard name is reserved and unused)',
            'baseline_off_cmd': 'cmake -G Ninja -B /repo/_build -S /repo && cmake --build /repo/_build -j16 && ctest --test-dir /repo/_build -j8 --timeout 900',
            'source_commits': [],
            'add_only': True,
        },
        'engines': [
            {'name': 'pgmfacts', 'path': 'tool/pgmfacts.cc', 'serves_properties': sorted(registry.PROPS),
             'kind_free_text': 'libTooling extractor: instantiated AST + clang::CFG + record layouts -> JSON mini-IR'},
            {'name': 'rules', 'path': 'rules/', 'serves_properties': sorted(registry.PROPS),
             'kind_free_text': 'Python engines over the mini-IR: FORM (piecewise-linear normal forms), FLOW (symbol reaching), PATH (dominance, control dependence, END-GUARD dataflow), KIND (search typestate), EFFECT (write classification over the call graph), SHAPE (record/sibling agreement)'},
            {'name': 'pgmir', 'path': 'tool/pgmir.cc', 'serves_properties': [p for p in ('C16',) if p in registry.PROPS],
             'kind_free_text': 'LLVM-IR effect analysis (thorough tier of C16)'},
        ],
        'checks': checks,
        'not_applicable': na,
        'notes': 'Technique family: static analysis only. exit 0 = all obligations discharged; exit 1 + VIOLATION line = a violated obligation '
                 'not listed in known_findings.json; exit 2 + ANALYSIS-BROKEN = no verdict (never a pass). Seven genuine defects of the pinned '
                 'tree were repaired by fix: commits in /repo and are recorded as fixed in known_findings.json.',
    }
    with open(os.path.join(VERIF, 'MANIFEST.json'), 'w') as fh:
        json.dump(m, fh, indent=1)
    print('MANIFEST.json:', len(checks), 'checks,', len(na), 'not applicable/pending')


if __name__ == '__main__':
    main()
