// pgmfacts: libTooling fact extractor for the PGM-index verification machinery.
//
// Parses one translation unit with the real build flags and writes a JSON "mini-IR":
// every *instantiated* function definition that lives in the scope directories (or the
// main file), with its resolved expression trees, its clang::CFG (all sub-expressions
// as elements, trivially-false edges pruned), plus record layouts / special-member
// states and the `if constexpr` arms taken.  No rule lives here: the rules are in
// /verif/rules/*.py and work on this output.
//
// usage: pgmfacts <unit.cpp> --out=<file.json> --scope=<dir>[,<dir>...] -- <compile flags>

#include "clang/AST/ASTConsumer.h"
#include "clang/AST/ASTContext.h"
#include "clang/AST/DeclCXX.h"
#include "clang/AST/DeclTemplate.h"
#include "clang/AST/ExprCXX.h"
#include "clang/AST/ExprOpenMP.h"
#include "clang/AST/RecursiveASTVisitor.h"
#include "clang/AST/StmtCXX.h"
#include "clang/AST/StmtOpenMP.h"
#include "clang/AST/OpenMPClause.h"
#include "clang/Analysis/CFG.h"
#include "clang/Basic/SourceManager.h"
#include "clang/Frontend/CompilerInstance.h"
#include "clang/Frontend/FrontendAction.h"
#include "clang/Tooling/CommonOptionsParser.h"
#include "clang/Tooling/Tooling.h"
#include "llvm/Support/CommandLine.h"
#include "llvm/Support/raw_ostream.h"

#include <deque>
#include <map>
#include <set>
#include <string>
#include <vector>

using namespace clang;

static llvm::cl::OptionCategory Cat("pgmfacts");
static llvm::cl::opt<std::string> OutFile("out", llvm::cl::desc("output json"), llvm::cl::cat(Cat));
static llvm::cl::opt<std::string> ScopeOpt("scope", llvm::cl::desc("comma separated scope dirs"),
                                           llvm::cl::cat(Cat));
static llvm::cl::opt<std::string> RootsOpt("roots", llvm::cl::desc("comma separated root file substrings"),
                                           llvm::cl::cat(Cat));

namespace {

std::string jstr(llvm::StringRef s) {
    std::string o = "\"";
    for (unsigned char c : s) {
        switch (c) {
            case '"': o += "\\\""; break;
            case '\\': o += "\\\\"; break;
            case '\n': o += "\\n"; break;
            case '\t': o += "\\t"; break;
            case '\r': o += "\\r"; break;
            default:
                if (c < 0x20 || c >= 0x7f) {
                    char buf[8];
                    snprintf(buf, sizeof buf, "\\u%04x", c);
                    o += buf;
                } else
                    o += (char) c;
        }
    }
    o += "\"";
    return o;
}

struct Extractor {
    ASTContext &Ctx;
    SourceManager &SM;
    PrintingPolicy PP;
    std::vector<std::string> scopes;
    std::vector<std::string> rootPats;

    // interned tables
    std::map<const void *, unsigned> declIds;
    std::map<std::string, unsigned> typeIds;
    std::vector<std::string> typeJson;
    std::map<const CXXRecordDecl *, unsigned> recIds;
    std::vector<const CXXRecordDecl *> recQueue;
    std::vector<std::string> recJson;

    std::set<const FunctionDecl *> emitted;
    std::deque<const FunctionDecl *> work;
    std::vector<std::string> fnJson;
    std::vector<std::string> cifJson;
    unsigned nFailCFG = 0;

    Extractor(ASTContext &C) : Ctx(C), SM(C.getSourceManager()), PP(C.getLangOpts()) {
        PP.SuppressTagKeyword = true;
        PP.Bool = true;
        PP.SuppressUnwrittenScope = false;
        PP.FullyQualifiedName = true;
    }

    unsigned did(const void *d) {
        auto it = declIds.find(d);
        if (it != declIds.end()) return it->second;
        unsigned id = declIds.size() + 1;
        declIds[d] = id;
        return id;
    }

    std::string fileOf(SourceLocation L) {
        if (L.isInvalid()) return "";
        L = SM.getExpansionLoc(L);
        auto F = SM.getFilename(L);
        return F.str();
    }
    unsigned lineOf(SourceLocation L) {
        if (L.isInvalid()) return 0;
        return SM.getExpansionLineNumber(L);
    }
    unsigned colOf(SourceLocation L) {
        if (L.isInvalid()) return 0;
        return SM.getExpansionColumnNumber(L);
    }
    bool inScopeFile(const std::string &f) {
        if (f.empty()) return false;
        for (auto &s : scopes)
            if (f.compare(0, s.size(), s) == 0) return true;
        return false;
    }
    bool inScope(const Decl *D) {
        SourceLocation L = D->getLocation();
        if (SM.isInMainFile(SM.getExpansionLoc(L))) return true;
        return inScopeFile(fileOf(L));
    }
    bool isRootFile(const Decl *D) {
        SourceLocation L = D->getLocation();
        if (SM.isInMainFile(SM.getExpansionLoc(L))) return true;
        std::string f = fileOf(L);
        if (!inScopeFile(f)) return false;
        if (rootPats.empty()) return true;
        for (auto &p : rootPats)
            if (f.find(p) != std::string::npos) return true;
        return false;
    }

    // ------------------------------------------------------------------ names
    std::string qname(const NamedDecl *D) {
        std::string s;
        llvm::raw_string_ostream os(s);
        D->printQualifiedName(os, PP);
        return os.str();
    }
    // qualified name without template arguments
    std::string tname(const Decl *D) {
        std::vector<std::string> parts;
        const DeclContext *DC = nullptr;
        if (auto *ND = dyn_cast<NamedDecl>(D)) {
            std::string n;
            if (auto *RD = dyn_cast<CXXRecordDecl>(ND); RD && RD->isLambda()) n = "(lambda)";
            else if (ND->getDeclName().isIdentifier()) n = ND->getName().str();
            else n = ND->getDeclName().getAsString();
            if (n.empty()) n = "(anon)";
            parts.push_back(n);
            DC = ND->getDeclContext();
        }
        while (DC && !DC->isTranslationUnit()) {
            if (auto *ND = dyn_cast<NamedDecl>(DC)) {
                std::string n;
                if (auto *RD = dyn_cast<CXXRecordDecl>(ND); RD && RD->isLambda()) n = "(lambda)";
                else if (ND->getDeclName().isIdentifier()) n = ND->getName().str();
                else n = ND->getDeclName().getAsString();
                if (isa<NamespaceDecl>(ND) && cast<NamespaceDecl>(ND)->isInline()) { DC = DC->getParent(); continue; }
                if (n.empty()) n = "(anon)";
                parts.push_back(n);
            }
            DC = DC->getParent();
        }
        std::string s;
        for (auto it = parts.rbegin(); it != parts.rend(); ++it) {
            if (!s.empty()) s += "::";
            s += *it;
        }
        return s;
    }

    std::string targStr(const TemplateArgument &A) {
        std::string s;
        llvm::raw_string_ostream os(s);
        switch (A.getKind()) {
            case TemplateArgument::Type: os << A.getAsType().getCanonicalType().getAsString(PP); break;
            case TemplateArgument::Integral: os << toString(A.getAsIntegral(), 10); break;
            case TemplateArgument::Pack: {
                bool first = true;
                for (auto &P : A.pack_elements()) {
                    if (!first) os << ",";
                    first = false;
                    os << targStr(P);
                }
                break;
            }
            default: A.print(PP, os, true); break;
        }
        return os.str();
    }

    void addTArgs(const TemplateParameterList *PL, const TemplateArgumentList &AL, std::map<std::string, std::string> &m) {
        for (unsigned i = 0; i < PL->size() && i < AL.size(); ++i) {
            std::string n = PL->getParam(i)->getNameAsString();
            if (n.empty()) n = "#" + std::to_string(i);
            if (!m.count(n)) m[n] = targStr(AL[i]);
        }
    }
    // template arguments visible at D (innermost wins)
    std::string targsJson(const Decl *D) {
        std::map<std::string, std::string> m;
        const Decl *Cur = D;
        while (Cur) {
            if (auto *FD = dyn_cast<FunctionDecl>(Cur)) {
                if (auto *TA = FD->getTemplateSpecializationArgs())
                    if (auto *FT = FD->getPrimaryTemplate()) addTArgs(FT->getTemplateParameters(), *TA, m);
            }
            if (auto *SD = dyn_cast<ClassTemplateSpecializationDecl>(Cur))
                addTArgs(SD->getSpecializedTemplate()->getTemplateParameters(), SD->getTemplateArgs(), m);
            const DeclContext *DC = Cur->getDeclContext();
            if (!DC || DC->isTranslationUnit()) break;
            Cur = cast<Decl>(DC);
        }
        std::string s = "{";
        bool first = true;
        for (auto &kv : m) {
            if (!first) s += ",";
            first = false;
            s += jstr(kv.first) + ":" + jstr(kv.second);
        }
        return s + "}";
    }

    // ------------------------------------------------------------------ types
    unsigned tid(QualType T) {
        if (T.isNull()) return 0;
        QualType C = T.getCanonicalType();
        std::string key = C.getAsString(PP);
        auto it = typeIds.find(key);
        if (it != typeIds.end()) return it->second;
        unsigned id = typeJson.size() + 1;
        typeIds[key] = id;
        typeJson.emplace_back();  // reserve slot (recursion safe)
        std::string s = "{\"s\":" + jstr(key);
        QualType B = C;
        if (C->isReferenceType()) {
            s += ",\"ref\":" + std::string(C->isRValueReferenceType() ? "2" : "1");
            B = C->getPointeeType();
            s += ",\"to\":" + std::to_string(tid(B));
        } else if (C->isPointerType()) {
            s += ",\"ptr\":1";
            s += ",\"to\":" + std::to_string(tid(C->getPointeeType()));
        } else if (C->isArrayType()) {
            s += ",\"arr\":1";
            s += ",\"to\":" + std::to_string(tid(Ctx.getAsArrayType(C)->getElementType()));
        }
        if (C.isConstQualified()) s += ",\"const\":1";
        if (C->isBooleanType()) s += ",\"k\":\"bool\"";
        else if (C->isIntegralOrEnumerationType()) {
            s += ",\"k\":\"int\",\"bits\":" + std::to_string(Ctx.getTypeSize(C));
            s += ",\"signed\":" + std::string(C->isSignedIntegerOrEnumerationType() ? "1" : "0");
        } else if (C->isRealFloatingType()) {
            s += ",\"k\":\"float\",\"bits\":" + std::to_string(Ctx.getTypeSize(C));
        } else if (auto *RD = C->getAsCXXRecordDecl()) {
            s += ",\"k\":\"rec\",\"rec\":" + std::to_string(rid(RD));
        }
        s += "}";
        typeJson[id - 1] = s;
        return id;
    }

    // ------------------------------------------------------------------ records
    static const char *smState(const CXXMethodDecl *M) {
        if (!M) return "absent";
        if (M->isDeleted()) return "deleted";
        if (M->isUserProvided()) return "user";
        if (M->isImplicit()) return "implicit";
        if (M->isDefaulted()) return "defaulted";
        return "user";
    }

    unsigned rid(const CXXRecordDecl *RD) {
        if (auto *Def = RD->getDefinition()) RD = Def;
        auto it = recIds.find(RD);
        if (it != recIds.end()) return it->second;
        unsigned id = recJson.size() + 1;
        recIds[RD] = id;
        recJson.emplace_back();
        recQueue.push_back(RD);
        return id;
    }

    void emitRecord(const CXXRecordDecl *RD) {
        unsigned id = recIds[RD];
        std::string s = "{\"id\":" + std::to_string(id) + ",\"decl\":" + std::to_string(did(RD)) +
                        ",\"qname\":" + jstr(Ctx.getTypeDeclType(RD).getCanonicalType().getAsString(PP)) + ",\"tname\":" + jstr(tname(RD));
        s += ",\"targs\":" + targsJson(RD);
        s += ",\"file\":" + jstr(fileOf(RD->getLocation())) + ",\"line\":" + std::to_string(lineOf(RD->getLocation()));
        bool scope = inScope(RD);
        s += ",\"in_scope\":" + std::string(scope ? "true" : "false");
        if (RD->isLambda()) s += ",\"lambda\":true";
        // template argument types (for containers of records)
        if (auto *SD = dyn_cast<ClassTemplateSpecializationDecl>(RD)) {
            s += ",\"targ_types\":[";
            bool first = true;
            std::function<void(const TemplateArgument &)> add = [&](const TemplateArgument &A) {
                if (A.getKind() == TemplateArgument::Type) {
                    if (!first) s += ",";
                    first = false;
                    s += std::to_string(tid(A.getAsType()));
                } else if (A.getKind() == TemplateArgument::Pack)
                    for (auto &P : A.pack_elements()) add(P);
            };
            for (auto &A : SD->getTemplateArgs().asArray()) add(A);
            s += "]";
        }
        if (RD->isCompleteDefinition()) {
            s += ",\"complete\":true";
            if (scope || RD->isLambda()) {
                s += ",\"fields\":[";
                bool first = true;
                for (auto *F : RD->fields()) {
                    if (!first) s += ",";
                    first = false;
                    s += "{\"id\":" + std::to_string(did(F)) + ",\"name\":" + jstr(F->getNameAsString()) +
                         ",\"t\":" + std::to_string(tid(F->getType()));
                    if (F->isMutable()) s += ",\"mutable\":true";
                    if (auto *ST = F->getType()->getAs<SubstTemplateTypeParmType>()) {
                        // the declared type is a template type parameter of the enclosing template (a user-supplied type)
                        if (auto *PD = ST->getReplacedParameter()->getDecl()) s += ",\"tpar\":" + jstr(PD->getNameAsString());
                        else s += ",\"tpar\":\"?\"";
                    }
                    if (F->hasInClassInitializer()) {
                        s += ",\"has_init\":true";
                        // which own member does a reference NSDMI bind to?  (sd_vector's `const T& low = m_low;`)
                        if (const Expr *I = F->getInClassInitializer()) {
                            const Expr *E = I->IgnoreParenImpCasts();
                            if (auto *ME = dyn_cast<MemberExpr>(E))
                                if (isa<CXXThisExpr>(ME->getBase()->IgnoreParenImpCasts()))
                                    s += ",\"init_own_member\":" + jstr(ME->getMemberDecl()->getNameAsString());
                            // `const raw_wrapper raw = raw_wrapper(*this)`: initialiser built from the object itself
                            struct ThisFinder : RecursiveASTVisitor<ThisFinder> {
                                bool found = false, other = false;
                                bool VisitCXXThisExpr(CXXThisExpr *) { found = true; return true; }
                                bool VisitDeclRefExpr(DeclRefExpr *D) { if (isa<VarDecl>(D->getDecl())) other = true; return true; }
                            } TF;
                            TF.TraverseStmt(const_cast<Expr *>(I));
                            if (TF.found && !TF.other) s += ",\"init_from_this\":true";
                        }
                    }
                    s += ",\"access\":" + jstr(F->getAccess() == AS_public ? "public" : F->getAccess() == AS_private ? "private" : "protected");
                    s += "}";
                }
                s += "]";
                s += ",\"static_fields\":[";
                first = true;
                for (auto *D : RD->decls())
                    if (auto *VD = dyn_cast<VarDecl>(D)) {
                        if (!first) s += ",";
                        first = false;
                        s += "{\"id\":" + std::to_string(did(VD)) + ",\"name\":" + jstr(VD->getNameAsString()) +
                             ",\"t\":" + std::to_string(tid(VD->getType())) + "}";
                    }
                s += "]";
            }
            s += ",\"bases\":[";
            bool first = true;
            for (auto &B : RD->bases()) {
                if (!first) s += ",";
                first = false;
                s += std::to_string(tid(B.getType()));
            }
            s += "]";
            if (scope) {
                const CXXConstructorDecl *cc = nullptr, *mc = nullptr;
                const CXXMethodDecl *ca = nullptr, *ma = nullptr;
                for (auto *C : RD->ctors()) {
                    if (C->isCopyConstructor()) cc = C;
                    else if (C->isMoveConstructor()) mc = C;
                }
                for (auto *M : RD->methods()) {
                    if (M->isCopyAssignmentOperator()) ca = M;
                    else if (M->isMoveAssignmentOperator()) ma = M;
                }
                auto sm = [&](const char *k, const CXXMethodDecl *M, bool needsImplicit, bool implicitDeleted) {
                    std::string st = smState(M);
                    if (!M && needsImplicit) st = implicitDeleted ? "deleted" : "implicit";
                    std::string r = std::string("\"") + k + "\":{\"state\":\"" + st + "\"";
                    if (M) {
                        r += ",\"fn\":" + std::to_string(did(M->getCanonicalDecl()));
                        if (M->isImplicit() || M->isDefaulted()) r += std::string(",\"trivial\":") + (M->isTrivial() ? "true" : "false");
                    }
                    return r + "}";
                };
                s += ",\"special\":{";
                s += sm("copy_ctor", cc, RD->needsImplicitCopyConstructor(), RD->needsImplicitCopyConstructor() && RD->defaultedCopyConstructorIsDeleted());
                s += "," + sm("move_ctor", mc, RD->needsImplicitMoveConstructor(), RD->needsImplicitMoveConstructor() && RD->defaultedMoveConstructorIsDeleted());
                s += "," + sm("copy_assign", ca, RD->needsImplicitCopyAssignment(), false);
                s += "," + sm("move_assign", ma, RD->needsImplicitMoveAssignment(), false);
                s += "," + sm("dtor", RD->getDestructor(), RD->needsImplicitDestructor(), false);
                s += "}";
                s += ",\"ctors\":[";
                first = true;
                for (auto *C : RD->ctors()) {
                    if (!first) s += ",";
                    first = false;
                    s += std::to_string(did(C->getCanonicalDecl()));
                }
                // constructor template specialisations
                for (auto *D : RD->decls())
                    if (auto *FT = dyn_cast<FunctionTemplateDecl>(D))
                        if (isa<CXXConstructorDecl>(FT->getTemplatedDecl()))
                            for (auto *Sp : FT->specializations()) {
                                if (!first) s += ",";
                                first = false;
                                s += std::to_string(did(Sp->getCanonicalDecl()));
                            }
                s += "]";
            }
        }
        s += "}";
        recJson[id - 1] = s;
    }

    // ------------------------------------------------------------------ statements
    struct FnCtx {
        std::map<const Stmt *, unsigned> ids;
        std::vector<std::string> nodes;  // json per node, index = id-1
    };

    std::string declKind(const ValueDecl *D) {
        if (isa<ParmVarDecl>(D)) return "param";
        if (auto *VD = dyn_cast<VarDecl>(D)) {
            if (VD->isStaticDataMember()) return "static_member";
            if (VD->isLocalVarDecl()) return VD->isStaticLocal() ? "static_local" : "local";
            if (VD->hasGlobalStorage()) return "global";
            return "local";
        }
        if (isa<FieldDecl>(D)) return "field";
        if (isa<EnumConstantDecl>(D)) return "enumerator";
        if (isa<FunctionDecl>(D)) return "function";
        if (isa<BindingDecl>(D)) return "binding";
        return "other";
    }

    void noteCallee(const FunctionDecl *FD) {
        if (!FD) return;
        const FunctionDecl *Def = nullptr;
        if (FD->hasBody(Def) && Def && !Def->isDependentContext() && inScope(Def) && !emitted.count(Def)) {
            emitted.insert(Def);
            work.push_back(Def);
        }
    }

    std::string calleeJson(const FunctionDecl *FD) {
        std::string s;
        s += ",\"callee\":" + jstr(qname(FD)) + ",\"ct\":" + jstr(tname(FD));
        std::string n = FD->getDeclName().isIdentifier() ? FD->getName().str() : FD->getDeclName().getAsString();
        s += ",\"cn\":" + jstr(n);
        const FunctionDecl *Def = nullptr;
        const FunctionDecl *Key = FD;
        if (FD->hasBody(Def) && Def) Key = Def;
        s += ",\"cd\":" + std::to_string(did(Key->getCanonicalDecl()));
        if (auto *MD = dyn_cast<CXXMethodDecl>(FD)) {
            if (MD->isConst()) s += ",\"cconst\":true";
            if (MD->isStatic()) s += ",\"cstatic\":true";
            s += ",\"crec\":" + jstr(tname(MD->getParent()));
        }
        if (FD->getBuiltinID()) s += ",\"builtin\":true";
        // parameter passing modes (for effect analysis)
        s += ",\"pmodes\":[";
        for (unsigned i = 0; i < FD->getNumParams(); ++i) {
            if (i) s += ",";
            QualType T = FD->getParamDecl(i)->getType().getCanonicalType();
            const char *m = "val";
            if (T->isLValueReferenceType()) m = T->getPointeeType().isConstQualified() ? "cref" : "ref";
            else if (T->isRValueReferenceType()) m = "rref";
            else if (T->isPointerType()) m = T->getPointeeType().isConstQualified() ? "cptr" : "ptr";
            s += std::string("\"") + m + "\"";
        }
        s += "]";
        noteCallee(FD);
        return s;
    }

    unsigned node(const Stmt *S, FnCtx &F) {
        if (!S) return 0;
        auto it = F.ids.find(S);
        if (it != F.ids.end()) return it->second;
        unsigned id = F.nodes.size() + 1;
        F.ids[S] = id;
        F.nodes.emplace_back();
        std::string s = "{\"c\":" + jstr(S->getStmtClassName());
        s += ",\"l\":" + std::to_string(lineOf(S->getBeginLoc()));
        std::string f = fileOf(S->getBeginLoc());
        if (S->getBeginLoc().isMacroID()) s += ",\"macro\":true";

        std::vector<unsigned> ch;
        bool customChildren = false;

        if (auto *E = dyn_cast<Expr>(S)) {
            s += ",\"t\":" + std::to_string(tid(E->getType()));
            if (E->isLValue()) s += ",\"lv\":1";
            if (!E->isValueDependent() && !E->isTypeDependent() && E->getType()->isIntegralOrEnumerationType() &&
                E->isPRValue()) {
                Expr::EvalResult R;
                if (E->EvaluateAsInt(R, Ctx, Expr::SE_NoSideEffects) && R.Val.isInt())
                    s += ",\"v\":" + jstr(toString(R.Val.getInt(), 10));
            }
        }

        if (auto *DR = dyn_cast<DeclRefExpr>(S)) {
            auto *D = DR->getDecl();
            s += ",\"d\":" + std::to_string(did(D->getCanonicalDecl())) + ",\"n\":" + jstr(D->getNameAsString()) +
                 ",\"dk\":" + jstr(declKind(D));
            if (auto *VD = dyn_cast<VarDecl>(D)) {
                if (VD->getType()->isReferenceType()) s += ",\"dref\":1";
                if (!VD->isLocalVarDeclOrParm()) s += ",\"dq\":" + jstr(tname(VD));
            }
            if (auto *FD = dyn_cast<FunctionDecl>(D)) {
                s += ",\"fq\":" + jstr(tname(FD));
                noteCallee(FD);
            }
            if (DR->refersToEnclosingVariableOrCapture()) s += ",\"captured\":1";
        } else if (auto *ME = dyn_cast<MemberExpr>(S)) {
            auto *D = ME->getMemberDecl();
            s += ",\"d\":" + std::to_string(did(D->getCanonicalDecl())) + ",\"n\":" + jstr(D->getNameAsString()) +
                 ",\"dk\":" + jstr(isa<FieldDecl>(D) ? "field" : isa<CXXMethodDecl>(D) ? "method" : isa<VarDecl>(D) ? "static_member" : "other");
            if (ME->isArrow()) s += ",\"arrow\":1";
            if (auto *FD = dyn_cast<FieldDecl>(D)) {
                if (FD->isMutable()) s += ",\"mutable\":1";
                s += ",\"frec\":" + jstr(tname(FD->getParent()));
            }
        } else if (auto *CE = dyn_cast<CallExpr>(S)) {
            const FunctionDecl *FD = CE->getDirectCallee();
            if (FD) s += calleeJson(FD);
            else s += ",\"indirect\":true";
            if (auto *OC = dyn_cast<CXXOperatorCallExpr>(S)) {
                s += ",\"op\":" + jstr(getOperatorSpelling(OC->getOperator()));
                if (FD && isa<CXXMethodDecl>(FD) && !cast<CXXMethodDecl>(FD)->isStatic()) s += ",\"op_member\":true";
            }
            customChildren = true;
            unsigned calleeId = node(CE->getCallee(), F);
            ch.push_back(calleeId);
            std::string args = ",\"args\":[";
            bool first = true;
            for (auto *A : CE->arguments()) {
                unsigned a = node(A, F);
                ch.push_back(a);
                if (!first) args += ",";
                first = false;
                args += std::to_string(a);
            }
            args += "]";
            s += args;
            if (auto *MC = dyn_cast<CXXMemberCallExpr>(S)) {
                if (auto *O = MC->getImplicitObjectArgument()) s += ",\"obj\":" + std::to_string(node(O, F));
            }
        } else if (auto *CC = dyn_cast<CXXConstructExpr>(S)) {
            auto *CD = CC->getConstructor();
            s += calleeJson(CD);
            s += ",\"rec\":" + jstr(tname(CD->getParent()));
            if (CC->isElidable()) s += ",\"elidable\":true";
            if (CD->isCopyConstructor()) s += ",\"ctor_kind\":\"copy\"";
            else if (CD->isMoveConstructor()) s += ",\"ctor_kind\":\"move\"";
            else if (CD->isDefaultConstructor()) s += ",\"ctor_kind\":\"default\"";
            std::string args = ",\"args\":[";
            bool first = true;
            customChildren = true;
            for (auto *A : CC->arguments()) {
                unsigned a = node(A, F);
                ch.push_back(a);
                if (!first) args += ",";
                first = false;
                args += std::to_string(a);
            }
            s += args + "]";
        } else if (auto *UO = dyn_cast<UnaryOperator>(S)) {
            s += ",\"op\":" + jstr(UnaryOperator::getOpcodeStr(UO->getOpcode()));
            if (UO->isPostfix()) s += ",\"postfix\":1";
        } else if (auto *BO = dyn_cast<BinaryOperator>(S)) {
            s += ",\"op\":" + jstr(BO->getOpcodeStr());
        } else if (auto *CA = dyn_cast<CastExpr>(S)) {
            s += ",\"ck\":" + jstr(CA->getCastKindName());
            if (auto *Conv = CA->getConversionFunction())
                if (auto *FD = dyn_cast<FunctionDecl>(Conv)) { s += ",\"conv\":" + jstr(tname(FD)); noteCallee(FD); }
        } else if (auto *IL = dyn_cast<IntegerLiteral>(S)) {
            (void) IL;
        } else if (auto *FL = dyn_cast<FloatingLiteral>(S)) {
            llvm::SmallString<32> buf;
            FL->getValue().toString(buf);
            s += ",\"fv\":" + jstr(buf);
        } else if (auto *SL = dyn_cast<StringLiteral>(S)) {
            if (SL->isAscii()) s += ",\"s\":" + jstr(SL->getString());
        } else if (auto *SN = dyn_cast<SubstNonTypeTemplateParmExpr>(S)) {
            s += ",\"tp\":" + jstr(SN->getParameter()->getNameAsString());
        } else if (auto *DS = dyn_cast<DeclStmt>(S)) {
            customChildren = true;
            s += ",\"vars\":[";
            bool first = true;
            for (auto *D : DS->decls()) {
                auto *VD = dyn_cast<VarDecl>(D);
                if (!VD) continue;
                if (!first) s += ",";
                first = false;
                unsigned init = VD->getInit() ? node(VD->getInit(), F) : 0;
                if (init) ch.push_back(init);
                s += "{\"id\":" + std::to_string(did(VD->getCanonicalDecl())) + ",\"name\":" + jstr(VD->getNameAsString()) +
                     ",\"t\":" + std::to_string(tid(VD->getType())) + ",\"init\":" + std::to_string(init);
                if (VD->isStaticLocal()) s += ",\"static\":true";
                if (VD->isConstexpr()) s += ",\"constexpr\":true";
                if (auto *DD = dyn_cast<DecompositionDecl>(VD)) {
                    s += ",\"bindings\":[";
                    bool f2 = true;
                    for (auto *B : DD->bindings()) {
                        if (!f2) s += ",";
                        f2 = false;
                        s += "{\"id\":" + std::to_string(did(B)) + ",\"name\":" + jstr(B->getNameAsString()) + "}";
                    }
                    s += "]";
                }
                s += "}";
            }
            s += "]";
        } else if (auto *IS = dyn_cast<IfStmt>(S)) {
            if (IS->isConstexpr()) {
                s += ",\"constexpr\":true";
                // source position of the `if` in the pattern: identical across instantiations
                SourceLocation L = IS->getIfLoc();
                bool known = false, val = false;
                if (IS->getCond() && !IS->getCond()->isValueDependent()) {
                    bool b;
                    if (IS->getCond()->EvaluateAsBooleanCondition(b, Ctx)) { known = true; val = b; }
                }
                if (known) {
                    s += std::string(",\"cval\":") + (val ? "true" : "false");
                    cifJson.push_back("{\"file\":" + jstr(fileOf(L)) + ",\"line\":" + std::to_string(lineOf(L)) + ",\"col\":" +
                                      std::to_string(colOf(L)) + ",\"val\":" + (val ? "true" : "false") +
                                      ",\"has_else\":" + (IS->getElse() || !val ? (IS->getElse() ? "true" : "false") : "false") + "}");
                }
            }
            customChildren = true;
            unsigned c = node(IS->getCond(), F), t = node(IS->getThen(), F), e = node(IS->getElse(), F);
            if (IS->getInit()) ch.push_back(node(IS->getInit(), F));
            if (IS->getConditionVariableDeclStmt()) ch.push_back(node(IS->getConditionVariableDeclStmt(), F));
            ch.push_back(c);
            if (t) ch.push_back(t);
            if (e) ch.push_back(e);
            s += ",\"cond\":" + std::to_string(c) + ",\"then\":" + std::to_string(t) + ",\"else\":" + std::to_string(e);
        } else if (auto *LE = dyn_cast<LambdaExpr>(S)) {
            customChildren = true;
            const CXXRecordDecl *RD = LE->getLambdaClass();
            s += ",\"lam_rec\":" + std::to_string(rid(RD));
            if (LE->isGenericLambda()) s += ",\"generic\":true";
            if (auto *Op = LE->getCallOperator()) {
                s += ",\"lam_op\":" + std::to_string(did(Op->getCanonicalDecl()));
                if (!LE->isGenericLambda()) noteCallee(Op);
            }
            s += ",\"captures\":[";
            bool first = true;
            auto initIt = LE->capture_init_begin();
            for (auto &C : LE->captures()) {
                if (!first) s += ",";
                first = false;
                s += "{";
                if (C.capturesVariable()) {
                    s += "\"var\":" + std::to_string(did(C.getCapturedVar()->getCanonicalDecl())) + ",\"name\":" +
                         jstr(C.getCapturedVar()->getNameAsString());
                } else if (C.capturesThis())
                    s += "\"this\":true";
                else
                    s += "\"other\":true";
                s += std::string(",\"byref\":") + (C.getCaptureKind() == LCK_ByRef ? "true" : "false");
                if (initIt != LE->capture_init_end() && *initIt) {
                    unsigned ci = node(*initIt, F);
                    ch.push_back(ci);
                    s += ",\"init\":" + std::to_string(ci);
                }
                if (initIt != LE->capture_init_end()) ++initIt;
                s += "}";
            }
            s += "]";
        } else if (auto *NE = dyn_cast<CXXNewExpr>(S)) {
            s += ",\"alloc_t\":" + std::to_string(tid(NE->getAllocatedType()));
        } else if (auto *TE = dyn_cast<CXXThrowExpr>(S)) {
            if (TE->getSubExpr()) s += ",\"tt\":" + std::to_string(tid(TE->getSubExpr()->getType()));
        } else if (auto *TS = dyn_cast<CXXTryStmt>(S)) {
            customChildren = true;
            unsigned tb = node(TS->getTryBlock(), F);
            ch.push_back(tb);
            s += ",\"try\":" + std::to_string(tb) + ",\"handlers\":[";
            for (unsigned i = 0; i < TS->getNumHandlers(); ++i) {
                auto *H = TS->getHandler(i);
                unsigned hb = node(H->getHandlerBlock(), F);
                ch.push_back(hb);
                if (i) s += ",";
                s += "{\"t\":" + std::to_string(H->getExceptionDecl() ? tid(H->getCaughtType()) : 0) + ",\"body\":" + std::to_string(hb) + "}";
            }
            s += "]";
        } else if (auto *DA = dyn_cast<CXXDefaultArgExpr>(S)) {
            customChildren = true;
            ch.push_back(node(DA->getExpr(), F));
        } else if (auto *DI = dyn_cast<CXXDefaultInitExpr>(S)) {
            customChildren = true;
            ch.push_back(node(DI->getExpr(), F));
        } else if (auto *OD = dyn_cast<OMPExecutableDirective>(S)) {
            customChildren = true;
            s += ",\"omp\":true,\"clauses\":[";
            bool first = true;
            for (auto *C : OD->clauses()) {
                if (!C) continue;
                if (!first) s += ",";
                first = false;
                s += "{\"kind\":" + jstr(llvm::omp::getOpenMPClauseName(C->getClauseKind()));
                s += ",\"vars\":[";
                bool f2 = true;
                for (auto *Child : C->children()) {
                    if (!Child) continue;
                    if (auto *E = dyn_cast<Expr>(Child))
                        if (auto *DR = dyn_cast<DeclRefExpr>(E->IgnoreParenImpCasts())) {
                            if (!f2) s += ",";
                            f2 = false;
                            s += std::to_string(did(DR->getDecl()->getCanonicalDecl()));
                        }
                }
                s += "]}";
            }
            s += "]";
            if (OD->hasAssociatedStmt()) {
                const Stmt *Body = OD->getInnermostCapturedStmt()->getCapturedStmt();
                unsigned b = node(Body, F);
                ch.push_back(b);
                s += ",\"omp_body\":" + std::to_string(b);
            }
        } else if (auto *TT = dyn_cast<UnaryExprOrTypeTraitExpr>(S)) {
            (void) TT;
        } else if (auto *CS = dyn_cast<CXXScalarValueInitExpr>(S)) {
            (void) CS;
        }

        if (!customChildren)
            for (const Stmt *C : S->children()) {
                unsigned c = node(C, F);
                if (c) ch.push_back(c);
            }
        s += ",\"ch\":[";
        for (size_t i = 0; i < ch.size(); ++i) {
            if (i) s += ",";
            s += std::to_string(ch[i]);
        }
        s += "]}";
        F.nodes[id - 1] = s;
        return id;
    }

    // ------------------------------------------------------------------ functions
    void emitFunction(const FunctionDecl *FD) {
        FnCtx F;
        std::string s = "{\"id\":" + std::to_string(did(FD->getCanonicalDecl()));
        s += ",\"qname\":" + jstr(qname(FD)) + ",\"tname\":" + jstr(tname(FD));
        std::string n = FD->getDeclName().isIdentifier() ? FD->getName().str() : FD->getDeclName().getAsString();
        s += ",\"name\":" + jstr(n);
        s += ",\"targs\":" + targsJson(FD);
        s += ",\"file\":" + jstr(fileOf(FD->getLocation())) + ",\"line\":" + std::to_string(lineOf(FD->getLocation())) +
             ",\"endline\":" + std::to_string(lineOf(FD->getEndLoc()));
        s += ",\"ret\":" + std::to_string(tid(FD->getReturnType()));
        if (FD->getLocation().isMacroID()) s += ",\"from_macro\":true";
        if (FD->isExternC()) s += ",\"extern_c\":true";
        if (FD->isImplicit()) s += ",\"implicit\":true";
        if (FD->isDefaulted()) s += ",\"defaulted\":true";
        // enclosing function (lambdas, local classes)
        {
            const DeclContext *DC = FD->getDeclContext();
            while (DC && !DC->isTranslationUnit()) {
                if (auto *PF = dyn_cast<FunctionDecl>(DC)) {
                    s += ",\"parent_fn\":" + std::to_string(did(PF->getCanonicalDecl()));
                    break;
                }
                DC = DC->getParent();
            }
        }
        if (auto *MD = dyn_cast<CXXMethodDecl>(FD)) {
            const CXXRecordDecl *RD = MD->getParent();
            s += ",\"record\":" + jstr(qname(RD)) + ",\"record_t\":" + jstr(tname(RD)) + ",\"rec\":" + std::to_string(rid(RD));
            if (MD->isConst()) s += ",\"const\":true";
            if (MD->isStatic()) s += ",\"static\":true";
            if (RD->isLambda()) s += ",\"lambda\":true";
            s += ",\"access\":" + jstr(MD->getAccess() == AS_public ? "public" : MD->getAccess() == AS_private ? "private" : "protected");
            if (MD->isCopyAssignmentOperator()) s += ",\"special\":\"copy_assign\"";
            if (MD->isMoveAssignmentOperator()) s += ",\"special\":\"move_assign\"";
            if (isa<CXXDestructorDecl>(MD)) s += ",\"special\":\"dtor\"";
            if (auto *CD = dyn_cast<CXXConstructorDecl>(MD)) {
                s += ",\"ctor\":true";
                if (CD->isCopyConstructor()) s += ",\"special\":\"copy_ctor\"";
                else if (CD->isMoveConstructor()) s += ",\"special\":\"move_ctor\"";
                else if (CD->isDefaultConstructor()) s += ",\"special\":\"default_ctor\"";
                s += ",\"inits\":[";
                bool first = true;
                for (auto *I : CD->inits()) {
                    if (!first) s += ",";
                    first = false;
                    s += "{";
                    if (I->isAnyMemberInitializer()) s += "\"field\":" + jstr(I->getAnyMember()->getNameAsString()) + ",\"field_id\":" + std::to_string(did(I->getAnyMember()->getCanonicalDecl()));
                    else if (I->isBaseInitializer()) s += "\"base\":" + std::to_string(tid(QualType(I->getBaseClass(), 0)));
                    else if (I->isDelegatingInitializer()) s += "\"delegating\":true";
                    s += std::string(",\"written\":") + (I->isWritten() ? "true" : "false");
                    s += ",\"expr\":" + std::to_string(node(I->getInit(), F));
                    s += "}";
                }
                s += "]";
            }
        }
        s += ",\"params\":[";
        for (unsigned i = 0; i < FD->getNumParams(); ++i) {
            auto *P = FD->getParamDecl(i);
            if (i) s += ",";
            s += "{\"id\":" + std::to_string(did(P->getCanonicalDecl())) + ",\"name\":" + jstr(P->getNameAsString()) + ",\"t\":" +
                 std::to_string(tid(P->getType())) + "}";
        }
        s += "]";

        const Stmt *Body = FD->getBody();
        unsigned bodyId = node(Body, F);
        s += ",\"body\":" + std::to_string(bodyId);

        // CFG
        CFG::BuildOptions BO;
        BO.setAllAlwaysAdd();
        BO.AddInitializers = true;
        BO.AddImplicitDtors = false;
        BO.AddTemporaryDtors = false;
        BO.AddEHEdges = false;
        BO.PruneTriviallyFalseEdges = true;
        BO.AddCXXDefaultInitExprInCtors = true;
        std::unique_ptr<CFG> G = CFG::buildCFG(FD, const_cast<Stmt *>(Body), &Ctx, BO);
        if (!G) {
            ++nFailCFG;
            s += ",\"cfg\":null";
        } else {
            s += ",\"cfg\":{\"entry\":" + std::to_string(G->getEntry().getBlockID()) + ",\"exit\":" +
                 std::to_string(G->getExit().getBlockID()) + ",\"blocks\":[";
            bool firstB = true;
            for (const CFGBlock *B : *G) {
                if (!firstB) s += ",";
                firstB = false;
                s += "{\"id\":" + std::to_string(B->getBlockID()) + ",\"elems\":[";
                bool first = true;
                for (const CFGElement &E : *B) {
                    const Stmt *St = nullptr;
                    if (auto CS = E.getAs<CFGStmt>()) St = CS->getStmt();
                    else if (auto CI = E.getAs<CFGInitializer>()) St = CI->getInitializer()->getInit();
                    if (!St) continue;
                    unsigned e = node(St, F);
                    if (!first) s += ",";
                    first = false;
                    s += std::to_string(e);
                }
                s += "]";
                const Stmt *T = B->getTerminatorStmt();
                if (T) {
                    s += ",\"term\":" + std::to_string(node(T, F)) + ",\"term_c\":" + jstr(T->getStmtClassName());
                    if (const Stmt *C = B->getTerminatorCondition(false)) s += ",\"cond\":" + std::to_string(node(C, F));
                }
                if (const Stmt *L = B->getLoopTarget()) s += ",\"loop_target\":" + std::to_string(node(L, F));
                if (B->hasNoReturnElement()) s += ",\"noreturn\":true";
                s += ",\"succs\":[";
                first = true;
                for (auto I = B->succ_begin(); I != B->succ_end(); ++I) {
                    if (!first) s += ",";
                    first = false;
                    if (I->isReachable() && I->getReachableBlock()) s += std::to_string(I->getReachableBlock()->getBlockID());
                    else s += "null";
                }
                s += "]}";
            }
            s += "]}";
        }
        s += ",\"nodes\":[";
        for (size_t i = 0; i < F.nodes.size(); ++i) {
            if (i) s += ",";
            s += F.nodes[i];
        }
        s += "]}";
        fnJson.push_back(std::move(s));
    }

    void drain() {
        while (!work.empty() || !recQueue.empty()) {
            while (!work.empty()) {
                const FunctionDecl *FD = work.front();
                work.pop_front();
                emitFunction(FD);
            }
            while (!recQueue.empty()) {
                const CXXRecordDecl *RD = recQueue.back();
                recQueue.pop_back();
                emitRecord(RD);
            }
        }
    }
};

class RootVisitor : public RecursiveASTVisitor<RootVisitor> {
public:
    Extractor &X;
    explicit RootVisitor(Extractor &X) : X(X) {}
    bool shouldVisitTemplateInstantiations() const { return true; }
    bool shouldVisitImplicitCode() const { return true; }
    bool VisitFunctionDecl(FunctionDecl *FD) {
        if (!FD->doesThisDeclarationHaveABody()) return true;
        if (FD->isDependentContext()) return true;
        if (!X.isRootFile(FD)) return true;
        if (!X.emitted.count(FD)) {
            X.emitted.insert(FD);
            X.work.push_back(FD);
        }
        return true;
    }
    bool VisitCXXRecordDecl(CXXRecordDecl *RD) {
        if (!RD->isCompleteDefinition() || RD->isDependentContext()) return true;
        if (!X.isRootFile(RD)) return true;
        if (isa<ClassTemplatePartialSpecializationDecl>(RD)) return true;
        X.rid(RD);
        return true;
    }
};

class Consumer : public ASTConsumer {
public:
    void HandleTranslationUnit(ASTContext &Ctx) override {
        if (Ctx.getDiagnostics().hasErrorOccurred()) {
            llvm::errs() << "pgmfacts: translation unit has errors\n";
            exit(3);
        }
        Extractor X(Ctx);
        {
            std::string sc = ScopeOpt;
            size_t p = 0;
            while (p <= sc.size() && !sc.empty()) {
                size_t q = sc.find(',', p);
                if (q == std::string::npos) q = sc.size();
                if (q > p) X.scopes.push_back(sc.substr(p, q - p));
                p = q + 1;
            }
            std::string rp = RootsOpt;
            p = 0;
            while (p <= rp.size() && !rp.empty()) {
                size_t q = rp.find(',', p);
                if (q == std::string::npos) q = rp.size();
                if (q > p) X.rootPats.push_back(rp.substr(p, q - p));
                p = q + 1;
            }
        }
        RootVisitor V(X);
        V.TraverseDecl(Ctx.getTranslationUnitDecl());
        X.drain();

        std::error_code EC;
        llvm::raw_fd_ostream os(OutFile, EC);
        if (EC) {
            llvm::errs() << "pgmfacts: cannot write " << OutFile << "\n";
            exit(4);
        }
        auto &SM = Ctx.getSourceManager();
        os << "{\"main\":" << jstr(SM.getFileEntryForID(SM.getMainFileID())->getName()) << ",\n";
        os << "\"cfg_failures\":" << X.nFailCFG << ",\n";
        os << "\"types\":[";
        for (size_t i = 0; i < X.typeJson.size(); ++i) os << (i ? ",\n" : "\n") << X.typeJson[i];
        os << "],\n\"records\":[";
        for (size_t i = 0; i < X.recJson.size(); ++i) os << (i ? ",\n" : "\n") << X.recJson[i];
        os << "],\n\"constexpr_ifs\":[";
        for (size_t i = 0; i < X.cifJson.size(); ++i) os << (i ? ",\n" : "\n") << X.cifJson[i];
        os << "],\n\"functions\":[";
        for (size_t i = 0; i < X.fnJson.size(); ++i) os << (i ? ",\n" : "\n") << X.fnJson[i];
        os << "]}\n";
    }
};

class Action : public ASTFrontendAction {
public:
    std::unique_ptr<ASTConsumer> CreateASTConsumer(CompilerInstance &, llvm::StringRef) override {
        return std::make_unique<Consumer>();
    }
};

}  // namespace

int main(int argc, const char **argv) {
    auto Exp = tooling::CommonOptionsParser::create(argc, argv, Cat);
    if (!Exp) {
        llvm::errs() << Exp.takeError();
        return 2;
    }
    tooling::ClangTool Tool(Exp->getCompilations(), Exp->getSourcePathList());
    return Tool.run(tooling::newFrontendActionFactory<Action>().get());
}
