// pgmir: LLVM-IR store/effect analysis (thorough tier of C16).
//
// Input: one LLVM IR module (the driver TU compiled by clang at -O0 with optnone disabled, then mem2reg+sroa).
// For every defined function it computes, by a flow-insensitive fixpoint,
//   * the provenance of every pointer value: which argument's reachable memory, which global, which local alloca,
//     fresh memory (operator new / malloc), or unknown.  A pointer LOADED from memory reachable from argument i is
//     attributed to argument i again (reachability closure); pointers stored into a local alloca are remembered as
//     the contents of that alloca.
//   * a summary: through which arguments / globals the function (or anything it calls) may STORE, and what a
//     returned pointer may point to.
// Indirect calls are resolved by class-hierarchy approximation: every function whose address appears in a vtable
// (_ZTV*) and whose type matches.  Declarations without body use the small table in externalEffect(); an external that
// is not in the table is assumed to write through every pointer argument and to return unknown.
//
// Output (JSON): per defined function its demangled name, the roots it may write and one witness per root.
// The decision (which functions are reader entry points, which roots are shared) is taken in rules/p_effect_ir.py.

#include "llvm/Demangle/Demangle.h"
#include "llvm/IR/Constants.h"
#include "llvm/IR/DebugInfoMetadata.h"
#include "llvm/IR/Function.h"
#include "llvm/IR/InstIterator.h"
#include "llvm/IR/Instructions.h"
#include "llvm/IR/IntrinsicInst.h"
#include "llvm/IR/LLVMContext.h"
#include "llvm/IR/Module.h"
#include "llvm/IR/Operator.h"
#include "llvm/IRReader/IRReader.h"
#include "llvm/Support/SourceMgr.h"
#include "llvm/Support/raw_ostream.h"

#include <map>
#include <set>
#include <string>
#include <vector>

using namespace llvm;

namespace {

// ---- roots -------------------------------------------------------------------------------------------------
// kind: 0 ARG(i, deep): id = 2*i + deep; deep = 0 the object argument i points to, deep = 1 memory reached through a
//         pointer loaded from it   1 GLOBAL(id)  2 LOCAL(alloca id, per function)  3 FRESH  4 UNKNOWN(reason id)
struct Root {
    int kind;
    int id;
    bool operator<(const Root &o) const { return kind != o.kind ? kind < o.kind : id < o.id; }
    bool operator==(const Root &o) const { return kind == o.kind && id == o.id; }
};
using RootSet = std::set<Root>;

std::vector<std::string> globalNames;
std::map<const GlobalValue *, int> globalIds;
std::vector<std::string> unknownReasons;
std::map<std::string, int> unknownIds;

int gid(const GlobalValue *G) {
    auto it = globalIds.find(G);
    if (it != globalIds.end()) return it->second;
    int id = globalNames.size();
    globalIds[G] = id;
    globalNames.push_back(G->getName().str());
    return id;
}
int uid(const std::string &why) {
    auto it = unknownIds.find(why);
    if (it != unknownIds.end()) return it->second;
    int id = unknownReasons.size();
    unknownIds[why] = id;
    unknownReasons.push_back(why);
    return id;
}

struct Witness {
    std::string what;     // "store" | "call <callee>" | "memcpy" ...
    unsigned line = 0;
    std::string file;
    const Function *callee = nullptr;
};

struct Summary {
    std::map<Root, Witness> writes;   // ARG / GLOBAL / UNKNOWN roots only
    RootSet ret;                      // ARG / GLOBAL / FRESH / UNKNOWN
    std::set<std::pair<Root, Root>> pstores;   // (where, what): a pointer to `what` may be stored into memory `where`
    bool operator==(const Summary &o) const {
        if (ret != o.ret || writes.size() != o.writes.size() || pstores != o.pstores) return false;
        auto a = writes.begin();
        auto b = o.writes.begin();
        for (; a != writes.end(); ++a, ++b)
            if (!(a->first == b->first)) return false;
        return true;
    }
};

std::map<const Function *, Summary> summaries;
std::map<FunctionType *, std::vector<const Function *>> vtableFuncsByType;
std::set<std::string> externalsUsed;
std::set<std::string> externalsUnlisted;

bool isPtr(const Value *V) { return V->getType()->isPointerTy(); }

std::string dem(StringRef n) { return llvm::demangle(n.str()); }

// ---- external table --------------------------------------------------------------------------------------------
// returns true if known; fills which pointer args are written and what the result points to
struct ExtEffect {
    std::vector<unsigned> writesArgs;
    int ret = -1;   // -1: nothing/none, -2 fresh, -3 unknown, >=0: same as arg k
    bool global = false;
};

bool startsWith(const std::string &s, const char *p) { return s.rfind(p, 0) == 0; }

bool externalEffect(const Function *F, ExtEffect &E) {
    std::string n = F->getName().str();
    std::string d = dem(n);
    if (F->isIntrinsic()) {
        switch (F->getIntrinsicID()) {
            case Intrinsic::memcpy: case Intrinsic::memmove: case Intrinsic::memset:
            case Intrinsic::memcpy_inline:
                E.writesArgs = {0};
                return true;
            default:
                return true;   // lifetime/dbg/bit manipulation/overflow arithmetic/prefetch/expect/x86 bmi ...: no memory writes through arguments
        }
    }
    static const char *fresh[] = {"_Znwm", "_Znam", "malloc", "calloc", "_ZnwmSt11align_val_t", "_ZnamSt11align_val_t", "__cxa_allocate_exception", "aligned_alloc"};
    for (auto *f : fresh)
        if (n == f) { E.ret = -2; return true; }
    static const char *pure[] = {"_ZdlPv", "_ZdaPv", "_ZdlPvm", "_ZdaPvm", "free", "_ZdlPvSt11align_val_t", "__cxa_throw", "__cxa_begin_catch", "__cxa_end_catch", "_Unwind_Resume",
                                 "__clang_call_terminate", "_ZSt9terminatev", "__assert_fail", "strlen", "memcmp", "__cxa_free_exception", "__cxa_rethrow", "abort",
                                 "__gxx_personality_v0", "__cxa_pure_virtual", "strerror", "__errno_location", "nextafter", "nextafterf", "nextafterl", "round", "roundf", "roundl",
                                 "pow", "sqrt", "log2", "ceil", "floor", "fabs", "ldexp", "omp_get_num_procs", "omp_get_max_threads", "__cxa_guard_abort", "_ZSt17__throw_bad_allocv",
                                 "_ZSt28__throw_bad_array_new_lengthv", "_ZSt20__throw_length_errorPKc", "_ZSt19__throw_logic_errorPKc", "_ZSt24__throw_out_of_range_fmtPKcz",
                                 "_ZSt25__throw_bad_function_callv", "_ZSt21__throw_runtime_errorPKc", "_ZSt24__throw_invalid_argumentPKc", "_ZSt20__throw_out_of_rangePKc",
                                 "stat", "open", "close", "munmap", "log", "logf", "exp", "sin", "cos", "trunc", "fmod", "_ZNSaIcEC1Ev", "_ZNSaIcEC2Ev", "_ZNSaIcED1Ev", "_ZNSaIcED2Ev",
                                 "_ZNSaIcEC1ERKS_", "_ZNSaIcEC2ERKS_", "_ZSt11_Hash_bytesPKvmm", "_ZNSt3_V215system_categoryEv", "_ZNSt3_V216generic_categoryEv"};
    for (auto *f : pure)
        if (n == f) return true;
    if (n == "memcpy" || n == "memmove" || n == "memset") { E.writesArgs = {0}; E.ret = 0; return true; }
    if (n == "mmap") { E.ret = -2; return true; }
    if (n == "__cxa_guard_acquire" || n == "__cxa_guard_release" || n == "__cxa_atexit") { E.global = true; return true; }
    if (startsWith(d, "std::_Rb_tree_insert_and_rebalance")) { E.writesArgs = {1, 2, 3}; return true; }
    if (startsWith(d, "std::_Rb_tree_increment") || startsWith(d, "std::_Rb_tree_decrement")) { E.ret = 0; return true; }
    if (startsWith(d, "std::_Rb_tree_rebalance_for_erase")) { E.writesArgs = {0, 1}; E.ret = 0; return true; }
    if (startsWith(d, "std::__detail::_List_node_base")) { E.writesArgs = {0, 1}; return true; }
    // exception objects / std::string / iostream member functions that live in libstdc++.so: write their object (arg 0)
    if (startsWith(d, "std::logic_error::") || startsWith(d, "std::invalid_argument::") || startsWith(d, "std::runtime_error::") || startsWith(d, "std::overflow_error::") ||
        startsWith(d, "std::exception::") || startsWith(d, "std::bad_alloc::") || startsWith(d, "std::out_of_range::") || startsWith(d, "std::length_error::") ||
        startsWith(d, "std::__cxx11::basic_string<char") || startsWith(d, "std::basic_ostream") || startsWith(d, "std::basic_istream") || startsWith(d, "std::basic_ios") ||
        startsWith(d, "std::ios_base") || startsWith(d, "std::basic_fstream") || startsWith(d, "std::basic_filebuf") || startsWith(d, "std::basic_streambuf") ||
        startsWith(d, "std::ostream") || startsWith(d, "std::istream") || startsWith(d, "std::locale") || startsWith(d, "std::basic_iostream") || startsWith(d, "std::__basic_file") ||
        startsWith(d, "std::basic_ofstream") || startsWith(d, "std::basic_ifstream") || startsWith(d, "std::basic_stringbuf") || startsWith(d, "std::__cxx11::basic_stringstream") ||
        startsWith(d, "std::__cxx11::basic_ostringstream") || startsWith(d, "std::__cxx11::basic_stringbuf") || startsWith(d, "std::__cxx11::basic_istringstream")) {
        E.writesArgs = {0};
        E.ret = 0;
        return true;
    }
    if (startsWith(d, "std::basic_ostream<char, std::char_traits<char> >& std::operator<<") || startsWith(d, "std::ostream& std::operator<<") ||
        startsWith(d, "std::basic_ostream<char, std::char_traits<char> >& std::__ostream_insert")) {
        E.writesArgs = {0};
        E.ret = 0;
        return true;
    }
    return false;
}

// ---- per function analysis -----------------------------------------------------------------------------------
struct FnState {
    const Function *F;
    std::map<const Value *, RootSet> prov;
    std::map<int, RootSet> contents;   // local alloca id -> roots of pointers stored inside
    std::map<const AllocaInst *, int> allocaIds;
};

void locOf(const Instruction &I, Witness &W) {
    if (const DebugLoc &DL = I.getDebugLoc()) {
        W.line = DL.getLine();
        if (auto *S = dyn_cast_or_null<DIScope>(DL.getScope())) W.file = S->getFilename().str();
    }
}

const RootSet &provOf(FnState &S, const Value *V);
RootSet mapArgRoot(FnState &S, const RootSet &P, bool deep);

RootSet computeProv(FnState &S, const Value *V) {
    RootSet R;
    if (!isPtr(V)) {
        // integers cast to pointers later: unknown unless constant
        return R;
    }
    if (isa<ConstantPointerNull>(V) || isa<UndefValue>(V)) return R;
    if (auto *A = dyn_cast<Argument>(V)) {
        R.insert({0, 2 * (int) A->getArgNo()});
        return R;
    }
    if (auto *G = dyn_cast<GlobalVariable>(V)) {
        R.insert({1, gid(G)});
        return R;
    }
    if (isa<Function>(V)) return R;
    if (auto *GA = dyn_cast<GlobalAlias>(V)) {
        R.insert({1, gid(GA)});
        return R;
    }
    if (auto *CE = dyn_cast<ConstantExpr>(V)) {
        if (CE->getOpcode() == Instruction::GetElementPtr || CE->getOpcode() == Instruction::BitCast || CE->getOpcode() == Instruction::AddrSpaceCast)
            return provOf(S, CE->getOperand(0));
        if (CE->getOpcode() == Instruction::IntToPtr) {
            R.insert({4, uid("inttoptr constant")});
            return R;
        }
        return R;
    }
    if (auto *AI = dyn_cast<AllocaInst>(V)) {
        auto it = S.allocaIds.find(AI);
        int id = it == S.allocaIds.end() ? (S.allocaIds[AI] = (int) S.allocaIds.size()) : it->second;
        R.insert({2, id});
        return R;
    }
    if (auto *GEP = dyn_cast<GetElementPtrInst>(V)) return provOf(S, GEP->getPointerOperand());
    if (auto *BC = dyn_cast<BitCastInst>(V)) return provOf(S, BC->getOperand(0));
    if (auto *AC = dyn_cast<AddrSpaceCastInst>(V)) return provOf(S, AC->getOperand(0));
    if (auto *PN = dyn_cast<PHINode>(V)) {
        for (auto &U : PN->incoming_values())
            for (auto &r : provOf(S, U.get())) R.insert(r);
        return R;
    }
    if (auto *SI = dyn_cast<SelectInst>(V)) {
        for (auto &r : provOf(S, SI->getTrueValue())) R.insert(r);
        for (auto &r : provOf(S, SI->getFalseValue())) R.insert(r);
        return R;
    }
    if (auto *LI = dyn_cast<LoadInst>(V)) {
        // a pointer loaded from memory: reachable from the same roots; for locals: what was stored there
        for (auto &r : provOf(S, LI->getPointerOperand())) {
            if (r.kind == 2) {
                for (auto &c : S.contents[r.id]) R.insert(c);
            } else if (r.kind == 0) {
                R.insert({0, r.id | 1});
            } else {
                R.insert(r);
            }
        }
        return R;
    }
    if (isa<IntToPtrInst>(V)) {
        // pointer arithmetic through integers (e.g. MappedPGMIndex::begin): follow ptrtoint operands
        const Value *Op = cast<IntToPtrInst>(V)->getOperand(0);
        std::vector<const Value *> todo{Op};
        std::set<const Value *> seen;
        bool any = false;
        while (!todo.empty()) {
            const Value *X = todo.back();
            todo.pop_back();
            if (!seen.insert(X).second) continue;
            if (auto *PI = dyn_cast<PtrToIntInst>(X)) {
                for (auto &r : provOf(S, PI->getOperand(0))) R.insert(r);
                any = true;
            } else if (auto *BO = dyn_cast<BinaryOperator>(X)) {
                todo.push_back(BO->getOperand(0));
                todo.push_back(BO->getOperand(1));
            } else if (auto *PN2 = dyn_cast<PHINode>(X)) {
                for (auto &U : PN2->incoming_values()) todo.push_back(U.get());
            }
        }
        if (!any) R.insert({4, uid("inttoptr")});
        return R;
    }
    if (auto *CB = dyn_cast<CallBase>(V)) {
        const Function *Callee = CB->getCalledFunction();
        std::vector<const Function *> targets;
        if (Callee) targets.push_back(Callee);
        else {
            auto it = vtableFuncsByType.find(CB->getFunctionType());
            if (it != vtableFuncsByType.end()) targets = it->second;
            if (targets.empty()) {
                R.insert({4, uid("indirect call result")});
                return R;
            }
        }
        for (auto *T : targets) {
            if (T->isDeclaration()) {
                ExtEffect E;
                if (externalEffect(T, E)) {
                    if (E.ret == -2) R.insert({3, 0});
                    else if (E.ret == -3) R.insert({4, uid("external " + dem(T->getName()))});
                    else if (E.ret >= 0 && (unsigned) E.ret < CB->arg_size())
                        for (auto &r : provOf(S, CB->getArgOperand(E.ret))) R.insert(r);
                } else {
                    R.insert({4, uid("result of unlisted external " + dem(T->getName()))});
                }
                continue;
            }
            auto &Sum = summaries[T];
            for (auto &r : Sum.ret) {
                if (r.kind == 0) {
                    if ((unsigned) (r.id >> 1) < CB->arg_size())
                        for (auto &x : mapArgRoot(S, provOf(S, CB->getArgOperand(r.id >> 1)), r.id & 1)) R.insert(x);
                } else
                    R.insert(r);
            }
        }
        return R;
    }
    if (isa<ExtractValueInst>(V) || isa<ExtractElementInst>(V) || isa<LandingPadInst>(V) || isa<InsertValueInst>(V)) {
        // aggregates carrying pointers: union of the operands
        if (auto *I = dyn_cast<Instruction>(V))
            for (auto &Op : I->operands())
                if (isPtr(Op.get()) || Op->getType()->isAggregateType())
                    for (auto &r : provOf(S, Op.get())) R.insert(r);
        if (isa<LandingPadInst>(V)) R.insert({3, 0});
        return R;
    }
    R.insert({4, uid(std::string("value ") + (isa<Instruction>(V) ? cast<Instruction>(V)->getOpcodeName() : "?"))});
    return R;
}

const RootSet &provOf(FnState &S, const Value *V) {
    auto it = S.prov.find(V);
    if (it != S.prov.end()) return it->second;
    S.prov[V];   // break cycles (phi)
    RootSet R = computeProv(S, V);
    auto &slot = S.prov[V];
    slot = R;
    return slot;
}

// memory designated by callee root ARG(i, deep) at a call site whose i-th actual has provenance P
RootSet mapArgRoot(FnState &S, const RootSet &P, bool deep) {
    RootSet R;
    for (auto &r : P) {
        if (!deep) {
            R.insert(r);
            continue;
        }
        if (r.kind == 2) {
            // what the pointers stored in the local point to, and anything further
            for (auto &c : S.contents[r.id]) {
                R.insert(c);
                if (c.kind == 0) R.insert({0, c.id | 1});
            }
        } else if (r.kind == 0) {
            R.insert({0, r.id | 1});
        } else {
            R.insert(r);
        }
    }
    return R;
}

bool analyseFunction(const Function &F) {
    FnState S;
    S.F = &F;
    Summary New;
    // iterate the intra-procedural facts to a fixpoint (contents of locals feed loads)
    for (int round = 0; round < 8; ++round) {
        bool changed = false;
        S.prov.clear();
        New = Summary();
        for (const Instruction &I : instructions(F)) {
            if (auto *SI = dyn_cast<StoreInst>(&I)) {
                const RootSet &dst = provOf(S, SI->getPointerOperand());
                // remember pointers stored into locals
                if (isPtr(SI->getValueOperand())) {
                    const RootSet &val = provOf(S, SI->getValueOperand());
                    for (auto &d : dst)
                        for (auto &v : val) {
                            if (d.kind == 2) {
                                if (S.contents[d.id].insert(v).second) changed = true;
                            } else if (d.kind != 3 && v.kind != 2) {
                                New.pstores.insert({d, v});
                            }
                        }
                }
                for (auto &d : dst) {
                    if (d.kind == 2 || d.kind == 3) continue;
                    if (!New.writes.count(d)) {
                        Witness W;
                        W.what = "store";
                        locOf(I, W);
                        New.writes[d] = W;
                    }
                }
            } else if (auto *RMW = dyn_cast<AtomicRMWInst>(&I)) {
                for (auto &d : provOf(S, RMW->getPointerOperand()))
                    if (d.kind != 2 && d.kind != 3 && !New.writes.count(d)) { Witness W; W.what = "atomicrmw"; locOf(I, W); New.writes[d] = W; }
            } else if (auto *CX = dyn_cast<AtomicCmpXchgInst>(&I)) {
                for (auto &d : provOf(S, CX->getPointerOperand()))
                    if (d.kind != 2 && d.kind != 3 && !New.writes.count(d)) { Witness W; W.what = "cmpxchg"; locOf(I, W); New.writes[d] = W; }
            } else if (auto *CB = dyn_cast<CallBase>(&I)) {
                const Function *Callee = CB->getCalledFunction();
                std::vector<const Function *> targets;
                if (Callee) targets.push_back(Callee);
                else if (!CB->isInlineAsm()) {
                    auto it = vtableFuncsByType.find(CB->getFunctionType());
                    if (it != vtableFuncsByType.end()) targets = it->second;
                    if (targets.empty()) {
                        Root u{4, uid("indirect call without candidate targets")};
                        if (!New.writes.count(u)) { Witness W; W.what = "indirect call"; locOf(I, W); New.writes[u] = W; }
                    }
                }
                for (auto *T : targets) {
                    auto addWrite = [&](const Root &d, const std::string &what) {
                        if (d.kind == 2 || d.kind == 3) return;
                        if (!New.writes.count(d)) {
                            Witness W;
                            W.what = what;
                            W.callee = T;
                            locOf(I, W);
                            New.writes[d] = W;
                        }
                    };
                    if (T->isDeclaration()) {
                        ExtEffect E;
                        std::string dn = dem(T->getName());
                        if (externalEffect(T, E)) {
                            externalsUsed.insert(dn);
                            for (unsigned k : E.writesArgs)
                                if (k < CB->arg_size())
                                    for (auto &d : provOf(S, CB->getArgOperand(k))) {
                                        addWrite(d, "external " + dn);
                                        // memcpy into a local: contents follow the source
                                        if (d.kind == 2 && CB->arg_size() > 1 && isPtr(CB->getArgOperand(1)))
                                            for (auto &v : provOf(S, CB->getArgOperand(1)))
                                                if (v.kind == 2) { for (auto &c : S.contents[v.id]) if (S.contents[d.id].insert(c).second) changed = true; }
                                                else if (S.contents[d.id].insert(v).second) changed = true;
                                    }
                            if (E.global) addWrite({1, gid(T)}, "external " + dn);
                        } else {
                            externalsUnlisted.insert(dn);
                            addWrite({4, uid("unlisted external " + dn + " (may write global state)")}, "unlisted external " + dn);
                            for (unsigned k = 0; k < CB->arg_size(); ++k)
                                if (isPtr(CB->getArgOperand(k)))
                                    for (auto &d : provOf(S, CB->getArgOperand(k))) addWrite(d, "unlisted external " + dn);
                        }
                        continue;
                    }
                    auto &Sum = summaries[T];
                    for (auto &w : Sum.writes) {
                        const Root &r = w.first;
                        if (r.kind == 0) {
                            if ((unsigned) (r.id >> 1) < CB->arg_size())
                                for (auto &d : mapArgRoot(S, provOf(S, CB->getArgOperand(r.id >> 1)), r.id & 1)) addWrite(d, "call");
                        } else
                            addWrite(r, "call");
                    }
                    // pointers the callee stores into memory we pass (out-parameters, containers growing, ...)
                    for (auto &ps : Sum.pstores) {
                        RootSet D, V;
                        if (ps.first.kind == 0) {
                            if ((unsigned) (ps.first.id >> 1) < CB->arg_size()) D = mapArgRoot(S, provOf(S, CB->getArgOperand(ps.first.id >> 1)), ps.first.id & 1);
                        } else
                            D.insert(ps.first);
                        if (ps.second.kind == 0) {
                            if ((unsigned) (ps.second.id >> 1) < CB->arg_size()) V = mapArgRoot(S, provOf(S, CB->getArgOperand(ps.second.id >> 1)), ps.second.id & 1);
                        } else
                            V.insert(ps.second);
                        for (auto &d : D)
                            for (auto &v : V) {
                                if (d.kind == 2) {
                                    if (S.contents[d.id].insert(v).second) changed = true;
                                } else if (d.kind != 3 && v.kind != 2) {
                                    New.pstores.insert({d, v});
                                }
                            }
                    }
                }
                // sret / result pointers
                if (isPtr(CB)) (void) provOf(S, CB);
            } else if (auto *RI = dyn_cast<ReturnInst>(&I)) {
                if (RI->getReturnValue() && isPtr(RI->getReturnValue()))
                    for (auto &r : provOf(S, RI->getReturnValue())) {
                        if (r.kind == 2) {
                            for (auto &c : S.contents[r.id])
                                if (c.kind != 2) New.ret.insert(c);
                        } else
                            New.ret.insert(r);
                    }
            }
        }
        if (!changed) break;
    }
    auto &Old = summaries[&F];
    if (Old == New) return false;
    // monotone: keep old witnesses
    for (auto &w : Old.writes)
        if (!New.writes.count(w.first)) New.writes[w.first] = w.second;
    for (auto &r : Old.ret) New.ret.insert(r);
    for (auto &ps : Old.pstores) New.pstores.insert(ps);
    bool ch = !(Old == New);
    Old = New;
    return ch;
}

std::string jstr(const std::string &s) {
    std::string o = "\"";
    for (unsigned char c : s) {
        if (c == '"') o += "\\\"";
        else if (c == '\\') o += "\\\\";
        else if (c < 0x20) o += ' ';
        else o += (char) c;
    }
    return o + "\"";
}

std::string rootStr(const Root &r) {
    switch (r.kind) {
        case 0: return "arg" + std::to_string(r.id >> 1) + ((r.id & 1) ? "*" : "");
        case 1: return "global:" + dem(globalNames[r.id]);
        case 2: return "local";
        case 3: return "fresh";
        default: return "unknown:" + unknownReasons[r.id];
    }
}

}  // namespace

int main(int argc, char **argv) {
    if (argc < 3) {
        errs() << "usage: pgmir <module.ll|bc> <out.json>\n";
        return 2;
    }
    LLVMContext Ctx;
    SMDiagnostic Err;
    std::unique_ptr<Module> M = parseIRFile(argv[1], Err, Ctx);
    if (!M) {
        Err.print("pgmir", errs());
        return 3;
    }
    // functions referenced from vtables, by type
    for (const GlobalVariable &G : M->globals()) {
        if (!G.getName().startswith("_ZTV") || !G.hasInitializer()) continue;
        std::vector<const Constant *> todo{G.getInitializer()};
        while (!todo.empty()) {
            const Constant *C = todo.back();
            todo.pop_back();
            if (auto *F = dyn_cast<Function>(C->stripPointerCasts())) {
                vtableFuncsByType[F->getFunctionType()].push_back(F);
                continue;
            }
            for (auto &Op : C->operands())
                if (auto *OC = dyn_cast<Constant>(Op.get())) todo.push_back(OC);
        }
    }
    std::vector<const Function *> defined;
    for (const Function &F : *M)
        if (!F.isDeclaration()) {
            defined.push_back(&F);
            summaries[&F];
        }
    int rounds = 0;
    bool changed = true;
    while (changed && rounds < 40) {
        changed = false;
        ++rounds;
        for (auto *F : defined)
            if (analyseFunction(*F)) changed = true;
    }
    std::error_code EC;
    raw_fd_ostream os(argv[2], EC);
    if (EC) return 4;
    os << "{\"rounds\":" << rounds << ",\"functions_defined\":" << defined.size() << ",\n\"externals_used\":[";
    bool first = true;
    for (auto &e : externalsUsed) { os << (first ? "" : ",") << jstr(e); first = false; }
    os << "],\n\"externals_unlisted\":[";
    first = true;
    for (auto &e : externalsUnlisted) { os << (first ? "" : ",") << jstr(e); first = false; }
    os << "],\n\"functions\":[\n";
    first = true;
    for (auto *F : defined) {
        auto &S = summaries[F];
        os << (first ? "" : ",\n") << "{\"name\":" << jstr(dem(F->getName())) << ",\"mangled\":" << jstr(F->getName().str()) << ",\"nargs\":" << F->arg_size() << ",\"sret\":" << (F->arg_size() && F->hasParamAttribute(0, Attribute::StructRet) ? 1 : 0) << ",\"writes\":[";
        first = false;
        bool f2 = true;
        for (auto &w : S.writes) {
            os << (f2 ? "" : ",") << "{\"root\":" << jstr(rootStr(w.first)) << ",\"how\":" << jstr(w.second.what) << ",\"line\":" << w.second.line << ",\"file\":" << jstr(w.second.file);
            if (w.second.callee) os << ",\"callee\":" << jstr(dem(w.second.callee->getName()));
            os << "}";
            f2 = false;
        }
        os << "],\"ret\":[";
        f2 = true;
        for (auto &r : S.ret) { os << (f2 ? "" : ",") << jstr(rootStr(r)); f2 = false; }
        os << "]}";
    }
    os << "\n]}\n";
    return 0;
}
