#!/usr/bin/env python3
"""Driver of the static checks:  check.py --prop C13 --tier quick|thorough   |   check.py --replay <file>

exit 0  every obligation discharged (open known findings are printed as KNOWN-FINDING lines)
exit 1  `VIOLATION property=<id> replay=<path>` for each violated obligation not in known_findings.json
exit 2  `ANALYSIS-BROKEN: <reason>`: the tree does not parse, an anchor vanished, a shape left the engine's
        language, an `if constexpr` arm is not instantiated, an instance count fell below rules/expect.json, or a
        positive self-test did not fire.  Never a pass, never a violation.
"""
import argparse
import json
import os
import sys
import time
import traceback

VERIF = os.path.dirname(os.path.abspath(__file__))
EVDIR = os.environ.get('PGM_EVIDENCE_DIR') or os.path.join(VERIF, 'evidence')
sys.path.insert(0, os.path.join(VERIF, 'rules'))
sys.path.insert(0, os.path.join(VERIF, 'units'))

import common  # noqa: E402
import extract  # noqa: E402
from common import Ctx, OK, VIOLATED, UNDECIDED  # noqa: E402
from ir import AnalysisBroken  # noqa: E402
import registry  # noqa: E402

PGM_HEADERS = ('pgm_index.hpp', 'pgm_index_dynamic.hpp', 'pgm_index_variants.hpp', 'piecewise_linear_model.hpp')


def arm_coverage(units):
    cov = {}
    for u in units:
        for c in u.constexpr_ifs:
            base = os.path.basename(c['file'])
            if base not in PGM_HEADERS:
                continue
            cov.setdefault((base, c['line'], c['col']), set()).add(c['val'])
    missing = [f"{k[0]}:{k[1]}:{k[2]} only {'true' if True in v else 'false'} arm instantiated" for k, v in sorted(cov.items()) if len(v) < 2]
    return cov, missing


def build_ctx(tier):
    units, info = extract.load_units(tier, want_cpgm=True, want_repo_tus=(tier == 'thorough'))
    cpgm = None
    rest = []
    for u in units:
        if u.name == 'cpgm':
            cpgm = u
        else:
            rest.append(u)
    ctx = Ctx(tier, rest, info, cpgm)
    return ctx


def write_evidence(prop, tier, spec, obs, ctx, wall, extra, violations, broken=None):
    os.makedirs(EVDIR, exist_ok=True)
    n = len(obs)
    disc = sum(1 for o in obs if o.status == OK)
    und = [o for o in obs if o.status == UNDECIDED]
    by_rule = {}
    for o in obs:
        d = by_rule.setdefault(o.rule, {'obligations': 0, 'discharged': 0, 'violated': 0, 'undecided': 0})
        d['obligations'] += 1
        d[{OK: 'discharged', VIOLATED: 'violated', UNDECIDED: 'undecided'}[o.status]] += 1
    samples = []
    seen_rules = set()
    for o in obs:
        if o.rule not in seen_rules or o.status != OK:
            seen_rules.add(o.rule)
            samples.append(o.to_json())
        if len(samples) >= 12:
            break
    fns = set()
    for o in obs:
        if o.fn is not None:
            fns.add(o.fn.qname)
    cov = {
        'obligations': n,
        'discharged': disc,
        'checker_cmd': f"python3 /verif/check.py --prop {prop} --tier {tier}",
        'trusted_base': spec.get('trusted_base', registry.DEFAULT_TRUSTED_BASE),
        'explanation': spec['explanation'],
        'decided_clauses': spec.get('decides', []),
        'not_decided': spec.get('not_decided', ''),
        'rule_instances': by_rule,
        'expected_minimum_instances': registry.expect_for(prop),
        'undecided_sites': [o.to_json() for o in und][:20],
        'units_analysed': ctx.info.get('units', []) if ctx else [],
        'compile_flags': ctx.info.get('flags', []) if ctx else [],
        'flags_source': ctx.info.get('flags_source', '') if ctx else '',
        'functions_with_obligations': len(fns),
        'functions_in_fact_base': sum(len(u.functions) for u in ctx.all_units()) if ctx else 0,
        'samples': samples,
        'exhaustive': False,
    }
    cov.update(extra or {})
    if broken:
        cov['analysis_broken'] = broken
    ev = {
        'property_id': prop,
        'tier': tier,
        'seed': int(os.environ.get('VERIF_SEED', '0') or 0),
        'level': spec['level'],
        'coverage': cov,
        'assumptions': spec.get('assumptions', registry.DEFAULT_ASSUMPTIONS),
        'wall_s': round(wall, 3),
        'violations': violations,
    }
    p = os.path.join(EVDIR, prop + '.json')
    with open(p + '.tmp', 'w') as fh:
        json.dump(ev, fh, indent=1)
    os.replace(p + '.tmp', p)


def run_prop(prop, tier, ctx=None, quiet=False):
    t0 = time.time()
    spec = registry.PROPS[prop]
    obs = []
    try:
        if ctx is None:
            ctx = build_ctx(tier)
        if ctx.cpgm is None:
            raise AnalysisBroken('c-interface/cpgm.cpp was not analysed')
        cov, missing = arm_coverage(ctx.all_units())
        if missing:
            raise AnalysisBroken('if-constexpr arms not covered by the configuration matrix: ' + '; '.join(missing))
        if len(cov) < registry.MIN_CONSTEXPR_IFS:
            raise AnalysisBroken(f'only {len(cov)} if-constexpr sites seen in the PGM headers (expected >= {registry.MIN_CONSTEXPR_IFS})')
        obs = common.soften_unknown(common.dedup(spec['rules'](ctx)))
        # instance counts against the confirmed minimum (a violated obligation is reported first: it is not a pass)
        counts = {}
        for o in obs:
            counts[o.rule] = counts.get(o.rule, 0) + 1
        if not any(o.status == VIOLATED for o in obs):
            for rule, mn in registry.expect_for(prop).items():
                floor = max(1, (mn * 7) // 10)
                if rule in registry.STRUCTURAL_FLOORS:
                    floor = min(floor, registry.STRUCTURAL_FLOORS[rule])
                if counts.get(rule, 0) < floor:
                    raise AnalysisBroken(f'rule {rule} produced {counts.get(rule, 0)} obligations, fewer than 70% of the {mn} confirmed by hand on the pinned tree '
                                         f'(a rule that matches nothing never passes silently)')
        extra = {'constexpr_if_sites': len(cov), 'constexpr_if_arms_covered': sum(len(v) for v in cov.values())}
        # positive self-tests: every expected-zero rule must fire on its tiny example
        st = []
        for name, fnc in spec.get('selftests', []):
            r = fnc()
            st.append({'selftest': name, 'fired': r})
            if not r:
                raise AnalysisBroken(f'positive self-test {name} did not fire')
        extra['positive_selftests'] = st
        if spec.get('extra'):
            extra.update(spec['extra'](ctx, obs))
    except AnalysisBroken as e:
        msg = str(e)
        print(f'ANALYSIS-BROKEN: property={prop} {msg}')
        write_evidence(prop, tier, spec, obs, ctx, time.time() - t0, {}, 0, broken=msg)
        return 2
    except Exception as e:  # an engine bug is analysis-broken, never a verdict
        msg = f'internal error {type(e).__name__}: {e}'
        traceback.print_exc()
        print(f'ANALYSIS-BROKEN: property={prop} {msg}')
        write_evidence(prop, tier, spec, obs, ctx, time.time() - t0, {}, 0, broken=msg)
        return 2

    known = common.load_known()
    viol = [o for o in obs if o.status == VIOLATED]
    und = [o for o in obs if o.status == UNDECIDED]
    new = []
    os.makedirs(os.path.join(EVDIR, 'violations'), exist_ok=True)
    printed_known = set()
    for o in viol:
        k = common.match_known(o, prop, known)
        if k:
            if k['key'] not in printed_known:
                printed_known.add(k['key'])
                print(f"KNOWN-FINDING: property={prop} {k.get('what', o.key)}")
        else:
            new.append(o)
    # one VIOLATION line per distinct (rule, function, arm)
    seen = {}
    for o in new:
        seen.setdefault(o.key, []).append(o)
    k = 0
    for key, group in seen.items():
        k += 1
        rp = os.path.join(EVDIR, 'violations', f'{prop}-{k}.json')
        with open(rp, 'w') as fh:
            json.dump({'property': prop, 'tier': tier, 'key': key, 'instances': [o.to_json() for o in group],
                       'replay': f'python3 /verif/check.py --replay {rp}'}, fh, indent=1)
        print(group[0].diag() + (f'  [{len(group)} instantiations]' if len(group) > 1 else ''))
        print(f'VIOLATION property={prop} replay={rp}')
    anchor_undecided = [o for o in und if spec.get('undecided_is_broken', True)]
    write_evidence(prop, tier, spec, obs, ctx, time.time() - t0, extra, len(seen))
    if seen:
        return 1
    if anchor_undecided:
        for o in anchor_undecided[:5]:
            print('undecided: ' + o.diag())
        print(f'ANALYSIS-BROKEN: property={prop} {len(anchor_undecided)} obligation(s) could not be decided (unrecognised shape)')
        return 2
    if not quiet:
        n = len(obs)
        print(f'{prop} {tier}: {n} obligations discharged over {len(ctx.all_units())} units '
              f'({", ".join(f"{r}={c}" for r, c in sorted(counts.items()))}) in {time.time() - t0:.1f}s')
    return 0


def replay(path):
    d = json.load(open(path))
    prop = d['property']
    key = d['key']
    ctx = build_ctx(d.get('tier', 'quick'))
    spec = registry.PROPS[prop]
    try:
        obs = common.soften_unknown(common.dedup(spec['rules'](ctx)))
    except AnalysisBroken as e:
        print(f'ANALYSIS-BROKEN: property={prop} {e}')
        return 2
    hit = [o for o in obs if o.key == key and o.status == VIOLATED]
    if hit:
        for o in hit:
            print(o.diag())
        print(f'VIOLATION property={prop} replay={path}')
        return 1
    print(f'replay {path}: obligation {key} is discharged on the current tree')
    return 0


def main():
    ap = argparse.ArgumentParser()
    ap.add_argument('--prop')
    ap.add_argument('--tier', default=os.environ.get('VERIF_TIER', 'quick'), choices=['quick', 'thorough'])
    ap.add_argument('--replay')
    ap.add_argument('--all', action='store_true')
    a = ap.parse_args()
    if a.replay:
        sys.exit(replay(a.replay))
    if a.all:
        ctx = build_ctx(a.tier)
        rc = 0
        for p in sorted(registry.PROPS):
            r = run_prop(p, a.tier, ctx)
            rc = max(rc, r)
        sys.exit(rc)
    if not a.prop or a.prop not in registry.PROPS:
        print('unknown property; claimed: ' + ' '.join(sorted(registry.PROPS)))
        sys.exit(2)
    sys.exit(run_prop(a.prop, a.tier))


if __name__ == '__main__':
    main()
