#!/usr/bin/env python3
"""Both-directions test of the checker (development tool and thorough-tier self-check).

  selftest/mutants/*.patch   one-instance-broken variants of /repo that still compile; the checks named in
                             selftest/mutants/expect.json must exit 1 and name the expected rule
  selftest/neutral/*.patch   behaviour-preserving refactors; every claimed check must stay silent (exit 0)
  /verif/seeded/<id>/patch.diff   changes written by independent sub-agents (same treatment as mutants)

Each variant is applied to a scratch copy of /repo's include/ and c-interface/ under $(mktemp -d) (outside
/repo and /verif), analysed with PGM_REPO pointing at the copy, and removed immediately afterwards.
usage: run_mutants.py [--only substr] [--props C01,C02] [--jobs N] [--tier quick|thorough] [--neutral-only|--mutants-only]
"""
import argparse
import json
import os
import shutil
import subprocess
import sys
import tempfile
from concurrent.futures import ThreadPoolExecutor

VERIF = os.path.dirname(os.path.dirname(os.path.abspath(__file__)))
REPO = '/repo'


def claimed_props():
    m = json.load(open(os.path.join(VERIF, 'MANIFEST.json')))
    return [c['property_id'] for c in m['checks']]


def run_variant(patch, props, tier='quick'):
    tmp = tempfile.mkdtemp(prefix='pgm_mut_')
    try:
        for d in ('include', 'c-interface'):
            shutil.copytree(os.path.join(REPO, d), os.path.join(tmp, d))
        p = subprocess.run(['patch', '-p1', '-s', '-d', tmp, '-i', patch], capture_output=True, text=True)
        if p.returncode != 0:
            return {'patch': patch, 'error': 'patch does not apply: ' + (p.stdout + p.stderr)[:300]}
        env = dict(os.environ)
        env['PGM_REPO'] = tmp
        env['PGM_CACHE'] = os.path.join(tmp, '.cache')
        env['PGM_EVIDENCE_DIR'] = os.path.join(tmp, 'evidence')
        out = {}
        for prop in props:
            r = subprocess.run([sys.executable, os.path.join(VERIF, 'check.py'), '--prop', prop, '--tier', tier],
                               capture_output=True, text=True, env=env, cwd=VERIF)
            out[prop] = {'rc': r.returncode, 'out': r.stdout[-3000:] + r.stderr[-1500:]}
        return {'patch': patch, 'results': out}
    finally:
        shutil.rmtree(tmp, ignore_errors=True)


def main():
    ap = argparse.ArgumentParser()
    ap.add_argument('--only', default='')
    ap.add_argument('--props', default='')
    ap.add_argument('--jobs', type=int, default=8)
    ap.add_argument('--neutral-only', action='store_true')
    ap.add_argument('--mutants-only', action='store_true')
    ap.add_argument('--verbose', action='store_true')
    ap.add_argument('--tier', default='quick', choices=['quick', 'thorough'])
    a = ap.parse_args()
    claimed = claimed_props()
    exp = json.load(open(os.path.join(VERIF, 'selftest', 'mutants', 'expect.json')))
    jobs = []
    if not a.neutral_only:
        md = os.path.join(VERIF, 'selftest', 'mutants')
        for f in sorted(os.listdir(md)):
            if f.endswith('.patch') and a.only in f:
                e = exp.get(f[:-6])
                if not e:
                    print(f'?? {f}: no entry in expect.json')
                    continue
                jobs.append(('mutant', os.path.join(md, f), e))
        sd = os.path.join(VERIF, 'seeded')
        if os.path.isdir(sd):
            for d in sorted(os.listdir(sd)):
                pf = os.path.join(sd, d, 'patch_rebased.diff')
                if not os.path.exists(pf):
                    pf = os.path.join(sd, d, 'patch.diff')
                mf = os.path.join(sd, d, 'meta.json')
                if os.path.exists(pf) and os.path.exists(mf) and a.only in d:
                    meta = json.load(open(mf))
                    jobs.append(('seeded', pf, {'props': meta.get('caught_by', []), 'rule': '',
                                                'expected_miss': not meta.get('caught_by')}))
    if not a.mutants_only:
        nd = os.path.join(VERIF, 'selftest', 'neutral')
        for f in sorted(os.listdir(nd)):
            if f.endswith('.patch') and a.only in f:
                jobs.append(('neutral', os.path.join(nd, f), {'props': claimed}))
    sel = [p for p in a.props.split(',') if p]

    def work(j):
        kind, patch, e = j
        props = sel or e['props'] or claimed
        if kind == 'seeded' and e.get('expected_miss'):
            props = sel or claimed
        return j, run_variant(patch, props, a.tier)

    bad = 0
    with ThreadPoolExecutor(max_workers=a.jobs) as ex:
        for (kind, patch, e), res in ex.map(work, jobs):
            name = os.path.basename(os.path.dirname(patch)) if kind == 'seeded' else os.path.basename(patch)
            if 'error' in res:
                print(f'ERROR {kind} {name}: {res["error"]}')
                bad += 1
                continue
            for prop, r in res['results'].items():
                if kind == 'neutral':
                    ok = r['rc'] == 0
                elif e.get('expected_miss'):
                    ok = True
                else:
                    ok = r['rc'] == 1 and (not e.get('rule') or e['rule'] in r['out'])
                tag = 'ok  ' if ok else 'FAIL'
                first = next((l for l in r['out'].splitlines() if 'VIOLATION' not in l and ('required' in l or 'BROKEN' in l)), '')
                print(f'{tag} {kind:7s} {name:40s} {prop} rc={r["rc"]} {first[:150]}')
                if a.verbose or not ok:
                    print('      ' + r['out'].replace('\n', '\n      ')[-1500:])
                if not ok:
                    bad += 1
    print(f'{len(jobs)} variants, {bad} unexpected results')
    sys.exit(1 if bad else 0)


if __name__ == '__main__':
    main()
