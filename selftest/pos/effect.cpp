// Positive example for EFFECT: every bad_* reader writes state that other reader threads share; every good_* reader
// writes only locals or (for the iterator) its own fields.  The rule must fire on each bad_ and on no good_.
#include <algorithm>
#include <set>
#include <vector>
namespace pos {
struct Idx {
    std::vector<int> v;
    mutable size_t memo = 0;
    size_t hits = 0;
    std::vector<int> scratch;

    const int *seg(int k) const { return &*std::lower_bound(v.begin(), v.end(), k); }
    int good_search(int k) const {
        auto it = std::upper_bound(v.begin(), v.end(), k);
        size_t pos = std::min<size_t>(it - v.begin(), v.size());
        std::set<int> seen;
        seen.emplace(k);
        return int(pos) + *seg(k);
    }
    std::vector<int> good_range(int lo, int hi) const {
        std::vector<int> out;
        for (auto x : v)
            if (lo <= x && x <= hi) out.push_back(x);
        std::sort(out.begin(), out.end());
        return out;
    }
    int bad_memo(int k) const {
        if (memo < v.size() && v[memo] == k) return int(memo);
        memo = std::lower_bound(v.begin(), v.end(), k) - v.begin();
        return int(memo);
    }
    int bad_counter(int k) {
        ++hits;
        return good_search(k);
    }
    int bad_static(int k) const {
        static std::vector<int> buf;
        buf.clear();
        buf.push_back(k);
        return buf.front();
    }
    int bad_member_scratch(int k) {
        scratch.assign(v.begin(), v.end());
        return scratch.empty() ? k : scratch.back();
    }
    void helper_touch() { hits = 0; }
    int bad_via_helper(int k) {
        helper_touch();
        return k;
    }
};
struct It {
    const Idx *super;
    size_t cur;
    std::vector<size_t> cursors;
    void good_next() {
        ++cur;
        cursors.push_back(cur);
        std::swap(cursors.front(), cursors.back());
    }
    int good_deref() const { return super->v[cur]; }
    void bad_next() {
        ++cur;
        const_cast<Idx *>(super)->hits++;
    }
};
inline int drive() {
    Idx i;
    It it{&i, 0, {}};
    it.good_next();
    it.bad_next();
    return i.good_search(1) + int(i.good_range(0, 1).size()) + i.bad_memo(1) + i.bad_counter(1) + i.bad_static(1) + i.bad_member_scratch(1) +
           i.bad_via_helper(1) + it.good_deref();
}
}
