// Positive example for ITER-INVALIDATION: bad_* functions use an iterator into a vector after an operation that may
// reallocate it (directly, or through two closures handed to one call); good_* functions do not.
#include <vector>
#include <algorithm>
namespace pos {
template<class In, class Out> void pump(size_t n, In in, Out out) { for (size_t i = 0; i < n; ++i) out(in(i)); }
void bad_resize_then_use(std::vector<int> &v, int x) {
    auto it = std::lower_bound(v.begin(), v.end(), x);
    v.resize(v.size() + 1);
    std::move_backward(it, std::prev(v.end()), v.end());
    *it = x;
}
int bad_push_then_deref(std::vector<int> &v) {
    auto first = v.begin();
    v.push_back(7);
    return *first;
}
void bad_closures(std::vector<int> &v, size_t n) {
    auto base = v.cbegin();
    auto in = [base](size_t i) { return base[i] + 1; };
    auto out = [&](int x) { v.emplace_back(x); };
    pump(n, in, out);
}
void good_insert_with_iterator(std::vector<int> &v, int x) {
    auto it = std::lower_bound(v.begin(), v.end(), x);
    v.insert(it, x);
}
int good_index_closures(std::vector<int> &v, size_t n) {
    auto in = [&](size_t i) { return v[i] + 1; };
    auto out = [&](int x) { v.emplace_back(x); };
    pump(n, in, out);
    return 0;
}
int good_use_before(std::vector<int> &v) {
    auto first = v.begin();
    int r = *first;
    v.push_back(r);
    return r;
}
void good_other_vector(std::vector<int> &v, std::vector<int> &w) {
    auto it = v.begin();
    w.push_back(1);
    *it = 2;
}
}
