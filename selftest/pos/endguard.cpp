// Positive example for END-GUARD: bad_* functions dereference an iterator on the branch on which it was
// just found equal to end(); good_* functions do not.  The rule must fire on every bad_ and on no good_.
#include <vector>
namespace pos {
bool bad_or(const std::vector<int> &v, std::vector<int>::const_iterator it) { return it != v.end() || *it == 3; }
int bad_after_loop(const std::vector<int> &v, int z) {
    auto it = v.begin();
    while (it != v.end() && *it <= z) ++it;
    if (*it > z) return 1;
    return 0;
}
bool good_and(const std::vector<int> &v, std::vector<int>::const_iterator it) { return it != v.end() && *it == 3; }
int good_after_loop(const std::vector<int> &v, int z) {
    auto it = v.begin();
    while (it != v.end() && *it <= z) ++it;
    if (it != v.end() && *it > z) return 1;
    return 0;
}
int good_early_return(const std::vector<int> &v) {
    auto it = v.begin();
    if (it == v.end()) return -1;
    return *it;
}
int good_reassigned(const std::vector<int> &v) {
    auto it = v.begin();
    if (it == v.end()) it = v.begin();
    else ++it;
    return 0;
}
// check order: order_bad_* dereference the iterator in the left operand and compare it with end() only in the right one
bool order_bad_and(const std::vector<int> &v, std::vector<int>::const_iterator it, int k) { return *it < k && it != v.end(); }
int order_bad_loop(const std::vector<int> &v, int k) {
    int c = 0;
    for (auto it = v.begin(); *it <= k && it != v.end(); ++it) ++c;
    return c;
}
bool order_good_and(const std::vector<int> &v, std::vector<int>::const_iterator it, int k) { return it != v.end() && *it < k; }
bool order_good_repeat(const std::vector<int> &v, std::vector<int>::const_iterator it, int k) { return (it != v.end() && *it < k) && it != v.end(); }
}
