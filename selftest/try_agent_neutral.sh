#!/bin/bash
# try_agent_neutral.sh <K>: import /tmp/agentn_out_<K>/neutral*.diff as selftest/neutral/ag-<K>-<i>.patch and run all claimed checks on each
K=$1
for f in /tmp/agentn_out_$K/neutral*.diff; do
  i=$(basename $f .diff | sed 's/neutral//')
  cp $f /verif/selftest/neutral/ag-$K-$i.patch
done
cp /tmp/agentn_out_$K/notes.md /verif/selftest/neutral/ag-$K-notes.md 2>/dev/null
cd /verif && python3 selftest/run_mutants.py --only ag-$K- --neutral-only --jobs 12 | grep "^FAIL\|^ERROR\|variants" | cut -c1-420
