#!/usr/bin/env python3
"""rebase_helper.py <out.diff> <repo-relative file> <old> <new> [<old> <new> ...]
Writes a unified diff of /repo/<file> with the given replacements (each <old> must occur exactly once): used to re-create
a mutant or a seeded change whose original patch no longer applies after a fix: commit in /repo changed its context."""
import difflib
import sys
out, rel = sys.argv[1], sys.argv[2]
src = open('/repo/' + rel).read()
new = src
for old, rep in zip(sys.argv[3::2], sys.argv[4::2]):
    old = old.encode().decode('unicode_escape')
    rep = rep.encode().decode('unicode_escape')
    if new.count(old) != 1:
        sys.exit(f'pattern occurs {new.count(old)} times: {old!r}')
    new = new.replace(old, rep)
open(out, 'w').write(''.join(difflib.unified_diff(src.splitlines(True), new.splitlines(True), 'a/' + rel, 'b/' + rel)))
print('wrote', out)
