#!/usr/bin/env python3
"""mk_mutant.py <name> <repo-relative file> <old> <new> [--neutral] [--count N]
Writes selftest/mutants/<name>.patch (or selftest/neutral/<name>.patch): a unified diff that replaces the N-th
(default: only) occurrence of <old> by <new> in /repo/<file>.  Development helper; patches are committed."""
import difflib
import os
import sys

VERIF = os.path.dirname(os.path.dirname(os.path.abspath(__file__)))


def main():
    args = [a for a in sys.argv[1:] if not a.startswith('--')]
    neutral = '--neutral' in sys.argv
    nth = None
    for a in sys.argv:
        if a.startswith('--nth='):
            nth = int(a.split('=')[1])
    name, rel = args[0], args[1]
    pairs = list(zip(args[2::2], args[3::2]))
    src = open(os.path.join('/repo', rel)).read()
    new = src
    for old, rep in pairs:
        old = old.encode().decode('unicode_escape')
        rep = rep.encode().decode('unicode_escape')
        cnt = new.count(old)
        if cnt == 0:
            sys.exit(f'{name}: pattern not found: {old!r}')
        if cnt > 1 and nth is None:
            sys.exit(f'{name}: pattern occurs {cnt} times, give --nth=')
        if nth is None:
            new = new.replace(old, rep)
        else:
            idx = -1
            for _ in range(nth):
                idx = new.index(old, idx + 1)
            new = new[:idx] + rep + new[idx + len(old):]
    diff = ''.join(difflib.unified_diff(src.splitlines(True), new.splitlines(True), 'a/' + rel, 'b/' + rel))
    out = os.path.join(VERIF, 'selftest', 'neutral' if neutral else 'mutants', name + '.patch')
    mode = 'a' if os.path.exists(out) and '--append' in sys.argv else 'w'
    with open(out, mode) as fh:
        fh.write(diff)
    print('wrote', out)


if __name__ == '__main__':
    main()
